package main

import (
	"encoding/json"
	"fmt"
	"go/token"
	"os"
	"path/filepath"
	"regexp"
	"sort"
	"strings"
	"time"
)

// Obligation is one rule instance: a rule template applied to one construct.
type Obligation struct {
	Rule   string `json:"rule"`
	Key    string `json:"key"` // rule / function / construct — never a line number
	Pos    string `json:"pos"`
	Status string `json:"status"` // discharged | violated | undecided
	Detail string `json:"detail"`
}

// Ctx collects the obligations of one property run.
type Ctx struct {
	P      *Prog
	Prop   string
	Obs    []Obligation
	floors map[string]int
	notes  []string
	seen   map[string]bool
	funcs  map[string]bool
	sigs   map[string]bool
}

func newCtx(p *Prog, prop string) *Ctx {
	return &Ctx{P: p, Prop: prop, floors: map[string]int{}, seen: map[string]bool{}, funcs: map[string]bool{}}
}

func (c *Ctx) add(rule, key string, pos token.Pos, status, detail string) {
	k := rule + "/" + key
	// the same rule instance reached twice (a rule shared by two rule sets): record once
	sig := k + "|" + c.P.pos(pos) + "|" + status + "|" + detail
	if c.sigs == nil {
		c.sigs = map[string]bool{}
	}
	if c.sigs[sig] {
		return
	}
	c.sigs[sig] = true
	// keys must be unique; disambiguate duplicates deterministically
	if c.seen[k] {
		for i := 2; ; i++ {
			k2 := fmt.Sprintf("%s#%d", k, i)
			if !c.seen[k2] {
				k = k2
				break
			}
		}
	}
	c.seen[k] = true
	c.Obs = append(c.Obs, Obligation{Rule: rule, Key: k, Pos: c.P.pos(pos), Status: status, Detail: detail})
}

func (c *Ctx) ok(rule, key string, pos token.Pos, detail string) {
	c.add(rule, key, pos, "discharged", detail)
}
func (c *Ctx) fail(rule, key string, pos token.Pos, detail string) {
	c.add(rule, key, pos, "violated", detail)
}
func (c *Ctx) undecided(rule, key string, pos token.Pos, detail string) {
	c.add(rule, key, pos, "undecided", detail)
}

// check records a discharged or violated obligation.
func (c *Ctx) check(cond bool, rule, key string, pos token.Pos, okDetail, failDetail string) bool {
	if cond {
		c.ok(rule, key, pos, okDetail)
	} else {
		c.fail(rule, key, pos, failDetail)
	}
	return cond
}

// floor declares the minimum number of obligations a rule must produce.
func (c *Ctx) floor(rule string, n int) { c.floors[rule] = n }

func (c *Ctx) note(format string, a ...any) { c.notes = append(c.notes, fmt.Sprintf(format, a...)) }

func (c *Ctx) analysed(fn string) { c.funcs[fn] = true }

type knownFinding struct {
	Property string `json:"property"`
	Status   string `json:"status"` // finding | fixed
	Key      string `json:"key"`
	Commit   string `json:"commit,omitempty"`
	What     string `json:"what"`
}

func loadKnown(path string) ([]knownFinding, error) {
	b, err := os.ReadFile(path)
	if err != nil {
		if os.IsNotExist(err) {
			return nil, nil
		}
		return nil, err
	}
	var f struct {
		Findings []knownFinding `json:"findings"`
	}
	if err := json.Unmarshal(b, &f); err != nil {
		return nil, err
	}
	return f.Findings, nil
}

type propMeta struct {
	explanation string
	ruleText    string
	assumptions []string
}

var keySan = regexp.MustCompile(`[^A-Za-z0-9_.-]+`)

// finish evaluates floors, prints VIOLATION / KNOWN-FINDING lines, writes
// evidence and replay files; returns the process exit code.
func (c *Ctx) finish(verifDir, tier string, seed int, start time.Time, meta propMeta, extra map[string]any, writeEvidence bool) int {
	// floors
	count := map[string]int{}
	for _, o := range c.Obs {
		count[o.Rule]++
	}
	var rules []string
	for r := range c.floors {
		rules = append(rules, r)
	}
	sort.Strings(rules)
	for _, r := range rules {
		if count[r] < c.floors[r] {
			c.fail(r, "instance-floor", token.NoPos, fmt.Sprintf("rule produced %d obligations, floor is %d: the constructs it is anchored in were not found (vacuous pass refused)", count[r], c.floors[r]))
		}
	}
	known, err := loadKnown(filepath.Join(verifDir, "known_findings.json"))
	if err != nil {
		fmt.Printf("ERROR: known_findings.json: %v\n", err)
		return 2
	}
	kf := map[string]knownFinding{}
	for _, k := range known {
		if k.Property == c.Prop && k.Status == "finding" {
			kf[k.Key] = k
		}
	}
	violations := 0
	knownHit := 0
	discharged := 0
	distinct := map[string]bool{}
	_ = os.MkdirAll(filepath.Join(verifDir, "replay"), 0o755)
	for _, o := range c.Obs {
		distinct[o.Key] = true
		if o.Status == "discharged" {
			discharged++
			continue
		}
		if k, ok := kf[o.Key]; ok && o.Status == "violated" {
			fmt.Printf("KNOWN-FINDING: property=%s %s [%s at %s]\n", c.Prop, k.What, o.Key, o.Pos)
			knownHit++
			continue
		}
		violations++
		rp := filepath.Join(verifDir, "replay", c.Prop+"-"+keySan.ReplaceAllString(o.Key, "_")+".json")
		b, _ := json.MarshalIndent(map[string]any{
			"property": c.Prop, "obligation": o,
			"how_to_read": "rule = DESIGN.md section 4 rule id; key = rule/function/construct; pos = file:line in /repo; detail = what was expected and what was found",
		}, "", " ")
		_ = os.WriteFile(rp, b, 0o644)
		fmt.Printf("%s %s %s: %s\n", strings.ToUpper(o.Status), o.Key, o.Pos, o.Detail)
		fmt.Printf("VIOLATION property=%s replay=%s\n", c.Prop, rp)
	}
	// samples: a dozen obligations written out, preferring variety of rules
	var samples []Obligation
	perRule := map[string]int{}
	for _, o := range c.Obs {
		if perRule[o.Rule] < 2 && len(samples) < 16 {
			samples = append(samples, o)
			perRule[o.Rule]++
		}
	}
	for _, o := range c.Obs {
		if o.Status != "discharged" && len(samples) < 24 {
			samples = append(samples, o)
		}
	}
	var fnames []string
	for f := range c.funcs {
		fnames = append(fnames, f)
	}
	sort.Strings(fnames)
	ruleCounts := map[string]int{}
	for r, n := range count {
		ruleCounts[r] = n
	}
	cov := map[string]any{
		"explanation":         meta.explanation,
		"rule":                meta.ruleText,
		"obligations":         len(c.Obs),
		"discharged":          discharged,
		"evaluations":         len(c.Obs),
		"distinct_nontrivial": len(distinct),
		"samples":             samples,
		"packages_loaded":     c.P.AllPkgs,
		"module_packages":     len(c.P.Pkgs),
		"module_functions":    len(c.P.ModFuncs),
		"functions_analysed":  fnames,
		"obligations_by_rule": ruleCounts,
		"instance_floors":     c.floors,
		"known_findings_hit":  knownHit,
		"notes":               c.notes,
		"renamed_functions":   c.P.RenameNotes,
		"checker_cmd":         "./run.sh " + c.Prop + " " + tier,
		"trusted_base":        []string{"go list / go/types / go/ssa (x/tools v0.50.0, go1.26.8)", "CHA-seeded VTA call graph", "third-party libraries are opaque (gin, net/http, httputil, gorilla/websocket, yamux, golang-jwt, codec)"},
	}
	for k, v := range extra {
		cov[k] = v
	}
	ev := map[string]any{
		"property_id": c.Prop,
		"tier":        tier,
		"seed":        seed,
		"level":       "other",
		"coverage":    cov,
		"assumptions": meta.assumptions,
		"wall_s":      time.Since(start).Seconds(),
		"violations":  violations,
	}
	if writeEvidence {
		b, _ := json.MarshalIndent(ev, "", " ")
		_ = os.MkdirAll(filepath.Join(verifDir, "evidence"), 0o755)
		if err := os.WriteFile(filepath.Join(verifDir, "evidence", c.Prop+".json"), b, 0o644); err != nil {
			fmt.Printf("ERROR: write evidence: %v\n", err)
			return 2
		}
	}
	fmt.Printf("%s %s: %d obligations, %d discharged, %d violations, %d known findings (%.1fs)\n",
		c.Prop, tier, len(c.Obs), discharged, violations, knownHit, time.Since(start).Seconds())
	if violations > 0 {
		return 1
	}
	return 0
}
