package main

import (
	"bytes"
	"encoding/json"
	"fmt"
	"go/ast"
	"go/parser"
	"go/printer"
	"go/token"
	"os"
	"os/exec"
	"path/filepath"
	"sort"
	"strings"
	"sync"
)

// Generic mutation sweep (a development and thorough-evidence tool, never a
// verdict): syntactic mutants of the anchored files are analysed in memory by
// ALL property checks at once; survivors point at code no rule is sensitive to.

type sweepMutant struct {
	File string `json:"file"`
	Line int    `json:"line"`
	Func string `json:"func"`
	Op   string `json:"op"`
	Desc string `json:"desc"`
	from int
	to   int
	repl string
}

type sweepResult struct {
	sweepMutant
	Outcome string   `json:"outcome"` // killed | survived | invalid
	By      []string `json:"killed_by,omitempty"`
}

func exprString(fset *token.FileSet, n ast.Node) string {
	var b bytes.Buffer
	_ = printer.Fprint(&b, fset, n)
	return b.String()
}

func isNoise(fset *token.FileSet, n ast.Node) bool {
	s := exprString(fset, n)
	for _, w := range []string{"logger.", "metrics.", "Metrics.", "zap.", "log.", "metricsAdd", "metricsDelete", "metricsUpsert", "addMetricsNode", "removeMetricsNode", "updateMetricsNode"} {
		if strings.Contains(s, w) {
			return true
		}
	}
	return false
}

func genMutants(repo, rel string) ([]sweepMutant, []byte, error) {
	abs := filepath.Join(repo, rel)
	src, err := os.ReadFile(abs)
	if err != nil {
		return nil, nil, err
	}
	fset := token.NewFileSet()
	f, err := parser.ParseFile(fset, abs, src, parser.ParseComments)
	if err != nil {
		return nil, nil, err
	}
	var out []sweepMutant
	off := func(p token.Pos) int { return fset.Position(p).Offset }
	curFn := ""
	add := func(n ast.Node, from, to token.Pos, op, repl, desc string) {
		out = append(out, sweepMutant{File: rel, Line: fset.Position(n.Pos()).Line, Func: curFn, Op: op, Desc: desc, from: off(from), to: off(to), repl: repl})
	}
	ror := map[token.Token]string{token.LSS: "<=", token.LEQ: "<", token.GTR: ">=", token.GEQ: ">", token.EQL: "!=", token.NEQ: "=="}
	for _, d := range f.Decls {
		fd, ok := d.(*ast.FuncDecl)
		if !ok || fd.Body == nil {
			continue
		}
		curFn = fd.Name.Name
		if fd.Recv != nil && len(fd.Recv.List) > 0 {
			curFn = exprString(fset, fd.Recv.List[0].Type) + "." + curFn
		}
		if fd.Name.Name == "String" || strings.HasPrefix(fd.Name.Name, "metrics") || fd.Name.Name == "init" {
			continue
		}
		ast.Inspect(fd.Body, func(n ast.Node) bool {
			switch x := n.(type) {
			case *ast.IfStmt:
				if isNoise(fset, x.Cond) {
					return true
				}
				c := exprString(fset, x.Cond)
				add(x, x.Cond.Pos(), x.Cond.End(), "NEG", "!("+c+")", "negate `"+c+"`")
			case *ast.BinaryExpr:
				if r, ok := ror[x.Op]; ok && !isNoise(fset, x) {
					l, rr := exprString(fset, x.X), exprString(fset, x.Y)
					add(x, x.Pos(), x.End(), "ROR", l+" "+r+" "+rr, "`"+exprString(fset, x)+"` -> `"+l+" "+r+" "+rr+"`")
				}
				if x.Op == token.LAND || x.Op == token.LOR {
					other := "||"
					if x.Op == token.LOR {
						other = "&&"
					}
					l, rr := exprString(fset, x.X), exprString(fset, x.Y)
					add(x, x.Pos(), x.End(), "LOR", l+" "+other+" "+rr, "`"+exprString(fset, x)+"` -> `"+other+"`")
				}
			case *ast.ExprStmt:
				if isNoise(fset, x) {
					return true
				}
				if _, isCall := x.X.(*ast.CallExpr); isCall {
					add(x, x.Pos(), x.End(), "DEL", "", "delete `"+firstLine(exprString(fset, x))+"`")
				}
			case *ast.DeferStmt:
				if !isNoise(fset, x) {
					add(x, x.Pos(), x.End(), "DEL", "", "delete `"+firstLine(exprString(fset, x))+"`")
				}
			case *ast.AssignStmt:
				if x.Tok == token.ASSIGN && !isNoise(fset, x) && len(x.Lhs) == 1 {
					if _, isIdent := x.Lhs[0].(*ast.Ident); !isIdent {
						add(x, x.Pos(), x.End(), "DEL", "", "delete `"+firstLine(exprString(fset, x))+"`")
					}
				}
			case *ast.IncDecStmt:
				add(x, x.Pos(), x.End(), "DEL", "", "delete `"+exprString(fset, x)+"`")
			case *ast.BranchStmt:
				if x.Label == nil && x.Tok == token.CONTINUE {
					add(x, x.Pos(), x.End(), "BRK", "break", "continue -> break")
				} else if x.Label == nil && x.Tok == token.BREAK {
					add(x, x.Pos(), x.End(), "BRK", "continue", "break -> continue")
				}
			case *ast.Ident:
				if x.Name == "true" {
					add(x, x.Pos(), x.End(), "LIT", "false", "true -> false")
				} else if x.Name == "false" {
					add(x, x.Pos(), x.End(), "LIT", "true", "false -> true")
				}
			case *ast.ReturnStmt:
				// early `return` inside an if: delete the return (fall through)
			}
			return true
		})
	}
	return out, src, nil
}

func firstLine(s string) string {
	if i := strings.Index(s, "\n"); i >= 0 {
		return s[:i] + " …"
	}
	return s
}

// runSweep: pikocheck -sweep files.txt -out result.json [-par N]
func runSweep(repo, verif, listFile, outFile string, par int, onlyOps string) {
	b, err := os.ReadFile(listFile)
	if err != nil {
		fmt.Println(err)
		os.Exit(2)
	}
	self, _ := os.Executable()
	tmp, _ := os.MkdirTemp("", "pikocheck-sweep-")
	defer os.RemoveAll(tmp)
	var all []sweepMutant
	srcs := map[string][]byte{}
	for _, rel := range strings.Fields(string(b)) {
		ms, src, err := genMutants(repo, rel)
		if err != nil {
			fmt.Println("skip", rel, err)
			continue
		}
		srcs[rel] = src
		for _, m := range ms {
			if onlyOps == "" || strings.Contains(onlyOps, m.Op) {
				all = append(all, m)
			}
		}
	}
	if only := os.Getenv("PIKOSWEEP_ONLY"); only != "" {
		// re-run only the mutants a previous sweep log reports as survivors
		lb, _ := os.ReadFile(only)
		want := map[string]bool{}
		for _, l := range strings.Split(string(lb), "\n") {
			if strings.HasPrefix(l, "SURVIVED ") {
				want[strings.TrimPrefix(l, "SURVIVED ")] = true
			}
		}
		var keep []sweepMutant
		for _, m := range all {
			if want[fmt.Sprintf("%s:%d %s %s: %s", m.File, m.Line, m.Func, m.Op, m.Desc)] {
				keep = append(keep, m)
			}
		}
		all = keep
	}
	fmt.Printf("sweep: %d mutants over %d files\n", len(all), len(srcs))
	results := make([]sweepResult, len(all))
	sem := make(chan struct{}, par)
	var wg sync.WaitGroup
	var mu sync.Mutex
	done := 0
	for i, m := range all {
		i, m := i, m
		wg.Add(1)
		go func() {
			defer wg.Done()
			sem <- struct{}{}
			defer func() { <-sem }()
			src := srcs[m.File]
			mutated := string(src[:m.from]) + m.repl + string(src[m.to:])
			ov, _ := json.Marshal(map[string]string{filepath.Join(repo, m.File): mutated})
			of := filepath.Join(tmp, fmt.Sprintf("m%d.json", i))
			_ = os.WriteFile(of, ov, 0o644)
			cmd := exec.Command(self, "-p", "all", "-tier", "probe", "-repo", repo, "-verif", verif, "-overlay", of)
			cmd.Env = os.Environ()
			out, _ := cmd.CombinedOutput()
			_ = os.Remove(of)
			res := sweepResult{sweepMutant: m, Outcome: "invalid"}
			for _, line := range strings.Split(string(out), "\n") {
				if strings.HasPrefix(line, "PROBEALL ") {
					var pr struct {
						LoadFailed bool                `json:"load_failed"`
						By         map[string][]string `json:"by"`
					}
					if json.Unmarshal([]byte(line[9:]), &pr) == nil && !pr.LoadFailed {
						if len(pr.By) == 0 {
							res.Outcome = "survived"
						} else {
							res.Outcome = "killed"
							for k := range pr.By {
								res.By = append(res.By, k)
							}
							sort.Strings(res.By)
						}
					}
				}
			}
			results[i] = res
			mu.Lock()
			done++
			if res.Outcome == "survived" {
				fmt.Printf("SURVIVED %s:%d %s %s: %s\n", res.File, res.Line, res.Func, res.Op, res.Desc)
			}
			if done%20 == 0 {
				fmt.Printf("sweep: %d/%d\n", done, len(all))
			}
			mu.Unlock()
		}()
	}
	wg.Wait()
	k, s, inv := 0, 0, 0
	for _, r := range results {
		switch r.Outcome {
		case "killed":
			k++
		case "survived":
			s++
		default:
			inv++
		}
	}
	fmt.Printf("sweep: killed %d, survived %d, invalid (does not compile) %d\n", k, s, inv)
	ob, _ := json.MarshalIndent(map[string]any{"killed": k, "survived": s, "invalid": inv, "results": results}, "", " ")
	_ = os.WriteFile(outFile, ob, 0o644)
}
