package main

import (
	_ "embed"
	"encoding/json"
	"fmt"
	"go/token"
	"go/types"
	"os"
	"sort"
	"strings"

	"golang.org/x/tools/go/ssa"
)

// Rename tolerance. Rules anchor in functions by name; renaming an unexported
// function is behaviour-preserving and must not turn into an alarm. The table
// anchors.json (generated from the tree the rules were confirmed on, with
// `pikocheck -dump-anchors`) records for every unexported module function its
// package, receiver, signature and a feature set (callees, invoked methods,
// fields touched). When a recorded name is missing from the program under
// analysis, the unrecorded function of the same package, receiver and signature
// whose features overlap best is taken to be the renamed function; from then on
// it is reported, matched and keyed under its recorded name.

//go:embed anchors.json
var anchorsJSON []byte

type anchorFP struct {
	Pkg      string   `json:"pkg"`
	Recv     string   `json:"recv"`
	Sig      string   `json:"sig"`
	Features []string `json:"features"`
}

// renamed: function of the analysed program -> recorded (old) full name.
var renamed = map[*ssa.Function]string{}

func fullNameOf(f *ssa.Function) string {
	if f.Object() != nil {
		if tf, ok := f.Object().(*types.Func); ok {
			return tf.FullName()
		}
	}
	return f.String()
}

func sigString(f *ssa.Function) (recv, sig string) {
	q := func(p *types.Package) string { return p.Path() }
	if r := f.Signature.Recv(); r != nil {
		recv = types.TypeString(r.Type(), q)
	}
	sig = types.TypeString(types.NewSignatureType(nil, nil, nil, f.Signature.Params(), f.Signature.Results(), f.Signature.Variadic()), q)
	return
}

func featuresOf(f *ssa.Function) []string {
	set := map[string]bool{}
	for _, g := range withAnon(f) {
		for _, b := range g.Blocks {
			for _, in := range b.Instrs {
				switch x := in.(type) {
				case *ssa.FieldAddr:
					if fv, _ := fieldVarOf(x); fv != nil {
						set["field "+fv.Name()] = true
					}
				case *ssa.Field:
					if fv, _ := fieldVarOf(x); fv != nil {
						set["field "+fv.Name()] = true
					}
				}
				if cc := callCommon(in); cc != nil {
					if cc.IsInvoke() {
						set["invoke "+cc.Method.Name()] = true
					} else if sc := cc.StaticCallee(); sc != nil && sc.Object() != nil {
						set["call "+fullNameOf(sc)] = true
					} else if b, ok := cc.Value.(*ssa.Builtin); ok {
						set["builtin "+b.Name()] = true
					}
				}
			}
		}
	}
	var out []string
	for k := range set {
		out = append(out, k)
	}
	sort.Strings(out)
	return out
}

func unexportedTop(p *Prog, f *ssa.Function) bool {
	if f.Parent() != nil || f.Synthetic != "" || f.Object() == nil || f.Blocks == nil {
		return false
	}
	if isTestFile(p.Fset, f.Pos()) {
		return false
	}
	if o := f.Origin(); o != nil && o != f {
		return false
	}
	return !f.Object().Exported()
}

// dumpAnchors writes the fingerprint table for the tree in p.
func dumpAnchors(p *Prog, out string) error {
	tab := map[string]anchorFP{}
	for _, f := range p.ModFuncs {
		if !unexportedTop(p, f) {
			continue
		}
		r, s := sigString(f)
		tab[fullNameOf(f)] = anchorFP{Pkg: f.Object().Pkg().Path(), Recv: r, Sig: s, Features: featuresOf(f)}
	}
	b, err := json.MarshalIndent(tab, "", " ")
	if err != nil {
		return err
	}
	return os.WriteFile(out, b, 0o644)
}

// resolveRenames fills `renamed` for the program p.
func resolveRenames(p *Prog) []string {
	renamed = map[*ssa.Function]string{}
	var tab map[string]anchorFP
	if err := json.Unmarshal(anchorsJSON, &tab); err != nil || len(tab) == 0 {
		return nil
	}
	present := map[string]*ssa.Function{}
	for _, f := range p.ModFuncs {
		if unexportedTop(p, f) {
			present[fullNameOf(f)] = f
		}
	}
	var missing []string
	for name := range tab {
		if present[name] == nil {
			missing = append(missing, name)
		}
	}
	sort.Strings(missing)
	var extra []*ssa.Function
	for name, f := range present {
		if _, ok := tab[name]; !ok {
			extra = append(extra, f)
		}
	}
	sort.Slice(extra, func(i, j int) bool { return fullNameOf(extra[i]) < fullNameOf(extra[j]) })
	var notes []string
	taken := map[*ssa.Function]bool{}
	for _, name := range missing {
		fp := tab[name]
		want := map[string]bool{}
		for _, ft := range fp.Features {
			want[ft] = true
		}
		var best *ssa.Function
		bestScore, second := -1.0, -1.0
		for _, f := range extra {
			if taken[f] || f.Object().Pkg().Path() != fp.Pkg {
				continue
			}
			r, s := sigString(f)
			if r != fp.Recv || s != fp.Sig {
				continue
			}
			have := featuresOf(f)
			inter, union := 0, len(want)
			for _, ft := range have {
				if want[ft] {
					inter++
				} else {
					union++
				}
			}
			score := 1.0
			if union > 0 {
				score = float64(inter) / float64(union)
			}
			if score > bestScore {
				best, second, bestScore = f, bestScore, score
			} else if score > second {
				second = score
			}
		}
		if best != nil && bestScore >= 0.5 && bestScore > second {
			renamed[best] = name
			taken[best] = true
			notes = append(notes, fmt.Sprintf("%s is analysed as the renamed %s (same package, receiver and signature; feature overlap %.2f)", fullNameOf(best), name, bestScore))
		}
	}
	return notes
}

// canonicalFull: the recorded full name of (rel, "T.m" | "f").
func canonicalFull(rel, name string) []string {
	pk := modPath
	if rel != "" {
		pk = modPath + "/" + rel
	}
	if i := strings.Index(name, "."); i >= 0 {
		tn, mn := name[:i], name[i+1:]
		return []string{"(*" + pk + "." + tn + ")." + mn, "(" + pk + "." + tn + ")." + mn}
	}
	return []string{pk + "." + name}
}

func renamedLookup(rel, name string) *ssa.Function {
	for _, want := range canonicalFull(rel, name) {
		for f, old := range renamed {
			if old == want {
				return f
			}
		}
	}
	return nil
}

// baseName: the (recorded) unqualified name of a module function.
func baseName(f *ssa.Function) string {
	if old, ok := renamed[f]; ok {
		if i := strings.LastIndex(old, "."); i >= 0 {
			return old[i+1:]
		}
	}
	return f.Name()
}

var _ = token.NoPos
