package main

import (
	"fmt"
	"go/token"
	"go/types"
	"strings"

	"golang.org/x/tools/go/ssa"
)

// Effect summaries (ES): enumerate the paths of a small mutator into path
// classes (Δ of tracked counters, constant return values, path facts).

type effSpec struct {
	regField *types.Var      // slice field whose length is the "registered" count
	advCalls map[string]int  // callee full name -> Δ advertised
	inline   map[string]bool // callee full names summarised recursively
	maxPaths int
}

type effClass struct {
	dReg, dAdv int
	rets       []*bool // constant boolean results where known
	unknown    string  // non-empty: an unrecognised write, the class is undecidable
	miss       bool    // came through a scan that found nothing (no shrink on the path)
	facts      []Fact
	trace      []string
}

func (c effClass) String() string {
	r := []string{}
	for _, b := range c.rets {
		if b == nil {
			r = append(r, "?")
		} else {
			r = append(r, fmt.Sprint(*b))
		}
	}
	return fmt.Sprintf("Δregistered=%d Δadvertised=%d returns=(%s) via %s", c.dReg, c.dAdv, strings.Join(r, ","), strings.Join(c.trace, " → "))
}

type effEngine struct {
	p     *Prog
	spec  effSpec
	cache map[*ssa.Function][]effClass
	err   map[*ssa.Function]string
}

func newEffEngine(p *Prog, spec effSpec) *effEngine {
	if spec.maxPaths == 0 {
		spec.maxPaths = 256
	}
	return &effEngine{p: p, spec: spec, cache: map[*ssa.Function][]effClass{}, err: map[*ssa.Function]string{}}
}

type effState struct {
	dReg, dAdv int
	unknown    string
	known      map[ssa.Value][]*bool
	facts      []Fact
	trace      []string
	edges      map[[2]int]int
	shrunk     bool
}

func (s effState) clone() effState {
	n := s
	n.known = map[ssa.Value][]*bool{}
	for k, v := range s.known {
		n.known[k] = v
	}
	n.facts = append([]Fact(nil), s.facts...)
	n.trace = append([]string(nil), s.trace...)
	n.edges = map[[2]int]int{}
	for k, v := range s.edges {
		n.edges[k] = v
	}
	return n
}

// classes enumerates the path classes of fn.
func (e *effEngine) classes(fn *ssa.Function, depth int) ([]effClass, string) {
	if cs, ok := e.cache[fn]; ok {
		return cs, e.err[fn]
	}
	if depth > 3 {
		return nil, "inlining depth exceeded"
	}
	if len(fn.Blocks) == 0 {
		return nil, "no body"
	}
	var out []effClass
	errStr := ""
	var walk func(b *ssa.BasicBlock, idx int, st effState)
	walk = func(b *ssa.BasicBlock, idx int, st effState) {
		if errStr != "" {
			return
		}
		if len(out) > e.spec.maxPaths {
			errStr = "too many paths"
			return
		}
		for i := idx; i < len(b.Instrs); i++ {
			in := b.Instrs[i]
			switch x := in.(type) {
			case *ssa.Store:
				if _, ok := addrOfField(x.Addr, e.spec.regField); ok {
					d, ok := e.classifyStore(x)
					if !ok {
						st.unknown = "unrecognised store to " + e.spec.regField.Name() + " at " + e.p.pos(x.Pos())
					} else {
						st.dReg += d
						if d < 0 {
							st.shrunk = true
						}
						st.trace = append(st.trace, fmt.Sprintf("%s%+d@%s", e.spec.regField.Name(), d, e.p.pos(x.Pos())))
					}
				}
			case *ssa.Defer, *ssa.Go:
				n := callName(in)
				if _, ok := e.spec.advCalls[n]; ok || e.spec.inline[n] {
					st.unknown = "deferred/go call of tracked function " + n
				}
			case *ssa.Call:
				n := callName(in)
				if d, ok := e.spec.advCalls[n]; ok {
					st.dAdv += d
					st.trace = append(st.trace, fmt.Sprintf("%s@%s", shortName(n), e.p.pos(x.Pos())))
				} else if e.spec.inline[n] {
					cal := x.Call.StaticCallee()
					ccs, cerr := e.classes(cal, depth+1)
					if cerr != "" {
						errStr = "callee " + n + ": " + cerr
						return
					}
					for _, cc := range ccs {
						if cc.miss && e.callerExcludesMiss(st.facts, x) {
							continue
						}
						ns := st.clone()
						ns.dReg += cc.dReg
						ns.dAdv += cc.dAdv
						if cc.unknown != "" {
							ns.unknown = cc.unknown
						}
						ns.known[x] = cc.rets
						lbl := shortName(n)
						if cc.miss {
							lbl += "[scan-miss]"
						} else if cc.dReg != 0 {
							lbl += fmt.Sprintf("[%+d]", cc.dReg)
						}
						ns.trace = append(ns.trace, lbl+"@"+e.p.pos(x.Pos()))
						walk(b, i+1, ns)
					}
					return
				}
			case *ssa.Return:
				cl := effClass{dReg: st.dReg, dAdv: st.dAdv, unknown: st.unknown, facts: st.facts, trace: append(st.trace, "return@"+e.p.pos(x.Pos()))}
				for _, r := range returnValues(x) {
					cl.rets = append(cl.rets, st.constOf(r))
				}
				cl.miss = e.touchesReg(fn) && !st.shrunk && st.dReg == 0 && e.hasShrink(fn)
				out = append(out, cl)
				return
			case *ssa.Panic:
				return // not a normal completion
			case *ssa.If:
				t, f := b.Succs[0], b.Succs[1]
				var only *bool
				if cb := st.constOf(x.Cond); cb != nil {
					only = cb
				}
				for k, s := range []*ssa.BasicBlock{t, f} {
					taken := k == 0
					if only != nil && *only != taken {
						continue
					}
					key := [2]int{b.Index, s.Index}
					if st.edges[key] >= 1 && s.Index <= b.Index {
						continue // each back edge at most once
					}
					ns := st.clone()
					ns.edges[key]++
					if t != f {
						ns.facts = append(ns.facts, mkFact(x.Cond, taken))
					}
					walk(s, 0, ns)
				}
				return
			case *ssa.Jump:
				s := b.Succs[0]
				key := [2]int{b.Index, s.Index}
				if st.edges[key] >= 2 {
					return
				}
				st.edges[key]++
				walk(s, 0, st)
				return
			}
		}
	}
	walk(fn.Blocks[0], 0, effState{known: map[ssa.Value][]*bool{}, edges: map[[2]int]int{}})
	out = dedupeClasses(out)
	e.cache[fn] = out
	e.err[fn] = errStr
	return out, errStr
}

func (s effState) constOf(v ssa.Value) *bool {
	neg := false
	for {
		if u, ok := v.(*ssa.UnOp); ok && u.Op == token.NOT {
			v = u.X
			neg = !neg
			continue
		}
		break
	}
	var r *bool
	if b, ok := constBool(v); ok {
		r = &b
	} else if ks, ok := s.known[v]; ok && len(ks) == 1 {
		r = ks[0]
	} else if ex, ok := v.(*ssa.Extract); ok {
		if ks, ok := s.known[ex.Tuple]; ok && ex.Index < len(ks) {
			r = ks[ex.Index]
		}
	}
	if r == nil {
		return nil
	}
	val := *r != neg
	return &val
}

func shortName(n string) string {
	n = strings.ReplaceAll(n, modPath+"/", "")
	return n
}

func (e *effEngine) touchesReg(fn *ssa.Function) bool {
	t := false
	allInstrs(fn, func(i ssa.Instruction) {
		if fa, ok := i.(*ssa.FieldAddr); ok {
			if fv, _ := fieldVarOf(fa); fv == e.spec.regField {
				t = true
			}
		}
	})
	return t
}

func (e *effEngine) hasShrink(fn *ssa.Function) bool {
	h := false
	allInstrs(fn, func(i ssa.Instruction) {
		if s, ok := i.(*ssa.Store); ok {
			if _, ok := addrOfField(s.Addr, e.spec.regField); ok {
				if d, ok := e.classifyStore(s); ok && d < 0 {
					h = true
				}
			}
		}
	})
	return h
}

// classifyStore recognises S = append(S, x1..xn) (+n) and
// S = append(S[:i], S[i+1:]...) (−1) on the tracked field.
func (e *effEngine) classifyStore(st *ssa.Store) (int, bool) {
	base, _ := addrOfField(st.Addr, e.spec.regField)
	call, ok := st.Val.(*ssa.Call)
	if !ok {
		return 0, false
	}
	b, ok := call.Call.Value.(*ssa.Builtin)
	if !ok || b.Name() != "append" || len(call.Call.Args) != 2 {
		return 0, false
	}
	a0, a1 := call.Call.Args[0], call.Call.Args[1]
	isRegLoad := func(v ssa.Value) bool {
		bb, ok := loadedField(v, e.spec.regField)
		return ok && sameValue(bb, base)
	}
	if isRegLoad(a0) {
		// append(S, varargs...) : varargs = slice of a fresh [n]T array
		if sl, ok := a1.(*ssa.Slice); ok && sl.Low == nil && sl.High == nil {
			if al, ok := sl.X.(*ssa.Alloc); ok {
				if arr, ok := al.Type().Underlying().(*types.Pointer).Elem().Underlying().(*types.Array); ok {
					return int(arr.Len()), true
				}
			}
		}
		return 0, false
	}
	s0, ok0 := a0.(*ssa.Slice)
	s1, ok1 := a1.(*ssa.Slice)
	if ok0 && ok1 && isRegLoad(s0.X) && isRegLoad(s1.X) && s0.Low == nil && s0.High != nil && s1.High == nil && s1.Low != nil {
		if bo, ok := s1.Low.(*ssa.BinOp); ok && bo.Op == token.ADD {
			if one, ok := constInt(bo.Y); ok && one == 1 && sameValue(bo.X, s0.High) {
				return -1, true
			}
		}
	}
	return 0, false
}

// callerExcludesMiss: the caller's path facts contain slices.Contains(S, u)
// == true for the very balancer and element handed to the scanning callee.
func (e *effEngine) callerExcludesMiss(facts []Fact, call *ssa.Call) bool {
	if len(call.Call.Args) < 2 {
		return false
	}
	recv, elem := call.Call.Args[0], call.Call.Args[1]
	for _, f := range facts {
		if !f.T {
			continue
		}
		c, ok := f.V.(*ssa.Call)
		if !ok || commonName(&c.Call) != "slices.Contains" || len(c.Call.Args) != 2 {
			continue
		}
		base, ok := loadedField(c.Call.Args[0], e.spec.regField)
		if !ok || !sameValue(base, recv) || !sameValue(c.Call.Args[1], elem) {
			continue
		}
		// no write to the tracked field between the membership test and the call
		if canReachAvoiding(c, call, func(i ssa.Instruction) bool {
			if s, ok := i.(*ssa.Store); ok {
				_, w := addrOfField(s.Addr, e.spec.regField)
				return w
			}
			n := callName(i)
			if e.spec.inline[n] && i != ssa.Instruction(call) {
				return true
			}
			// the membership fact is only as good as the critical section it was established in
			if op, ok := lockOpOf(i); ok && !op.acquire {
				if _, isDefer := i.(*ssa.Defer); !isDefer {
					return true
				}
			}
			return false
		}) {
			return true
		}
	}
	return false
}

// canReachAvoiding: every path from a to b avoids `bad` (conservatively: no
// bad instruction is reachable from a before b).
func canReachAvoiding(a, b ssa.Instruction, bad func(ssa.Instruction) bool) bool {
	clean := true
	seen := map[*ssa.BasicBlock]bool{}
	var scan func(bl *ssa.BasicBlock, start int)
	scan = func(bl *ssa.BasicBlock, start int) {
		for i := start; i < len(bl.Instrs); i++ {
			in := bl.Instrs[i]
			if in == b {
				return
			}
			if bad(in) {
				clean = false
				return
			}
		}
		for _, s := range bl.Succs {
			if !seen[s] {
				seen[s] = true
				scan(s, 0)
			}
		}
	}
	scan(a.Block(), indexOf(a)+1)
	return clean
}

// dedupeClasses merges classes that differ only in the route taken.
func dedupeClasses(in []effClass) []effClass {
	seen := map[string]bool{}
	var out []effClass
	for _, c := range in {
		k := fmt.Sprintf("%d|%d|%v|%s|", c.dReg, c.dAdv, c.miss, c.unknown)
		for _, r := range c.rets {
			if r == nil {
				k += "?"
			} else {
				k += fmt.Sprint(*r)
			}
		}
		k += "|" + posRe.ReplaceAllString(strings.Join(c.trace, ">"), "")
		if !seen[k] {
			seen[k] = true
			out = append(out, c)
		}
	}
	return out
}
