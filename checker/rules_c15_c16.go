package main

import (
	"fmt"
	"go/token"
	"go/types"
	"strings"

	"golang.org/x/tools/go/ssa"
)

func init() {
	register(&propDef{
		id: "C15",
		meta: propMeta{
			explanation: "Decides the cursor invariant and the selection provenance behind 'valid and round-robin fair': (R1) every store to loadBalancer.nextIndex is nextIndex % len(upstreams) under len != 0, a +1 that is renormalised in the same block before any read, or a reset to 0 under nextIndex >= len; every shrinking store to upstreams is followed on every path by that renormalisation or by a return under len == 0; upstreams[nextIndex] is read only under len != 0 - so 0 <= nextIndex < len whenever non-empty, and with a single +1 writer each of n members is returned once per n selections; (R2) Select returns lb.Next() of the balancer found under the parameter key, and a remote node only under allowRemote and a successful LookupEndpoint of the same key; both call sites pass !forwarded (C06.R1, run here); (R3) Remove reports 'now empty' exactly under len == 0, the manager deletes the balancer exactly on that report, Add never leaves a balancer empty - so Select never returns (nil, true); (R4) registry updates happen under the manager mutex and only through the manager (C05.R4/R5). Not decided: fairness across concurrent schedules beyond mutual exclusion. Second round: the C20 rule set (lock pairing on every path of Select) runs with this check.",
			ruleText:    "obligation = one store / read / return / path class; distinct = distinct keys",
			assumptions: []string{"loadBalancer objects are only reachable through LoadBalancedManager.localUpstreams under its mutex (C05.R5, C20)"},
		},
		run: runC15,
		mutants: []mutant{
			{Name: "renormalisation removed from Remove", File: "server/upstream/manager.go", Old: "\t\tlb.nextIndex %= len(lb.upstreams)\n\t\treturn false\n", New: "\t\treturn false\n", Rule: "C15.R1"},
			{Name: "Next without modulo", File: "server/upstream/manager.go", Old: "\tlb.nextIndex++\n\tlb.nextIndex %= len(lb.upstreams)\n\treturn u\n", New: "\tlb.nextIndex++\n\treturn u\n", Rule: "C15.R1"},
			{Name: "empty balancer left in the table", File: "server/upstream/manager.go", Old: "\tif lb.Remove(u) {\n\t\tdelete(m.localUpstreams, u.EndpointID())\n", New: "\tif lb.Remove(u) && false {\n\t\tdelete(m.localUpstreams, u.EndpointID())\n", Rule: "C15.R3"},
			{Name: "off-by-one clamp instead of modulo", File: "server/upstream/manager.go", Old: "\t\tlb.nextIndex %= len(lb.upstreams)\n\t\treturn false\n", New: "\t\tif lb.nextIndex > len(lb.upstreams) {\n\t\t\tlb.nextIndex = 0\n\t\t}\n\t\treturn false\n", Rule: "C15.R1"},
			{Name: "Select falls back to another endpoint's balancer", File: "server/upstream/manager.go", Old: "\tlb, ok := m.localUpstreams[endpointID]\n\tif ok {", New: "\tlb, ok := m.localUpstreams[endpointID]\n\tif !ok {\n\t\tlb, ok = m.localUpstreams[\"default\"]\n\t}\n\tif ok {", Rule: "C15.R2"},
			{Name: "remote selected without allowRemote", File: "server/upstream/manager.go", Old: "\tif !allowRemote {\n\t\treturn nil, false\n\t}\n", New: "", Rule: "C15.R2"},
			{Name: "Remove reports empty when one is left", File: "server/upstream/manager.go", Old: "\t\tif len(lb.upstreams) == 0 {\n\t\t\treturn true\n\t\t}", New: "\t\tif len(lb.upstreams) <= 1 {\n\t\t\treturn true\n\t\t}", Rule: "C15.R3"},
			{Name: "benign: correct clamp instead of modulo", Benign: true, File: "server/upstream/manager.go", Old: "\t\tlb.nextIndex %= len(lb.upstreams)\n\t\treturn false\n", New: "\t\tif lb.nextIndex >= len(lb.upstreams) {\n\t\t\tlb.nextIndex = 0\n\t\t}\n\t\treturn false\n"},
			{Name: "benign: scan with i < len", Benign: true, File: "server/upstream/manager.go", Old: "\tfor i := 0; i != len(lb.upstreams); i++ {", New: "\tfor i := 0; i < len(lb.upstreams); i++ {"},
		},
	})
	register(&propDef{
		id: "C16",
		meta: propMeta{
			explanation: "Decides the structural clauses of 'registered exactly while connected; expiry ends connections', over every function that calls Manager.AddConn (role): (R1) each acquisition is immediately paired with its deferred release on the same operand with no return in between (AddConn/RemoveConn, addSession/removeSession, yamux.Server/sess.Close, websocket New/conn.Close); (R2) the accept loop repeats only when AcceptStreamWithContext returned no error - every error ends the handler, running the defers; (R3) the context given to the accept call is the server's cancellable context, replaced by WithDeadline(that context, token.Expiry) exactly on the paths where a token is present and its Expiry is non-zero, with its cancel deferred; Shutdown cancels the shared context on every path; ctx/cancel come from one WithCancel; (R4) the verifier sets Token.Expiry from the token's exp claim exactly when present and disconnect-on-expiry is not disabled, and the multi-tenant wrapper hands on the tenant verifier's token itself; (R5) session bookkeeping adds/removes exactly the given session, shedding only closes sessions; (R6) the registration arithmetic of C05 (its whole rule set runs with this check). Not decided: timing of the close relative to the expiry instant (yamux/context behaviour). Second round: session bookkeeping primitives perform their effect on every path; (R8) error-arm rule over server/upstream and server/proxy.",
			ruleText:    "obligation = one acquire/defer pair / loop edge / phi operand / store; distinct = distinct keys",
			assumptions: []string{"context.WithDeadline cancels at the deadline and yamux AcceptStreamWithContext returns when its context is done (trusted libraries)", "deferred calls run on every exit including panics (Go semantics)"},
		},
		run: runC16,
		mutants: []mutant{
			{Name: "defer RemoveConn removed", File: "server/upstream/server.go", Old: "\ts.upstreams.AddConn(upstream)\n\tdefer s.upstreams.RemoveConn(upstream)\n", New: "\ts.upstreams.AddConn(upstream)\n", Rule: "C16.R1"},
			{Name: "accept loop continues on some errors", File: "server/upstream/server.go", Old: "\t\t\tif errors.Is(err, yamux.ErrSessionShutdown) {\n\t\t\t\treturn\n\t\t\t}\n", New: "\t\t\tif errors.Is(err, yamux.ErrSessionShutdown) {\n\t\t\t\tcontinue\n\t\t\t}\n", Rule: "C16.R2"},
			{Name: "handler context from context.Background()", File: "server/upstream/server.go", Old: "\tctx := s.ctx\n\tif ok {", New: "\tctx := context.Background()\n\tif ok {", Rule: "C16.R3"},
			{Name: "deadline a year after the token expiry", File: "server/upstream/server.go", Old: "ctx, cancel = context.WithDeadline(ctx, endpointToken.Expiry)", New: "ctx, cancel = context.WithDeadline(ctx, endpointToken.Expiry.AddDate(1, 0, 0))", Rule: "C16.R3"},
			{Name: "Shutdown without cancel", File: "server/upstream/server.go", Old: "\terr := s.httpServer.Shutdown(ctx)\n\t// Close the context to close upstream connections.\n\ts.cancel()\n\treturn err\n", New: "\terr := s.httpServer.Shutdown(ctx)\n\tif err != nil {\n\t\treturn err\n\t}\n\ts.cancel()\n\treturn nil\n", Rule: "C16.R3"},
			{Name: "Expiry never set when an audience is configured", File: "pkg/auth/jwtverifier.go", Old: "\tif claims.ExpiresAt != nil && !v.disableDisconnectOnExpiry {", New: "\tif claims.ExpiresAt != nil && !v.disableDisconnectOnExpiry && v.audience == \"\" {", Rule: "C16.R4"},
			{Name: "tenant wrapper returns a copy without the expiry", File: "pkg/auth/multi_tenant_verifier.go", Old: "\tt.TenantID = tenantID\n\treturn t, nil\n", New: "\treturn &Token{Endpoints: t.Endpoints, TenantID: tenantID}, nil\n", Rule: "C16.R4"},
			{Name: "session removed from the set only when shedding", File: "server/upstream/server.go", Old: "\ts.addSession(sess)\n\tdefer s.removeSession(sess)\n", New: "\ts.addSession(sess)\n", Rule: "C16.R1"},
			{Name: "membership guard dropped (D1 again)", File: "server/upstream/manager.go", Old: "\tif !slices.Contains(lb.upstreams, u) {\n", New: "\tif !slices.Contains(lb.upstreams, u) && len(lb.upstreams) == 0 {\n", Rule: "C05.R1"},
			{Name: "proxy removes the upstream on any dial error", File: "server/proxy/httpproxy.go", Old: "\tif err != nil && errors.Is(err, upstream.ErrGone) {", New: "\tif err != nil {", Rule: "C16.R7"},
			{Name: "benign: error classification as a switch", Benign: true, File: "server/upstream/server.go", Old: "\t\t\tif errors.Is(err, net.ErrClosed) {\n\t\t\t\treturn\n\t\t\t}\n\t\t\tif errors.Is(err, context.Canceled) {\n\t\t\t\t// Server shutdown.\n\t\t\t\treturn\n\t\t\t}\n", New: "\t\t\tswitch {\n\t\t\tcase errors.Is(err, net.ErrClosed):\n\t\t\t\treturn\n\t\t\tcase errors.Is(err, context.Canceled):\n\t\t\t\t// Server shutdown.\n\t\t\t\treturn\n\t\t\t}\n"},
		},
	})
}

func lenOfField(v ssa.Value, f *types.Var) bool {
	cl, ok := v.(*ssa.Call)
	if !ok {
		return false
	}
	b, ok := cl.Call.Value.(*ssa.Builtin)
	if !ok || b.Name() != "len" {
		return false
	}
	_, ok = loadedField(cl.Call.Args[0], f)
	return ok
}

func runC15(c *Ctx) {
	labelRule(c, "C15.R4", []string{"server/upstream", "server/proxy", "server/cluster", "pkg/middleware"}, 2, false)
	p := c.P
	upstreams := p.Field(upPkg, "loadBalancer", "upstreams")
	nextIdx := p.Field(upPkg, "loadBalancer", "nextIndex")
	localUp := p.Field(upPkg, "LoadBalancedManager", "localUpstreams")
	muF := p.Field(upPkg, "LoadBalancedManager", "mu")
	mgr := p.NamedType(upPkg, "LoadBalancedManager")
	if upstreams == nil || nextIdx == nil || localUp == nil || muF == nil {
		c.fail("C15.anchor", "loadBalancer fields", token.NoPos, "not found")
		return
	}
	isLen := func(v ssa.Value) bool { return lenOfField(v, upstreams) }
	isIdx := func(v ssa.Value) bool { _, ok := loadedField(v, nextIdx); return ok }
	isZero := func(v ssa.Value) bool { k, ok := constInt(v); return ok && k == 0 }
	nonEmpty := func(facts []Fact) bool {
		return anyFact(facts, func(f Fact) bool { return cmpFact(f, token.NEQ, isLen, isZero) || cmpFact(f, token.GTR, isLen, isZero) })
	}
	empty := func(facts []Fact) bool {
		return anyFact(facts, func(f Fact) bool { return cmpFact(f, token.EQL, isLen, isZero) || cmpFact(f, token.LEQ, isLen, isZero) })
	}
	c.floor("C15.R1", 5)
	// classify nextIndex stores
	type idxStore struct {
		st   *ssa.Store
		kind string
	}
	stores := map[ssa.Instruction]string{}
	for _, s := range p.storesToField(nextIdx, false) {
		st := s.Instr.(*ssa.Store)
		fs := computeFacts(s.Fn)
		facts := fs.At(st.Block())
		key := fnName(s.Fn) + "/nextIndex-store"
		switch v := st.Val.(type) {
		case *ssa.BinOp:
			switch {
			case v.Op == token.REM && isIdx(v.X) && isLen(v.Y):
				stores[st] = "norm"
				c.check(nonEmpty(facts), "C15.R1", key+"[mod]", st.Pos(), "nextIndex %= len(upstreams) under len != 0", "modulo by len(upstreams) is not guarded by len != 0 (division by zero) ; facts "+factStrings(facts))
			case v.Op == token.ADD && isIdx(v.X):
				one, ok := constInt(v.Y)
				stores[st] = "incr"
				// followed in the same block by the renormalisation before any read/return
				okNorm := false
				past := false
				for _, in := range st.Block().Instrs {
					if in == ssa.Instruction(st) {
						past = true
						continue
					}
					if !past {
						continue
					}
					if s2, ok := in.(*ssa.Store); ok {
						if _, ok := addrOfField(s2.Addr, nextIdx); ok {
							if bo, ok := s2.Val.(*ssa.BinOp); ok && bo.Op == token.REM && isIdx(bo.X) && isLen(bo.Y) {
								okNorm = true
							}
							break
						}
					}
					if ia, ok := in.(*ssa.IndexAddr); ok {
						if _, ok := loadedField(ia.X, upstreams); ok {
							break
						}
					}
					if _, ok := in.(*ssa.Return); ok {
						break
					}
				}
				c.check(ok && one == 1 && okNorm, "C15.R1", key+"[incr]", st.Pos(), "advances by one and is renormalised at once", "the cursor advance is not +1 followed immediately by % len(upstreams): the cursor can point past the end, or skip members")
			default:
				c.fail("C15.R1", key, st.Pos(), "unrecognised arithmetic on the cursor")
			}
		default:
			if k, ok := constInt(st.Val); ok && k == 0 {
				stores[st] = "reset"
				// harmless anywhere: 0 is in range whenever non-empty
				c.ok("C15.R1", key+"[reset]", st.Pos(), "reset to 0 (always in range when non-empty)")
			} else {
				c.fail("C15.R1", key, st.Pos(), "the cursor is assigned a value that is neither a reset, an advance nor a renormalisation")
			}
		}
	}
	// shrinking stores are followed by renormalisation
	eng := newEffEngine(p, effSpec{regField: upstreams})
	nShrink := 0
	for _, s := range p.storesToField(upstreams, false) {
		st, ok := s.Instr.(*ssa.Store)
		if !ok {
			continue
		}
		d, known := eng.classifyStore(st)
		key := fnName(s.Fn) + "/upstreams-store"
		if !known {
			c.undecided("C15.R1", key, st.Pos(), "unrecognised store to upstreams: cannot tell whether the cursor stays in range")
			continue
		}
		if d >= 0 {
			continue
		}
		nShrink++
		paths, complete := enumPaths(st, func(i ssa.Instruction) bool { _, ok := stores[i]; return ok }, nil, nil, 200)
		bad := ""
		for _, pa := range paths {
			if pa.endWhy != "return" && pa.endWhy != "loop" {
				continue
			}
			okPath := empty(pa.facts)
			for _, in := range pa.seen {
				if stores[in] == "norm" {
					okPath = true
				}
				if stores[in] == "reset" && anyFact(pa.facts, func(f Fact) bool { return cmpFact(f, token.GEQ, isIdx, isLen) || cmpFact(f, token.GTR, isIdx, isLen) }) {
					okPath = true
				}
			}
			if anyFact(pa.facts, func(f Fact) bool { return cmpFact(f, token.LSS, isIdx, isLen) }) {
				okPath = true
			}
			if !okPath {
				bad = "after removing a member a path reaches " + p.pos(pa.end.Pos()) + " with the cursor possibly equal to the new length: the next selection indexes out of range (or starves members); facts " + factStrings(pa.facts)
			}
		}
		c.check(complete && bad == "", "C15.R1", key+"[shrink]", st.Pos(), "every path after the removal renormalises the cursor or returns with an empty balancer", bad)
	}
	if nShrink == 0 {
		c.fail("C15.R1", "shrinking-store", token.NoPos, "no removal from upstreams found")
	}
	// reads of upstreams[nextIndex]
	for _, fn := range methodsOf(p, upPkg, "loadBalancer") {
		c.analysed(fnName(fn))
		fs := computeFacts(fn)
		allInstrs(fn, func(i ssa.Instruction) {
			ia, ok := i.(*ssa.IndexAddr)
			if !ok || !isIdx(ia.Index) {
				return
			}
			if _, ok := loadedField(ia.X, upstreams); !ok {
				return
			}
			facts := fs.At(ia.Block())
			c.check(nonEmpty(facts), "C15.R1", fnName(fn)+"/read-at-cursor", ia.Pos(), "upstreams[nextIndex] is read only when non-empty", "upstreams[nextIndex] can be read on an empty balancer; facts "+factStrings(facts))
		})
	}
	c15R2(c, "C15.R2")
	c06R1(c, "C15.R2")
	// ---- R3 ----
	c.floor("C15.R3", 4)
	if rem := p.Func(upPkg, "loadBalancer.Remove"); rem != nil {
		fs := computeFacts(rem)
		for k, r := range returnsOf(rem) {
			rv := returnValues(r)[0]
			facts := fs.At(r.Block())
			key := fmt.Sprintf("%s/return[%d]", fnName(rem), k)
			if b, ok := constBool(rv); ok {
				good := (b && empty(facts)) || (!b && nonEmpty(facts))
				c.check(good, "C15.R3", key, r.Pos(), "reports empty exactly when len(upstreams) == 0", fmt.Sprintf("Remove returns %v although the balancer is not known to be %s: an empty balancer stays in the table (Select returns nil) or a non-empty one is dropped; facts %s", b, map[bool]string{true: "empty", false: "non-empty"}[b], factStrings(facts)))
			} else {
				bo, ok := rv.(*ssa.BinOp)
				c.check(ok && bo.Op == token.EQL && isLen(bo.X) && isZero(bo.Y), "C15.R3", key, r.Pos(), "returns len(upstreams) == 0", "Remove's result is not the emptiness of the balancer")
			}
		}
	}
	if next := p.Func(upPkg, "loadBalancer.Next"); next != nil {
		fs := computeFacts(next)
		for k, r := range returnsOf(next) {
			if isNilConst(returnValues(r)[0]) {
				c.check(empty(fs.At(r.Block())), "C15.R3", fmt.Sprintf("%s/nil-return[%d]", fnName(next), k), r.Pos(), "Next returns nil only for an empty balancer", "Next can return nil for a non-empty balancer")
			}
		}
	}
	// delete(localUpstreams) exactly on Remove()==true
	for _, m := range methodsOf(p, upPkg, "LoadBalancedManager") {
		fs := computeFacts(m)
		for _, call := range findCalls(m, fnLBRemove) {
			cl, ok := call.(*ssa.Call)
			if !ok {
				continue
			}
			paths, _ := enumPaths(cl, func(i ssa.Instruction) bool {
				d, ok := i.(*ssa.Call)
				if !ok {
					return false
				}
				b, ok := d.Call.Value.(*ssa.Builtin)
				if !ok || b.Name() != "delete" {
					return false
				}
				_, ok = loadedField(d.Call.Args[0], localUp)
				return ok
			}, nil, nil, 100)
			bad := ""
			for _, pa := range paths {
				isTrue := anyFact(pa.facts, func(f Fact) bool { return f.V == ssa.Value(cl) && f.T })
				isFalse := anyFact(pa.facts, func(f Fact) bool { return f.V == ssa.Value(cl) && !f.T })
				if isTrue && len(pa.seen) == 0 {
					bad = "Remove reported the balancer empty but a path does not delete it from the table: Select will return (nil, true)"
				}
				if !isTrue && len(pa.seen) > 0 {
					bad = "the balancer can be deleted from the table without Remove having reported it empty: registered upstreams become unselectable"
				}
				_ = isFalse
			}
			c.check(bad == "", "C15.R3", fnName(m)+"/delete-iff-empty", cl.Pos(), "the balancer is dropped from the table exactly when Remove reports it empty", bad)
			_ = fs
		}
	}
	// ---- R4 ----
	c05R4(c, upstreams, localUp, muF, mgr)
	c05R5(c, upstreams, localUp)
}

// ---------------------------------------------------------------- C16

func runC16(c *Ctx) {
	errDiscipline(c, "C16.R8", pkgFuncs(c.P, "server/upstream", "server/proxy"), 4)
	p := c.P
	c.floor("C16.R1", 4)
	var handlers []*ssa.Function
	for _, fn := range p.ModFuncs {
		if isTestFile(p.Fset, fn.Pos()) {
			continue
		}
		has := false
		allInstrs(fn, func(i ssa.Instruction) {
			cc := callCommon(i)
			if cc != nil && cc.IsInvoke() && cc.Method.Name() == "AddConn" && strings.Contains(cc.Method.FullName(), "server/upstream.Manager") {
				has = true
			}
		})
		if has {
			handlers = append(handlers, fn)
		}
	}
	if len(handlers) == 0 {
		c.fail("C16.R1", "role/calls Manager.AddConn", token.NoPos, "no function registers upstream connections")
		return
	}
	type pairSpec struct {
		name      string
		isAcquire func(ssa.Instruction) (ssa.Value, bool) // operand identifying the resource
		isRelease func(ssa.Instruction, ssa.Value) bool
	}
	specs := []pairSpec{
		{"AddConn/RemoveConn", func(i ssa.Instruction) (ssa.Value, bool) {
			cl, ok := i.(*ssa.Call)
			if ok && cl.Call.IsInvoke() && cl.Call.Method.Name() == "AddConn" {
				return cl.Call.Args[0], true
			}
			return nil, false
		}, func(i ssa.Instruction, op ssa.Value) bool {
			d, ok := i.(*ssa.Defer)
			return ok && d.Call.IsInvoke() && d.Call.Method.Name() == "RemoveConn" && sameValue(d.Call.Args[0], op)
		}},
		{"addSession/removeSession", func(i ssa.Instruction) (ssa.Value, bool) {
			cl, ok := i.(*ssa.Call)
			if ok && strings.HasSuffix(commonName(&cl.Call), "upstream.Server).addSession") {
				return cl.Call.Args[1], true
			}
			return nil, false
		}, func(i ssa.Instruction, op ssa.Value) bool {
			d, ok := i.(*ssa.Defer)
			return ok && strings.HasSuffix(commonName(&d.Call), "upstream.Server).removeSession") && d.Call.Args[1] == op
		}},
		{"yamux.Server/Close", func(i ssa.Instruction) (ssa.Value, bool) {
			ex, ok := i.(*ssa.Extract)
			if ok && ex.Index == 0 {
				if cl, ok := ex.Tuple.(*ssa.Call); ok && strings.HasSuffix(commonName(&cl.Call), "yamux.Server") {
					return ex, true
				}
			}
			return nil, false
		}, func(i ssa.Instruction, op ssa.Value) bool {
			d, ok := i.(*ssa.Defer)
			return ok && strings.HasSuffix(commonName(&d.Call), "yamux.Session).Close") && d.Call.Args[0] == op
		}},
		{"websocket.New/Close", func(i ssa.Instruction) (ssa.Value, bool) {
			cl, ok := i.(*ssa.Call)
			if ok && strings.HasSuffix(commonName(&cl.Call), "pkg/websocket.New") {
				return cl, true
			}
			return nil, false
		}, func(i ssa.Instruction, op ssa.Value) bool {
			d, ok := i.(*ssa.Defer)
			return ok && strings.HasSuffix(commonName(&d.Call), "pkg/websocket.Conn).Close") && d.Call.Args[0] == op
		}},
	}
	for _, fn := range handlers {
		c.analysed(fnName(fn))
		for _, sp := range specs {
			found := false
			allInstrs(fn, func(i ssa.Instruction) {
				op, ok := sp.isAcquire(i)
				if !ok {
					return
				}
				found = true
				end := everyPathFrom(i, func(in ssa.Instruction) bool { return sp.isRelease(in, op) }, func(in ssa.Instruction) bool {
					// another acquisition or a blocking call before the release is registered
					if _, isAcq := sp.isAcquire(in); isAcq && in != i {
						return true
					}
					return strings.Contains(callName(in), "AcceptStream")
				}, true)
				c.check(end == nil, "C16.R1", fnName(fn)+"/"+sp.name, i.Pos(), "the release is deferred right after the acquisition on every path",
					"after this acquisition a path reaches "+endPos(p, end)+" without the matching release being deferred: the registration/session leaks on that exit")
			})
			if !found {
				c.fail("C16.R1", fnName(fn)+"/"+sp.name, fn.Pos(), "acquisition not found in the upstream handler")
			}
		}
		c16Loop(c, fn)
		c16Ctx(c, fn)
	}
	c16Gone(c)
	c16Shutdown(c)
	c16Expiry(c)
	c16Sessions(c)
}

func endPos(p *Prog, e *pathEnd) string {
	if e == nil {
		return "-"
	}
	return p.pos(e.instr.Pos()) + " (" + e.why + ")"
}

func c16Loop(c *Ctx, fn *ssa.Function) {
	c.floor("C16.R2", 1)
	fs := computeFacts(fn)
	allInstrs(fn, func(i ssa.Instruction) {
		cl, ok := i.(*ssa.Call)
		if !ok || !strings.HasSuffix(commonName(&cl.Call), "yamux.Session).AcceptStreamWithContext") {
			return
		}
		hdr := loopHeader(cl.Block())
		if hdr == nil {
			c.fail("C16.R2", fnName(fn)+"/accept-loop", cl.Pos(), "the accept call is not in a loop")
			return
		}
		n := 0
		for _, pb := range hdr.Preds {
			if !hdr.Dominates(pb) {
				continue
			}
			n++
			facts := fs.OnEdge(pb, hdr)
			noErr := anyFact(facts, func(f Fact) bool {
				return cmpFact(f, token.EQL, func(v ssa.Value) bool {
					ex, ok := v.(*ssa.Extract)
					return ok && ex.Tuple == ssa.Value(cl) && ex.Index == 1
				}, isNilConst)
			})
			c.check(noErr, "C16.R2", fmt.Sprintf("%s/accept-loop-back-edge[%d]", fnName(fn), n), pb.Instrs[len(pb.Instrs)-1].Pos(), "the handler keeps waiting only when the accept returned no error", "the handler can keep looping after the accept failed: a dead or expired connection stays registered; facts "+factStrings(facts))
		}
	})
}

func c16Ctx(c *Ctx, fn *ssa.Function) {
	p := c.P
	c.floor("C16.R3", 4)
	ctxF := p.Field(upPkg, "Server", "ctx")
	expF := p.Field("pkg/auth", "Token", "Expiry")
	if ctxF == nil || expF == nil {
		c.fail("C16.anchor", "Server.ctx / Token.Expiry", token.NoPos, "not found")
		return
	}
	fs := computeFacts(fn)
	allInstrs(fn, func(i ssa.Instruction) {
		cl, ok := i.(*ssa.Call)
		if !ok || !strings.HasSuffix(commonName(&cl.Call), "yamux.Session).AcceptStreamWithContext") {
			return
		}
		ctx := cl.Call.Args[1]
		ph, isPhi := ctx.(*ssa.Phi)
		if !isPhi {
			c.fail("C16.R3", fnName(fn)+"/accept-context", cl.Pos(), "the accept context is not selected between the server context and a token deadline: "+path(ctx))
			return
		}
		isServerCtx := func(v ssa.Value) bool { _, ok := loadedField(v, ctxF); return ok }
		tokenPresent := func(facts []Fact, want bool) bool {
			return anyFact(facts, func(f Fact) bool {
				ex, ok := f.V.(*ssa.Extract)
				if !ok || ex.Index != 1 || f.T != want {
					return false
				}
				g, ok := ex.Tuple.(*ssa.Call)
				return ok && strings.HasSuffix(commonName(&g.Call), "gin.Context).Get")
			})
		}
		expiryZero := func(facts []Fact, want bool) bool {
			return anyFact(facts, func(f Fact) bool {
				z, ok := f.V.(*ssa.Call)
				if !ok || commonName(&z.Call) != "(time.Time).IsZero" || f.T != want {
					return false
				}
				_, ok = loadedField(z.Call.Args[0], expF)
				return ok
			})
		}
		for k, e := range ph.Edges {
			pb := ph.Block().Preds[k]
			facts := fs.OnEdge(pb, ph.Block())
			key := fmt.Sprintf("%s/accept-context-operand[%d]", fnName(fn), k)
			if isServerCtx(e) {
				c.check(tokenPresent(facts, false) || expiryZero(facts, true), "C16.R3", key, cl.Pos(), "plain server context only without a token or without an expiry",
					"the undated server context is used although a token with an expiry may be present: the connection outlives its token; facts "+factStrings(facts))
				continue
			}
			ex, ok := e.(*ssa.Extract)
			good := false
			why := "operand is neither the server context nor WithDeadline(server context, token.Expiry)"
			if ok && ex.Index == 0 {
				if wd, ok := ex.Tuple.(*ssa.Call); ok && commonName(&wd.Call) == "context.WithDeadline" {
					_, dlOK := loadedField(wd.Call.Args[1], expF)
					parentOK := isServerCtx(wd.Call.Args[0])
					// cancel deferred
					cancelDeferred := false
					for _, r := range *wd.Referrers() {
						if ce, ok := r.(*ssa.Extract); ok && ce.Index == 1 {
							if flowsToDefer(ce, 0) {
								cancelDeferred = true
							}
							for _, rr := range *ce.Referrers() {
								if d, ok := rr.(*ssa.Defer); ok && d.Call.Value == ssa.Value(ce) {
									cancelDeferred = true
								}
								if st, ok := rr.(*ssa.Store); ok {
									if al, ok := st.Addr.(*ssa.Alloc); ok {
										for _, r3 := range *al.Referrers() {
											if ld, ok := r3.(*ssa.UnOp); ok {
												for _, r4 := range *ld.Referrers() {
													if d, ok := r4.(*ssa.Defer); ok && d.Call.Value == ssa.Value(ld) {
														cancelDeferred = true
													}
												}
											}
										}
									}
								}
							}
						}
					}
					good = dlOK && parentOK && cancelDeferred && tokenPresent(facts, true) && expiryZero(facts, false)
					why = fmt.Sprintf("deadline is token.Expiry: %v, parent is the server context: %v, cancel deferred: %v; facts %s", dlOK, parentOK, cancelDeferred, factStrings(facts))
				}
			}
			c.check(good, "C16.R3", key, cl.Pos(), "WithDeadline(server context, token.Expiry) exactly when a token with an expiry is present", why)
		}
	})
}

func c16Shutdown(c *Ctx) {
	p := c.P
	cancelF := p.Field(upPkg, "Server", "cancel")
	ctxF := p.Field(upPkg, "Server", "ctx")
	fn := p.Func(upPkg, "Server.Shutdown")
	if fn == nil || cancelF == nil {
		c.fail("C16.anchor", "upstream.Server.Shutdown", token.NoPos, "not found")
		return
	}
	c.analysed(fnName(fn))
	steps := []func(ssa.Instruction) bool{func(i ssa.Instruction) bool {
		cl, ok := i.(*ssa.Call)
		if !ok {
			return false
		}
		_, ok = loadedField(cl.Call.Value, cancelF)
		return ok
	}}
	// on every path (error or not)
	paths, _ := enumPathsAt(fn.Blocks[0], 0, steps[0], nil, nil, 100)
	bad := ""
	for _, pa := range paths {
		if pa.endWhy == "return" && len(pa.seen) == 0 {
			bad = "Shutdown can return at " + p.pos(pa.end.Pos()) + " without cancelling the shared context: upstream connections stay open and registered"
		}
	}
	c.check(bad == "", "C16.R3", fnName(fn)+"/cancels", fn.Pos(), "the shared context is cancelled on every path", bad)
	// ctx and cancel stored once, from the same WithCancel
	cs, ks := p.storesToField(ctxF, false), p.storesToField(cancelF, false)
	same := false
	if len(cs) == 1 && len(ks) == 1 {
		a, _ := cs[0].Instr.(*ssa.Store)
		b, _ := ks[0].Instr.(*ssa.Store)
		if a != nil && b != nil {
			ea, ok1 := strip(a.Val).(*ssa.Extract)
			var eb *ssa.Extract
			bv := strip(b.Val)
			if cv, ok := bv.(*ssa.ChangeType); ok {
				bv = cv.X
			}
			eb, ok2 := bv.(*ssa.Extract)
			if ok1 && ok2 && ea.Tuple == eb.Tuple {
				if wc, ok := ea.Tuple.(*ssa.Call); ok && commonName(&wc.Call) == "context.WithCancel" {
					same = true
				}
			}
		}
	}
	c.check(same, "C16.R3", "upstream.Server/ctx-cancel-pair", token.NoPos, "ctx and cancel are stored once, from one context.WithCancel", "Server.ctx and Server.cancel do not come from a single WithCancel in the constructor")
}

// c16VerifierWiring (C16.R8): every JWTVerifier built outside tests carries the
// configured disable_disconnect_on_expiry flag. A constructor arm that forgets it
// (JWKS only, say) disconnects and deregisters upstreams at exp although the
// operator turned that off - and the reverse slip keeps them past expiry.
func c16VerifierWiring(c *Ctx) {
	p := c.P
	vt := p.NamedType("pkg/auth", "JWTVerifier")
	disableF := p.Field("pkg/auth", "JWTVerifier", "disableDisconnectOnExpiry")
	confF := p.Field("pkg/auth", "LoadedConfig", "DisableDisconnectOnExpiry")
	if vt == nil || disableF == nil || confF == nil {
		c.fail("C16.anchor", "JWTVerifier.disableDisconnectOnExpiry / LoadedConfig.DisableDisconnectOnExpiry", token.NoPos, "not found")
		return
	}
	n := 0
	for _, fn := range p.ModFuncs {
		if isTestFile(p.Fset, fn.Pos()) {
			continue
		}
		k := 0
		allInstrs(fn, func(i ssa.Instruction) {
			al, ok := i.(*ssa.Alloc)
			if !ok {
				return
			}
			pt, ok := al.Type().Underlying().(*types.Pointer)
			if !ok || !types.Identical(pt.Elem(), vt) {
				return
			}
			n++
			k++
			wired := false
			for _, fsx := range fieldStores(al) {
				if fsx.f != disableF {
					continue
				}
				if _, ok := loadedField(fsx.st.Val, confF); ok {
					wired = true
				}
			}
			c.check(wired, "C16.R8", fmt.Sprintf("%s/verifier[%d]/carries-disconnect-flag", fnName(fn), k), al.Pos(), "disableDisconnectOnExpiry := conf.DisableDisconnectOnExpiry",
				"a JWTVerifier is built without taking disable_disconnect_on_expiry from the configuration: upstreams using this verifier are disconnected (or kept) at expiry against the configuration")
		})
	}
	if n == 0 {
		c.fail("C16.R8", "verifier-constructions", token.NoPos, "no construction of JWTVerifier found")
	}
}

func c16Expiry(c *Ctx) {
	c16VerifierWiring(c)
	p := c.P
	c.floor("C16.R4", 3)
	expF := p.Field("pkg/auth", "Token", "Expiry")
	fn := p.Func("pkg/auth", "JWTVerifier.Verify")
	if fn == nil || expF == nil {
		c.fail("C16.anchor", "JWTVerifier.Verify", token.NoPos, "not found")
		return
	}
	c.analysed(fnName(fn))
	fs := computeFacts(fn)
	disableF := p.Field("pkg/auth", "JWTVerifier", "disableDisconnectOnExpiry")
	// the Expiry stored in the returned token
	n := 0
	allInstrs(fn, func(i ssa.Instruction) {
		st, ok := i.(*ssa.Store)
		if !ok {
			return
		}
		if _, ok := addrOfField(st.Addr, expF); !ok {
			return
		}
		n++
		condStore := false
		// alternatives (value, facts) feeding the stored expiry
		type alt struct {
			v     ssa.Value
			facts []Fact
		}
		var alts []alt
		switch v := st.Val.(type) {
		case *ssa.Phi:
			for k, e := range v.Edges {
				alts = append(alts, alt{e, fs.OnEdge(v.Block().Preds[k], v.Block())})
			}
		case *ssa.UnOp:
			if al, ok := v.X.(*ssa.Alloc); ok {
				for _, r := range *al.Referrers() {
					if s2, ok := r.(*ssa.Store); ok && s2.Addr == ssa.Value(al) {
						alts = append(alts, alt{s2.Val, fs.At(s2.Block())})
					}
				}
			}
		}
		if len(alts) == 0 {
			// conditional-store form: `t := &Token{…}; if claim present && enabled { t.Expiry = claim time }`
			alts = append(alts, alt{st.Val, fs.At(st.Block())})
			condStore = true
		}
		hasExp := func(facts []Fact, want bool) bool {
			return anyFact(facts, func(f Fact) bool {
				op := token.NEQ
				if !want {
					op = token.EQL
				}
				return cmpFact(f, op, func(a ssa.Value) bool { return strings.Contains(path(a), "ExpiresAt") }, isNilConst)
			})
		}
		disabled := func(facts []Fact, want bool) bool {
			return anyFact(facts, func(f Fact) bool { _, ok := loadedField(f.V, disableF); return ok && f.T == want })
		}
		good, nSet := len(alts) > 0, 0
		for _, a := range alts {
			if isZeroStruct(a.v) {
				// the expiry is left unset only when the claim is absent or the feature is disabled
				if !(hasExp(a.facts, false) || disabled(a.facts, true)) {
					good = false
				}
				continue
			}
			nSet++
			fromClaim := strings.Contains(path(a.v), "ExpiresAt") && strings.HasSuffix(path(a.v), ".&Time")
			if !(fromClaim && hasExp(a.facts, true) && disabled(a.facts, false)) {
				good = false
			}
		}
		if condStore && good {
			// the paths that skip the store leave the expiry unset: allowed only when the claim is absent or the feature disabled
			base, _ := addrOfField(st.Addr, expF)
			if al, ok := strip(base).(*ssa.Alloc); ok {
				paths, complete := enumPaths(al, func(i ssa.Instruction) bool { return i == ssa.Instruction(st) }, nil, nil, 400)
				if !complete {
					good = false
				}
				for _, pa := range paths {
					if pa.endWhy != "return" || len(pa.seen) > 0 || infeasible(pa.facts) {
						continue
					}
					rv := returnValues(pa.end.(*ssa.Return))
					if len(rv) > 0 && isNilConst(rv[0]) {
						continue // a refusal: no token is handed out
					}
					if !(hasExp(pa.facts, false) || disabled(pa.facts, true)) {
						good = false
					}
				}
			} else {
				good = false
			}
		}
		c.check(good && nSet == 1, "C16.R4", fnName(fn)+"/token-expiry", st.Pos(), "Token.Expiry = claims.ExpiresAt.Time exactly when the claim is present and disconnect-on-expiry is enabled",
			"Token.Expiry is not set from the exp claim under exactly {claim present, disconnect-on-expiry enabled}: expiring tokens do not end their connections (or unrelated settings gate it)")
	})
	if n == 0 {
		c.fail("C16.R4", fnName(fn)+"/token-expiry", fn.Pos(), "the verified token's Expiry is never set")
	}
	// the multi-tenant wrapper hands on the tenant verifier's token
	if mt := p.Func("pkg/auth", "MultiTenantVerifier.Verify"); mt != nil {
		c.analysed(fnName(mt))
		for k, r := range returnsOf(mt) {
			rv := returnValues(r)
			if isNilConst(rv[0]) {
				continue
			}
			good := false
			if ex, ok := strip(rv[0]).(*ssa.Extract); ok && ex.Index == 0 {
				if cl, ok := ex.Tuple.(*ssa.Call); ok && cl.Call.IsInvoke() && cl.Call.Method.Name() == "Verify" {
					good = true
				}
			}
			if cl, ok := strip(rv[0]).(*ssa.Call); ok && cl.Call.IsInvoke() && cl.Call.Method.Name() == "Verify" {
				good = true
			}
			c.check(good, "C16.R4", fmt.Sprintf("%s/returns-verifier-token[%d]", fnName(mt), k), r.Pos(), "returns the very token produced by the selected verifier (Expiry and Endpoints intact)",
				"the multi-tenant verifier returns a token that is not the selected verifier's token: fields such as Expiry or Endpoints can be lost")
		}
		// the only field it writes is TenantID
		tok := p.NamedType("pkg/auth", "Token")
		allInstrs(mt, func(i ssa.Instruction) {
			st, ok := i.(*ssa.Store)
			if !ok {
				return
			}
			fa, ok := st.Addr.(*ssa.FieldAddr)
			if !ok {
				return
			}
			if pt, ok := fa.X.Type().(*types.Pointer); ok && types.Identical(pt.Elem(), tok) {
				fv, _ := fieldVarOf(fa)
				c.check(fv.Name() == "TenantID", "C16.R4", fnName(mt)+"/writes-"+fv.Name(), st.Pos(), "only the tenant id is stamped on the token", "the multi-tenant verifier overwrites token field "+fv.Name())
			}
		})
	}
}

func c16Sessions(c *Ctx) {
	p := c.P
	c.floor("C16.R5", 6)
	sessF := p.Field(upPkg, "Server", "sessions")
	if sessF == nil {
		c.fail("C16.anchor", "Server.sessions", token.NoPos, "not found")
		return
	}
	for _, s := range p.storesToField(sessF, false) {
		fn := s.Fn
		key := fnName(fn) + "/" + s.Kind
		switch x := s.Instr.(type) {
		case *ssa.MapUpdate:
			c.check(baseName(fn) == "addSession" && strip(x.Key) == ssa.Value(fn.Params[1]), "C16.R5", key, x.Pos(), "addSession records exactly the given session", "sessions are recorded outside addSession or under another key")
		case *ssa.Call:
			c.check(baseName(fn) == "removeSession" && strip(x.Call.Args[1]) == ssa.Value(fn.Params[1]), "C16.R5", key, x.Pos(), "removeSession forgets exactly the given session", "sessions are deleted outside removeSession or under another key: shedding/bookkeeping can drop a live session's record")
		case *ssa.Store:
			c.check(strings.HasPrefix(fn.Name(), "New"), "C16.R5", key, x.Pos(), "the session set is created by the constructor", "the session set is replaced outside the constructor")
		}
	}
	for _, sp := range []struct{ name, what string }{{"Server.addSession", "sessions[sess] = struct{}{}"}, {"Server.removeSession", "delete(sessions, sess)"}} {
		fn := p.Func(upPkg, sp.name)
		if fn == nil {
			c.fail("C16.anchor", sp.name, token.NoPos, "not found")
			continue
		}
		hit := func(i ssa.Instruction) bool {
			switch x := i.(type) {
			case *ssa.MapUpdate:
				_, ok := loadedField(x.Map, sessF)
				return ok && sp.name == "Server.addSession" && strip(x.Key) == ssa.Value(fn.Params[1])
			case *ssa.Call:
				if b, ok := x.Call.Value.(*ssa.Builtin); ok && b.Name() == "delete" {
					_, ok := loadedField(x.Call.Args[0], sessF)
					return ok && sp.name == "Server.removeSession" && strip(x.Call.Args[1]) == ssa.Value(fn.Params[1])
				}
			}
			return false
		}
		c.check(everyPathEntry(fn, hit, nil, true) == nil, "C16.R5", fnName(fn)+"/effect", fn.Pos(), sp.what+" on every path", "the session bookkeeping primitive does not perform `"+sp.what+"`: shutdown and shedding cannot find (or keep finding) the session")
	}
	if shed := p.Func(upPkg, "Server.shedSessions"); shed != nil {
		closes := len(findCalls(shed, "(*github.com/andydunstall/yamux.Session).Close"))
		c.check(closes == 1, "C16.R5", fnName(shed)+"/closes-sessions", shed.Pos(), "shedding closes the selected sessions (deregistration is the handler's deferred work)", "shedSessions does not close the sessions it selects")
	}
}

// c15R2: what Select may return (shared with C06.R4).
func c15R2(c *Ctx, rule string) {
	p := c.P
	localUp := p.Field(upPkg, "LoadBalancedManager", "localUpstreams")
	if localUp == nil {
		c.fail(rule, "anchor/localUpstreams", token.NoPos, "not found")
		return
	}
	// ---- R2: Select ----
	c.floor(rule, 2)
	if sel := p.Func(upPkg, "LoadBalancedManager.Select"); sel != nil {
		c.analysed(fnName(sel))
		fs := computeFacts(sel)
		param, allow := ssa.Value(sel.Params[1]), ssa.Value(sel.Params[2])
		n := 0
		for _, r := range returnsOf(sel) {
			rv := returnValues(r)
			if b, ok := constBool(rv[1]); ok && !b {
				continue
			}
			n++
			facts := fs.At(r.Block())
			key := fmt.Sprintf("%s/return-found[%d]", fnName(sel), n)
			switch x := strip(rv[0]).(type) {
			case *ssa.Call:
				name := commonName(&x.Call)
				switch {
				case name == fnLBNext:
					ex, ok := x.Call.Args[0].(*ssa.Extract)
					good := false
					if ok && ex.Index == 0 {
						if lk, ok := ex.Tuple.(*ssa.Lookup); ok {
							if _, ok := loadedField(lk.X, localUp); ok && strip(lk.Index) == param {
								good = anyFact(facts, func(f Fact) bool {
									e2, ok := f.V.(*ssa.Extract)
									return ok && e2.Tuple == ssa.Value(lk) && e2.Index == 1 && f.T
								})
							}
						}
					}
					c.check(good, rule, key, r.Pos(), "local: Next() of the balancer found under the requested endpoint", "the local upstream returned is not Next() of the balancer registered under the requested endpoint id")
				case strings.HasSuffix(name, "server/upstream.NewNodeUpstream"):
					okAllow := anyFact(facts, func(f Fact) bool { return f.V == allow && f.T })
					okNode := false
					if nex, ok := x.Call.Args[1].(*ssa.Extract); ok && nex.Index == 0 {
						if lc, ok := nex.Tuple.(*ssa.Call); ok && commonName(&lc.Call) == stateCall("LookupEndpoint") && strip(lc.Call.Args[1]) == param {
							okNode = anyFact(facts, func(f Fact) bool {
								e2, ok := f.V.(*ssa.Extract)
								return ok && e2.Tuple == ssa.Value(lc) && e2.Index == 1 && f.T
							})
						}
					}
					noLocal := anyFact(facts, func(f Fact) bool {
						e2, ok := f.V.(*ssa.Extract)
						if !ok || e2.Index != 1 || f.T {
							return false
						}
						lk, ok := e2.Tuple.(*ssa.Lookup)
						if !ok {
							return false
						}
						_, ok = loadedField(lk.X, localUp)
						return ok && strip(lk.Index) == param
					})
					c.check(okAllow && okNode && noLocal && strip(x.Call.Args[0]) == param, rule, key, r.Pos(), "remote: only when allowed, no local upstream exists, and LookupEndpoint(same id) succeeded",
						fmt.Sprintf("a remote node can be returned although forwarding is not allowed (%v), a local upstream exists (%v), or the node was not looked up for this endpoint (%v)", !okAllow, !noLocal, !okNode))
				default:
					c.fail(rule, key, r.Pos(), "unrecognised source of the selected upstream: "+name)
				}
			default:
				c.fail(rule, key, r.Pos(), "unrecognised source of the selected upstream: "+path(rv[0]))
			}
		}
		if n < 2 {
			c.fail(rule, fnName(sel)+"/returns", sel.Pos(), "expected a local and a remote successful return")
		}
	} else {
		c.fail("C15.anchor", "LoadBalancedManager.Select", token.NoPos, "not found")
	}
}

// flowsToDefer: the function value v is eventually invoked by a defer in the
// same function (through type changes and a local variable).
func flowsToDefer(v ssa.Value, d int) bool {
	if d > 5 || v.Referrers() == nil {
		return false
	}
	for _, r := range *v.Referrers() {
		switch x := r.(type) {
		case *ssa.Defer:
			if x.Call.Value == v {
				return true
			}
		case *ssa.ChangeType:
			if flowsToDefer(x, d+1) {
				return true
			}
		case *ssa.Store:
			if al, ok := x.Addr.(*ssa.Alloc); ok && x.Val == v {
				for _, r2 := range *al.Referrers() {
					if ld, ok := r2.(*ssa.UnOp); ok && flowsToDefer(ld, d+1) {
						return true
					}
				}
			}
		case *ssa.Phi:
			if flowsToDefer(x, d+1) {
				return true
			}
		}
	}
	return false
}

// c16Gone: outside the handler's deferred release, a registered upstream is
// removed only because it announced go-away: RemoveConn(u) under
// errors.Is(err, ErrGone) for the error of u.Dial(), and ErrGone is produced
// only from yamux.ErrRemoteGoAway.
func c16Gone(c *Ctx) {
	p := c.P
	c.floor("C16.R7", 3)
	for _, fn := range p.ModFuncs {
		if isTestFile(p.Fset, fn.Pos()) {
			continue
		}
		fs := (*Facts)(nil)
		allInstrs(fn, func(i ssa.Instruction) {
			cl, ok := i.(*ssa.Call)
			if !ok || !cl.Call.IsInvoke() || cl.Call.Method.Name() != "RemoveConn" || !strings.Contains(cl.Call.Method.FullName(), "server/upstream.Manager") {
				return
			}
			if fs == nil {
				fs = computeFacts(fn)
			}
			u := cl.Call.Args[0]
			facts := fs.At(cl.Block())
			gone := anyFact(facts, func(f Fact) bool {
				ec, ok := f.V.(*ssa.Call)
				if !ok || !f.T || commonName(&ec.Call) != "errors.Is" {
					return false
				}
				if !strings.HasSuffix(path(ec.Call.Args[1]), "G:ErrGone") {
					return false
				}
				// the error of u.Dial()
				ex, ok := ec.Call.Args[0].(*ssa.Extract)
				if !ok || ex.Index != 1 {
					return false
				}
				dc, ok := ex.Tuple.(*ssa.Call)
				return ok && dc.Call.IsInvoke() && dc.Call.Method.Name() == "Dial" && sameValue(dc.Call.Value, u)
			})
			c.check(gone, "C16.R7", fnName(fn)+"/removes-only-gone-upstream", cl.Pos(), "an upstream is dropped from routing ahead of its disconnect only when its Dial reported ErrGone",
				"a registered upstream is removed from routing although its connection is open and it did not announce go-away (any dial error, or an unrelated upstream): it stays connected but receives no traffic; facts "+factStrings(facts))
		})
	}
	if fn := p.Func(upPkg, "ConnUpstream.Dial"); fn != nil {
		fsd := computeFacts(fn)
		n := 0
		allInstrs(fn, func(i ssa.Instruction) {
			// where does ErrGone flow into the returned error?
			u, ok := i.(*ssa.UnOp)
			if !ok || u.Op != token.MUL || !strings.HasSuffix(path(u), "G:ErrGone") {
				return
			}
			n++
			facts := fsd.At(u.Block())
			goAway := anyFact(facts, func(f Fact) bool {
				ec, ok := f.V.(*ssa.Call)
				return ok && f.T && commonName(&ec.Call) == "errors.Is" && strings.HasSuffix(path(ec.Call.Args[1]), "G:ErrRemoteGoAway")
			})
			c.check(goAway, "C16.R7", fnName(fn)+"/gone-means-go-away", u.Pos(), "ErrGone is reported only for yamux.ErrRemoteGoAway", "ErrGone is reported for errors other than the peer's go-away: healthy upstreams get removed from routing")
		})
		if n == 0 {
			c.fail("C16.R7", fnName(fn)+"/gone-means-go-away", fn.Pos(), "ConnUpstream.Dial never reports ErrGone: upstreams that stopped accepting stay in rotation")
		}
	}
}
