package main

import (
	"sort"
	"strings"

	"golang.org/x/tools/go/callgraph"
	"golang.org/x/tools/go/ssa"
)

// reachFrom computes the set of functions reachable from roots over the VTA
// call graph, with a parent edge for path reconstruction. skip may prune
// callee nodes (e.g. to stay inside the module).
func (p *Prog) reachFrom(roots []*ssa.Function, skip func(*ssa.Function) bool) map[*ssa.Function]*callgraph.Edge {
	parent := map[*ssa.Function]*callgraph.Edge{}
	var q []*ssa.Function
	for _, r := range roots {
		if r == nil {
			continue
		}
		if _, ok := parent[r]; !ok {
			parent[r] = nil
			q = append(q, r)
		}
	}
	for len(q) > 0 {
		f := q[0]
		q = q[1:]
		n := p.CG.Nodes[f]
		if n == nil {
			continue
		}
		for _, e := range n.Out {
			cal := e.Callee.Func
			if cal == nil {
				continue
			}
			if _, ok := parent[cal]; ok {
				continue
			}
			if skip != nil && skip(cal) {
				continue
			}
			parent[cal] = e
			q = append(q, cal)
		}
	}
	return parent
}

func (p *Prog) cgPath(parent map[*ssa.Function]*callgraph.Edge, to *ssa.Function) string {
	var parts []string
	for f := to; f != nil; {
		e := parent[f]
		if e == nil {
			parts = append(parts, fnName(f))
			break
		}
		parts = append(parts, fnName(f)+" (called at "+p.pos(e.Pos())+")")
		f = e.Caller.Func
	}
	for i, j := 0, len(parts)-1; i < j; i, j = i+1, j-1 {
		parts[i], parts[j] = parts[j], parts[i]
	}
	return strings.Join(parts, " -> ")
}

// callersOf lists call-graph in-edges of f from non-test module functions.
func (p *Prog) callersOf(f *ssa.Function) []*callgraph.Edge {
	n := p.CG.Nodes[f]
	if n == nil {
		return nil
	}
	var out []*callgraph.Edge
	for _, e := range n.In {
		if e.Caller.Func == nil {
			continue
		}
		out = append(out, e)
	}
	sort.Slice(out, func(i, j int) bool { return out[i].Pos() < out[j].Pos() })
	return out
}

// calleesAt resolves the possible callees of a call instruction via the call graph.
func (p *Prog) calleesAt(i ssa.CallInstruction) []*ssa.Function {
	if f := i.Common().StaticCallee(); f != nil {
		return []*ssa.Function{f}
	}
	n := p.CG.Nodes[i.Parent()]
	if n == nil {
		return nil
	}
	var out []*ssa.Function
	seen := map[*ssa.Function]bool{}
	for _, e := range n.Out {
		if e.Site == i && e.Callee.Func != nil && !seen[e.Callee.Func] {
			seen[e.Callee.Func] = true
			out = append(out, e.Callee.Func)
		}
	}
	sort.Slice(out, func(a, b int) bool { return out[a].String() < out[b].String() })
	return out
}

// unwrap: for $bound / $thunk wrappers return the wrapped method.
func unwrapWrapper(f *ssa.Function) *ssa.Function {
	if f.Synthetic == "" || len(f.Blocks) == 0 {
		return f
	}
	var target *ssa.Function
	allInstrs(f, func(i ssa.Instruction) {
		if c, ok := i.(ssa.CallInstruction); ok {
			if cal := c.Common().StaticCallee(); cal != nil {
				target = cal
			}
		}
	})
	if target != nil {
		return target
	}
	return f
}
