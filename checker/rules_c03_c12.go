package main

import (
	"fmt"
	"go/token"
	"go/types"
	"strings"

	"golang.org/x/tools/go/ssa"
)

func gsFn(name string) string { return "(*" + modPath + "/pkg/gossip." + name }

func init() {
	register(&propDef{
		id: "C03",
		meta: propMeta{
			explanation: "Convergence is a liveness claim under fairness and is NOT decided. Decided: the exchange skeleton without which no fair schedule converges. (R1) on every non-error path the digest handler applies the digest, computes the delta for that digest and sends that delta to the requester; the delta/join/leave handlers and the joining side apply the decoded delta; (R2) digest discovery inserts unknown nodes at Version 0 and Digest() reports, for every known node without filtering, the Version field that applying entries advances (with C02.R2: resume exactly after the last applied entry); (R3) a gossip round initiates with a live node when there is one and, on every path on which that did not fail, with an unreachable node when there is one; (R4) a digest request covers every known node including the sender itself: Digest() appends every ranged node unconditionally and the digest encode loops skip no element other than by the size test; (R5) each packet is a version-ordered whole-entry prefix and makes progress (rules of C02.R3 and C13.R1/R2, run here too). Rules that only speed convergence up (the reply digest of push-pull) are deliberately not enforced. Second round: (R7) Delta answers every digest entry of a known node and appends the answer unless empty; (R8) the gossip round is started by New -> schedule -> ticker loop, which ends only on shutdown. Deliberately not enforced: reply digest, join ApplyDigest/full reply, full-digest arm (speed-ups only).",
			ruleText:    "obligation = one handler path class / insert / append / loop; distinct = distinct keys",
			assumptions: []string{"fair scheduling and eventual delivery (not checked)", "rand selection is uniform enough to reach every peer (not checked)"},
		},
		run: runC03,
		mutants: []mutant{
			{Name: "ApplyDigest inserts at Version 1", File: "pkg/gossip/state.go", Old: "\t\t\t\tID:      entry.ID,\n\t\t\t\tAddr:    entry.Addr,\n\t\t\t\tVersion: 0,\n", New: "\t\t\t\tID:      entry.ID,\n\t\t\t\tAddr:    entry.Addr,\n\t\t\t\tVersion: 1,\n", Rule: "C03.R2"},
			{Name: "digest handler never sends the delta", File: "pkg/gossip/listener.go", Old: "\tif err := l.sendDelta(delta, header.Addr); err != nil {\n\t\treturn fmt.Errorf(\"send delta: %w\", err)\n\t}\n", New: "\tif len(delta) > 1000 {\n\t\tif err := l.sendDelta(delta, header.Addr); err != nil {\n\t\t\treturn fmt.Errorf(\"send delta: %w\", err)\n\t\t}\n\t}\n", Rule: "C03.R1"},
			{Name: "gossipRound skips unreachable nodes", File: "pkg/gossip/gossip.go", Old: "\tnodes = g.state.UnreachableNodes()\n\tif len(nodes) > 0 {", New: "\tnodes = g.state.UnreachableNodes()\n\tif len(nodes) > 0 && false {", Rule: "C03.R3"},
			{Name: "digest request omits the sender's own entry", File: "pkg/gossip/gossip.go", Old: "\tfor _, entry := range digest {\n\t\tif err := encoder.Encode(&entry); err != nil {\n\t\t\treturn fmt.Errorf(\"encode: %w\", err)\n\t\t}\n\n\t\tif buf.Len() > g.config.MaxPacketSize {", New: "\tfor _, entry := range digest {\n\t\tif entry.ID == localMeta.ID {\n\t\t\tcontinue\n\t\t}\n\t\tif err := encoder.Encode(&entry); err != nil {\n\t\t\treturn fmt.Errorf(\"encode: %w\", err)\n\t\t}\n\n\t\tif buf.Len() > g.config.MaxPacketSize {", Rule: "C03.R4"},
			{Name: "Digest() omits left nodes", File: "pkg/gossip/state.go", Old: "\tfor _, state := range s.nodes {\n\t\tdigest = append(digest, digestEntry{", New: "\tfor _, state := range s.nodes {\n\t\tif state.Left {\n\t\t\tcontinue\n\t\t}\n\t\tdigest = append(digest, digestEntry{", Rule: "C03.R4"},
			{Name: "delta handler applies nothing when the sender is unknown", File: "pkg/gossip/listener.go", Old: "\tl.failureDetector.Report(header.NodeID)\n\n\tl.state.ApplyDelta(delta)\n", New: "\tl.failureDetector.Report(header.NodeID)\n\n\tif _, ok := l.state.Node(header.NodeID); ok {\n\t\tl.state.ApplyDelta(delta)\n\t}\n", Rule: "C03.R1"},
			{Name: "delta computed for our own digest instead of the peer's", File: "pkg/gossip/listener.go", Old: "\tdelta := l.state.Delta(digest, false)\n", New: "\tdelta := l.state.Delta(l.state.Digest(), false)\n", Rule: "C03.R1"},
			{Name: "benign: metrics update moved before the send", Benign: true, File: "pkg/gossip/listener.go", Old: "\tif err := l.sendDelta(delta, header.Addr); err != nil {\n\t\treturn fmt.Errorf(\"send delta: %w\", err)\n\t}\n\tl.metrics.DeltaEntriesOutbound.Add(float64(delta.EntriesTotal()))\n", New: "\tl.metrics.DeltaEntriesOutbound.Add(float64(delta.EntriesTotal()))\n\tif err := l.sendDelta(delta, header.Addr); err != nil {\n\t\treturn fmt.Errorf(\"send delta: %w\", err)\n\t}\n"},
		},
	})
	register(&propDef{
		id: "C12",
		meta: propMeta{
			explanation: "The property is numerical (proportional growth, thresholds never/always crossed, float rounding) and that part is NOT decided. Decided: the bookkeeping skeleton the numbers rest on. (R1) every received delta packet is reported to the detector on every non-error path, and ReportWithTimestamp hands every report's timestamp to the node's window (found or created-and-stored) on every path; (R2) arrivalWindow.Add stores lastTimestamp = timestamp on every path and feeds the window exactly timestamp.Sub(lastTimestamp).Nanoseconds() (unmodified) when a previous arrival exists, else exactly the bootstrap interval; Phi returns (timestamp - lastTimestamp) / Mean(); (R3) the circular window conserves its sum: the slice is allocated once, a slot store is preceded, whenever the window is full, by subtracting the old value of that very slot, followed by sum += v and mean = sum/size; the index advances by exactly one and wraps to 0 setting isFull exactly at len; (R4) UpdateLiveness marks unreachable exactly under SuspicionLevel(id) > threshold and reachable under its negation. Second round: (R5) window lifecycle - created only on a miss, stored, primed with the current time, dropped by Remove; (R6) the liveness driver and the Report/SuspicionLevel facades.",
			ruleText:    "obligation = one path class / store / data-dependence shape; distinct = distinct keys",
			assumptions: []string{"time values are monotone within one process (time.Now monotonic clock)", "float64 arithmetic is exact enough (not checked)"},
		},
		run: runC12,
		mutants: []mutant{
			{Name: "eviction subtraction dropped", File: "pkg/gossip/failuredetector.go", Old: "\tif i.isFull {\n\t\ti.sum = i.sum - i.intervals[i.index]\n\t}\n", New: "", Rule: "C12.R3"},
			{Name: "isFull never set", File: "pkg/gossip/failuredetector.go", Old: "\t\ti.index = 0\n\t\ti.isFull = true\n", New: "\t\ti.index = 0\n", Rule: "C12.R3"},
			{Name: "lastTimestamp not updated after the first sample", File: "pkg/gossip/failuredetector.go", Old: "\t\tw.intervals.Add(w.bootstrapInterval.Nanoseconds())\n\t}\n\tw.lastTimestamp = timestamp\n", New: "\t\tw.intervals.Add(w.bootstrapInterval.Nanoseconds())\n\t\tw.lastTimestamp = timestamp\n\t}\n", Rule: "C12.R2"},
			{Name: "Report dropped from the delta handler", File: "pkg/gossip/listener.go", Old: "\tl.failureDetector.Report(header.NodeID)\n\n", New: "\t_ = header.NodeID\n\n", Rule: "C12.R1"},
			{Name: "bursts coalesced: report skipped when recent", File: "pkg/gossip/failuredetector.go", Old: "\t\td.windows[nodeID] = window\n\t}\n\twindow.Add(timestamp)\n}", New: "\t\td.windows[nodeID] = window\n\t} else if timestamp.Sub(window.lastTimestamp) < d.bootstrapInterval/100 {\n\t\treturn\n\t}\n\twindow.Add(timestamp)\n}", Rule: "C12.R1"},
			{Name: "samples capped at the bootstrap interval", File: "pkg/gossip/failuredetector.go", Old: "\t\tw.intervals.Add(timestamp.Sub(w.lastTimestamp).Nanoseconds())\n", New: "\t\tw.intervals.Add(min(timestamp.Sub(w.lastTimestamp), w.bootstrapInterval).Nanoseconds())\n", Rule: "C12.R2"},
			{Name: "evicts the slot before the one overwritten", File: "pkg/gossip/failuredetector.go", Old: "\t\ti.sum = i.sum - i.intervals[i.index]\n", New: "\t\ti.sum = i.sum - i.intervals[(i.index+1)%len(i.intervals)]\n", Rule: "C12.R3"},
			{Name: "mean divides by capacity instead of size", File: "pkg/gossip/failuredetector.go", Old: "\ti.mean = float64(i.sum) / float64(i.size())\n", New: "\ti.mean = float64(i.sum) / float64(len(i.intervals))\n", Rule: "C12.R3"},
			{Name: "threshold compared with >= on the reachable side only", File: "pkg/gossip/state.go", Old: "\t\tif suspicionLevel > suspicionThreshold {\n", New: "\t\tif suspicionLevel > suspicionThreshold*2 {\n", Rule: "C12.R4"},
			{Name: "benign: eviction subtraction written with -=", Benign: true, File: "pkg/gossip/failuredetector.go", Old: "\t\ti.sum = i.sum - i.intervals[i.index]\n", New: "\t\ti.sum -= i.intervals[i.index]\n"},
		},
	})
}

// onEveryOKPath: every path from function entry to a return whose error
// result is nil passes, in order, instructions matching each of steps.
func onEveryOKPath(c *Ctx, rule string, fn *ssa.Function, what string, steps []func(ssa.Instruction) bool, names []string) {
	interesting := func(i ssa.Instruction) bool {
		for _, s := range steps {
			if s(i) {
				return true
			}
		}
		return false
	}
	paths, complete := enumPathsAt(fn.Blocks[0], 0, interesting, nil, nil, 600)
	key := fnName(fn) + "/" + what
	if !complete {
		c.undecided(rule, key, fn.Pos(), "too many paths")
		return
	}
	bad := ""
	nOK := 0
	for _, pa := range paths {
		if pa.endWhy != "return" {
			continue
		}
		rv := returnValues(pa.end.(*ssa.Return))
		if len(rv) > 0 {
			if _, isErr := rv[len(rv)-1].Type().Underlying().(*types.Interface); isErr && !isNilConst(rv[len(rv)-1]) {
				continue // error path
			}
		}
		nOK++
		k := 0
		for _, in := range pa.seen {
			if k < len(steps) && steps[k](in) {
				k++
			}
		}
		if k < len(steps) {
			bad = fmt.Sprintf("a non-error path to %s does not perform step %q (steps in order: %s); path facts %s", c.P.pos(pa.end.Pos()), names[k], strings.Join(names, " ≺ "), factStrings(pa.facts))
			break
		}
	}
	if nOK == 0 {
		bad = "no non-error path found"
	}
	c.check(bad == "", rule, key, fn.Pos(), fmt.Sprintf("%d non-error paths all perform %s", nOK, strings.Join(names, " ≺ ")), bad)
}

func isCallTo(name string, argCheck func(*ssa.CallCommon) bool) func(ssa.Instruction) bool {
	return func(i ssa.Instruction) bool {
		cl, ok := i.(*ssa.Call)
		if !ok {
			return false
		}
		n := commonName(&cl.Call)
		if n != name && !(cl.Call.IsInvoke() && strings.HasSuffix(n, "."+name)) {
			return false
		}
		return argCheck == nil || argCheck(&cl.Call)
	}
}

func runC03(c *Ctx) {
	driverRule(c, "C03.R8", []string{"Gossip).gossipRound"})
	p := c.P
	g := newGossipAnchors(p)
	if !g.ok {
		c.fail("C03.anchor", "pkg/gossip state types", token.NoPos, "unresolved:"+g.missing)
		return
	}
	c.floor("C03.R1", 5)
	// --- R1: digest handler ---
	if fn := p.Func(gsPkg, "packetListener.digest"); fn != nil {
		c.analysed(fnName(fn))
		var dec *ssa.Call
		allInstrs(fn, func(i ssa.Instruction) {
			if cl, ok := i.(*ssa.Call); ok && strings.HasSuffix(commonName(&cl.Call), "pkg/gossip.decodeDigest") {
				dec = cl
			}
		})
		isDecoded := func(v ssa.Value, idx int) bool {
			ex, ok := strip(v).(*ssa.Extract)
			return ok && dec != nil && ex.Tuple == ssa.Value(dec) && ex.Index == idx
		}
		var deltaCall *ssa.Call
		steps := []func(ssa.Instruction) bool{
			isCallTo(gsFn("clusterState).ApplyDigest"), func(cc *ssa.CallCommon) bool { return isDecoded(cc.Args[1], 1) }),
			func(i ssa.Instruction) bool {
				ok := isCallTo(gsFn("clusterState).Delta"), func(cc *ssa.CallCommon) bool { return isDecoded(cc.Args[1], 1) })(i)
				if ok {
					deltaCall = i.(*ssa.Call)
				}
				return ok
			},
			isCallTo(gsFn("packetListener).sendDelta"), func(cc *ssa.CallCommon) bool {
				if deltaCall == nil || cc.Args[1] != ssa.Value(deltaCall) {
					return false
				}
				// addressed to the requester: header.Addr of the decoded header
				b, ok := loadedField(cc.Args[2], p.Field(gsPkg, "digestHeader", "Addr"))
				if !ok {
					return false
				}
				if al, ok := b.(*ssa.Alloc); ok {
					if v, _ := singleStore(al); v != nil {
						return isDecoded(v, 0)
					}
				}
				return isDecoded(b, 0)
			}),
		}
		onEveryOKPath(c, "C03.R1", fn, "digest-exchange", steps, []string{"ApplyDigest(decoded digest)", "Delta(decoded digest)", "sendDelta(that delta, header.Addr)"})
	} else {
		c.fail("C03.anchor", "packetListener.digest", token.NoPos, "not found")
	}
	// the other handlers apply what they decoded
	for _, h := range []struct{ fn, decoder string }{
		{"packetListener.delta", "decodeDelta"},
		{"streamListener.join", ""},
		{"streamListener.leave", ""},
		{"Gossip.join", ""},
	} {
		fn := p.Func(gsPkg, h.fn)
		if fn == nil {
			c.fail("C03.anchor", h.fn, token.NoPos, "not found")
			continue
		}
		c.analysed(fnName(fn))
		deltaT := p.NamedType(gsPkg, "delta")
		isDecodedDelta := func(v ssa.Value) bool {
			v = strip(v)
			if ex, ok := v.(*ssa.Extract); ok {
				if cl, ok := ex.Tuple.(*ssa.Call); ok && strings.HasSuffix(commonName(&cl.Call), "pkg/gossip."+h.decoder) && h.decoder != "" {
					return ex.Index == 1
				}
			}
			// stream form: a local `var delta delta` filled by decoder.Decode(&delta)
			if u, ok := v.(*ssa.UnOp); ok && u.Op == token.MUL {
				if al, ok := u.X.(*ssa.Alloc); ok && types.Identical(al.Type().(*types.Pointer).Elem(), deltaT) {
					for _, r := range *al.Referrers() {
						if mi, ok := r.(*ssa.MakeInterface); ok {
							for _, rr := range *mi.Referrers() {
								if cl, ok := rr.(*ssa.Call); ok && strings.HasSuffix(commonName(&cl.Call), "decoder).Decode") {
									return true
								}
							}
						}
					}
				}
			}
			return false
		}
		steps := []func(ssa.Instruction) bool{isCallTo(gsFn("clusterState).ApplyDelta"), func(cc *ssa.CallCommon) bool { return isDecodedDelta(cc.Args[1]) })}
		onEveryOKPath(c, "C03.R1", fn, "applies-decoded-delta", steps, []string{"ApplyDelta(decoded delta)"})
	}
	// Deliberately not enforced (see DESIGN.md C03): the reply digest of the push-pull round, ApplyDigest and the
	// full-digest reply of the stream join. Each only speeds convergence up; removing it leaves the property true.
	// --- R2: discovery at version 0; Digest reports Version ---
	c.floor("C03.R2", 2)
	if fn := p.Func(gsPkg, "clusterState.ApplyDigest"); fn != nil {
		for _, w := range g.writes(fn) {
			if w.kind != "nodes-insert" {
				continue
			}
			// Version of the fresh node: absent or constant 0
			_, ver, ok := g.freshNodeFields(w.val, 0)
			if ok && ver != nil {
				k, isK := constInt(ver)
				ok = isK && k == 0
			}
			c.check(ok, "C03.R2", fnName(fn)+"/discovered-at-version-0", w.instr.Pos(), "a node discovered from a digest starts at Version 0, so the next digest requests all of its state", "a node discovered from a digest does not start at Version 0: the entries at or below that version are never requested")
		}
	}
	c03Digest(c, g)
	c03NoDigestOrder(c)
	c03Delta(c, g)
	c03EveryDatagramHandled(c)
	// --- R3: gossipRound ---
	c03Round(c)
	// --- R5 ---
	c02R3(c, g)
	c13Encode(c, "C03.R5", "C03.R5")
	c13Decode(c, "C03.R5")
	// what observers converge to: only newer entries applied, version backed by entries, compaction consistent
	c02R2(c, g, "C03.R6")
	c17All(c, g)
}

// c03Digest: Digest() covers every node; digest encode loops skip nothing.
func c03Digest(c *Ctx, g *gossipAnchors) {
	p := c.P
	c.floor("C03.R4", 3)
	fn := p.Func(gsPkg, "clusterState.Digest")
	if fn == nil {
		c.fail("C03.anchor", "clusterState.Digest", token.NoPos, "not found")
		return
	}
	c.analysed(fnName(fn))
	fs := computeFacts(fn)
	n := 0
	allInstrs(fn, func(i ssa.Instruction) {
		cl, ok := i.(*ssa.Call)
		if !ok {
			return
		}
		if b, ok := cl.Call.Value.(*ssa.Builtin); !ok || b.Name() != "append" {
			return
		}
		n++
		extra := 0
		for _, f := range fs.At(cl.Block()) {
			if ex, ok := f.V.(*ssa.Extract); ok {
				if _, isNext := ex.Tuple.(*ssa.Next); isNext && f.T {
					continue
				}
			}
			extra++
		}
		// the appended entry's Version is the node's Version field
		verOK := false
		if sl, ok := cl.Call.Args[1].(*ssa.Slice); ok {
			if arr, ok := sl.X.(*ssa.Alloc); ok {
				for _, r := range *arr.Referrers() {
					if ia, ok := r.(*ssa.IndexAddr); ok {
						for _, rr := range *ia.Referrers() {
							if st, ok := rr.(*ssa.Store); ok {
								if u, ok := st.Val.(*ssa.UnOp); ok {
									if eal, ok := u.X.(*ssa.Alloc); ok {
										for _, fsx := range fieldStores(eal) {
											if fsx.f.Name() == "Version" {
												if _, ok := loadedField(fsx.st.Val, g.versionF); ok {
													verOK = true
												}
											}
										}
									}
								}
							}
						}
					}
				}
			}
		}
		c.check(extra == 0, "C03.R4", fnName(fn)+"/covers-every-node", cl.Pos(), "every known node, including the local one, is listed in the digest", "the digest omits some known nodes: a peer can never be told the sender's version for them, or re-learn the sender; facts "+factStrings(fs.At(cl.Block())))
		c.check(verOK, "C03.R2", fnName(fn)+"/reports-applied-version", cl.Pos(), "the digest reports NodeMetadata.Version, the field that applying entries advances", "the digest does not report the node's applied Version field")
	})
	if n == 0 {
		c.fail("C03.R4", fnName(fn)+"/append", fn.Pos(), "no append found")
	}
	// encode loops over a digest: from the loop body entry every path reaches Encode before the back edge
	digestT := p.NamedType(gsPkg, "digestEntry")
	for _, name := range []string{"Gossip.gossip", "encodeDigest"} {
		f := p.Func(gsPkg, name)
		if f == nil {
			c.fail("C03.anchor", name, token.NoPos, "not found")
			continue
		}
		c.analysed(fnName(f))
		found := false
		allInstrs(f, func(i ssa.Instruction) {
			cl, ok := i.(*ssa.Call)
			if !ok || !strings.HasSuffix(commonName(&cl.Call), "encoder).Encode") {
				return
			}
			hdr := loopHeader(cl.Block())
			if hdr == nil {
				return
			}
			// argument is a *digestEntry
			mi, ok := cl.Call.Args[1].(*ssa.MakeInterface)
			if !ok {
				return
			}
			pt, ok := mi.X.Type().(*types.Pointer)
			if !ok || !types.Identical(pt.Elem(), digestT) {
				return
			}
			found = true
			// body entry = successor of header inside the loop
			var body *ssa.BasicBlock
			for _, s := range hdr.Succs {
				if hdr.Dominates(s) && reachesBlock(s, hdr) {
					body = s
				}
			}
			skip := false
			if body != nil {
				skip = blockReaches(body, hdr.Instrs[0], func(in ssa.Instruction) bool { return in == ssa.Instruction(cl) })
			}
			c.check(body != nil && !skip, "C03.R4", fnName(f)+"/encodes-every-digest-entry", cl.Pos(), "no digest entry is skipped other than by the size test after encoding it", "the digest encode loop can skip an entry without encoding it: some nodes (e.g. the sender itself) are never advertised to the peer")
		})
		if !found {
			c.fail("C03.R4", fnName(f)+"/digest-encode-loop", f.Pos(), "no loop encoding digest entries found")
		}
	}
}

func c03Round(c *Ctx) {
	p := c.P
	c.floor("C03.R3", 2)
	fn := p.Func(gsPkg, "Gossip.gossipRound")
	if fn == nil {
		c.fail("C03.anchor", "Gossip.gossipRound", token.NoPos, "not found")
		return
	}
	c.analysed(fnName(fn))
	fs := computeFacts(fn)
	// exchangeWith: in f, starting after `origin` (or at the entry when nil), every path on which the list is
	// non-empty initiates gossip(node) with node an element of the list.
	var exchangeWith func(f *ssa.Function, origin ssa.Instruction, derives func(ssa.Value) bool, depth int) (string, ssa.Instruction)
	exchangeWith = func(f *ssa.Function, origin ssa.Instruction, derives func(ssa.Value) bool, depth int) (string, ssa.Instruction) {
		var call ssa.Instruction
		var viaHelper *ssa.Function
		allInstrs(f, func(i ssa.Instruction) {
			cl, ok := i.(*ssa.Call)
			if !ok {
				return
			}
			if commonName(&cl.Call) == gsFn("Gossip).gossip") {
				if derives(cl.Call.Args[1]) {
					call = cl
				}
				return
			}
			// handed to a helper of the same receiver that does the exchange
			if sc := cl.Call.StaticCallee(); sc != nil && depth < 2 && inModule(sc) && sc.Signature.Recv() != nil && call == nil {
				for k, a := range cl.Call.Args {
					if k == 0 || !derives(a) {
						continue
					}
					pv := sc.Params[k]
					if bad, _ := exchangeWith(sc, nil, func(v ssa.Value) bool { return derivesFromValue(v, pv, 0) }, depth+1); bad == "" {
						call, viaHelper = cl, sc
					}
				}
			}
		})
		if call == nil {
			return "no exchange is initiated with a member of the list", nil
		}
		isCallI := func(i ssa.Instruction) bool { return i == call }
		var paths []fpath
		if origin != nil {
			paths, _ = enumPaths(origin, isCallI, nil, func(pa *fpath) bool { return len(pa.seen) > 0 }, 200)
		} else {
			paths, _ = enumPathsAt(f.Blocks[0], 0, isCallI, nil, func(pa *fpath) bool { return len(pa.seen) > 0 }, 200)
		}
		for _, pa := range paths {
			if len(pa.seen) > 0 {
				continue
			}
			if viaHelper != nil {
				// the helper decides about emptiness; the caller may skip it only by returning an error
				if pa.endWhy == "return" {
					rv := returnValues(pa.end.(*ssa.Return))
					if len(rv) > 0 && !isNilConst(rv[len(rv)-1]) {
						continue
					}
				}
				return "a path ends at " + p.pos(pa.end.Pos()) + " without handing the list to " + viaHelper.Name(), call
			}
			empty := anyFact(pa.facts, func(f Fact) bool {
				isLen := func(v ssa.Value) bool {
					cl, ok := v.(*ssa.Call)
					if !ok {
						return false
					}
					b, ok := cl.Call.Value.(*ssa.Builtin)
					return ok && b.Name() == "len" && derives(cl.Call.Args[0])
				}
				isZero := func(v ssa.Value) bool { k, ok := constInt(v); return ok && k == 0 }
				return cmpFact(f, token.LEQ, isLen, isZero) || cmpFact(f, token.EQL, isLen, isZero)
			})
			if !empty {
				return "a path with a non-empty list ends at " + p.pos(pa.end.Pos()) + " without initiating an exchange; facts " + factStrings(pa.facts), call
			}
		}
		return "", call
	}
	for _, src := range []string{"LiveNodes", "UnreachableNodes"} {
		var list *ssa.Call
		allInstrs(fn, func(i ssa.Instruction) {
			if cl, ok := i.(*ssa.Call); ok && commonName(&cl.Call) == gsFn("clusterState)."+src) {
				list = cl
			}
		})
		key := fnName(fn) + "/gossips-with-" + src
		if list == nil {
			c.fail("C03.R3", key, fn.Pos(), "the round never consults "+src+"()")
			continue
		}
		// the list is consulted in every round: only a failed exchange (an error return) may end the round earlier.
		// Unreachable nodes that are probed only when nobody is live never meet again once two halves of a
		// cluster suspect each other (each half keeps its own live peers).
		end := everyPathEntry(fn, func(in ssa.Instruction) bool {
			if in == ssa.Instruction(list) {
				return true
			}
			if r, ok := in.(*ssa.Return); ok {
				rv := returnValues(r)
				return len(rv) > 0 && !isNilConst(rv[len(rv)-1])
			}
			return false
		}, nil, true)
		why := ""
		if end != nil {
			why = "a path reaches " + p.pos(end.instr.Pos()) + " (" + end.why + ") without consulting " + src + "(): the round skips these nodes depending on the other list"
		}
		c.check(end == nil, "C03.R3", fnName(fn)+"/always-consults-"+src, list.Pos(), src+"() is consulted in every round that did not already fail", why)
		bad, call := exchangeWith(fn, list, func(v ssa.Value) bool { return derivesFromCall(v, list, 0) }, 0)
		pos := list.Pos()
		if call != nil {
			pos = call.Pos()
		}
		if bad != "" {
			bad = src + "(): " + bad
		}
		c.check(bad == "", "C03.R3", key, pos, "initiates with a member of "+src+"() whenever it is non-empty", bad)
	}
	_ = fs
}

// derivesFromValue: v is src, an element/slice/field of it.
func derivesFromValue(v ssa.Value, src ssa.Value, d int) bool {
	if d > 8 {
		return false
	}
	v = strip(v)
	if v == src {
		return true
	}
	switch x := v.(type) {
	case *ssa.UnOp:
		return derivesFromValue(x.X, src, d+1)
	case *ssa.IndexAddr:
		return derivesFromValue(x.X, src, d+1)
	case *ssa.Index:
		return derivesFromValue(x.X, src, d+1)
	case *ssa.Slice:
		return derivesFromValue(x.X, src, d+1)
	case *ssa.FieldAddr:
		return derivesFromValue(x.X, src, d+1)
	case *ssa.Field:
		return derivesFromValue(x.X, src, d+1)
	case *ssa.Alloc:
		if sv, _ := singleStore(x); sv != nil {
			return derivesFromValue(sv, src, d+1)
		}
	}
	return false
}

func derivesFromCall(v ssa.Value, call *ssa.Call, d int) bool {
	if d > 8 {
		return false
	}
	v = strip(v)
	if v == ssa.Value(call) {
		return true
	}
	switch x := v.(type) {
	case *ssa.UnOp:
		return derivesFromCall(x.X, call, d+1)
	case *ssa.IndexAddr:
		return derivesFromCall(x.X, call, d+1)
	case *ssa.Index:
		return derivesFromCall(x.X, call, d+1)
	case *ssa.Phi:
		for _, e := range x.Edges {
			if derivesFromCall(e, call, d+1) {
				return true
			}
		}
	case *ssa.Alloc:
		for _, r := range *x.Referrers() {
			if st, ok := r.(*ssa.Store); ok && st.Addr == ssa.Value(x) && derivesFromCall(st.Val, call, d+1) {
				return true
			}
		}
	}
	return false
}

// ---------------------------------------------------------------- C12

func runC12(c *Ctx) {
	driverRule(c, "C12.R6", []string{"clusterState).UpdateLiveness"})
	facadeRule(c, "C12.R6", []facadeSpec{
		{gsPkg, "accrualFailureDetector.Report", "accrualFailureDetector).ReportWithTimestamp", "time.Now", false},
		{gsPkg, "accrualFailureDetector.SuspicionLevel", "accrualFailureDetector).SuspicionLevelAt", "time.Now", true},
	})
	p := c.P
	g := newGossipAnchors(p)
	if !g.ok {
		c.fail("C12.anchor", "pkg/gossip state types", token.NoPos, "unresolved:"+g.missing)
		return
	}
	// --- R1 ---
	c.floor("C12.R1", 2)
	if fn := p.Func(gsPkg, "packetListener.delta"); fn != nil {
		c.analysed(fnName(fn))
		var dec *ssa.Call
		allInstrs(fn, func(i ssa.Instruction) {
			if cl, ok := i.(*ssa.Call); ok && strings.HasSuffix(commonName(&cl.Call), "pkg/gossip.decodeDelta") {
				dec = cl
			}
		})
		steps := []func(ssa.Instruction) bool{func(i ssa.Instruction) bool {
			cl, ok := i.(*ssa.Call)
			if !ok || !cl.Call.IsInvoke() || cl.Call.Method.Name() != "Report" {
				return false
			}
			b, ok := loadedField(cl.Call.Args[0], p.Field(gsPkg, "deltaHeader", "NodeID"))
			if !ok {
				return false
			}
			if al, ok := b.(*ssa.Alloc); ok {
				if v, _ := singleStore(al); v != nil {
					ex, ok := v.(*ssa.Extract)
					return ok && ex.Tuple == ssa.Value(dec) && ex.Index == 0
				}
			}
			return false
		}}
		onEveryOKPath(c, "C12.R1", fn, "heartbeat", steps, []string{"failureDetector.Report(header.NodeID)"})
	} else {
		c.fail("C12.anchor", "packetListener.delta", token.NoPos, "not found")
	}
	windowsF := p.Field(gsPkg, "accrualFailureDetector", "windows")
	if fn := p.Func(gsPkg, "accrualFailureDetector.ReportWithTimestamp"); fn != nil && windowsF != nil {
		c.analysed(fnName(fn))
		nodeID, ts := ssa.Value(fn.Params[1]), ssa.Value(fn.Params[2])
		isWindowOf := func(v ssa.Value) bool {
			seen := map[ssa.Value]bool{}
			var rec func(v ssa.Value) bool
			rec = func(v ssa.Value) bool {
				v = strip(v)
				if seen[v] {
					return true
				}
				seen[v] = true
				switch x := v.(type) {
				case *ssa.Phi:
					for _, e := range x.Edges {
						if !rec(e) {
							return false
						}
					}
					return true
				case *ssa.Extract:
					lk, ok := x.Tuple.(*ssa.Lookup)
					if !ok {
						return false
					}
					_, ok = loadedField(lk.X, windowsF)
					return ok && strip(lk.Index) == nodeID
				case *ssa.Call:
					// a fresh window that is stored under the node id
					if !strings.HasSuffix(commonName(&x.Call), "newArrivalWindow") {
						return false
					}
					stored := false
					for _, r := range *x.Referrers() {
						if mu, ok := r.(*ssa.MapUpdate); ok {
							if _, ok := loadedField(mu.Map, windowsF); ok && strip(mu.Key) == nodeID {
								stored = true
							}
						}
					}
					return stored
				}
				return false
			}
			return rec(v)
		}
		steps := []func(ssa.Instruction) bool{isCallTo(gsFn("arrivalWindow).Add"), func(cc *ssa.CallCommon) bool {
			return isWindowOf(cc.Args[0]) && strip(cc.Args[1]) == ts
		})}
		onEveryOKPath(c, "C12.R1", fn, "every-report-sampled", steps, []string{"windows[nodeID].Add(timestamp)"})
	} else {
		c.fail("C12.anchor", "accrualFailureDetector.ReportWithTimestamp", token.NoPos, "not found")
	}
	c12Lifecycle(c, windowsF)
	c12Window(c)
	c12Intervals(c)
	// --- R4 ---
	c.floor("C12.R4", 2)
	if fn := p.Func(gsPkg, "clusterState.UpdateLiveness"); fn != nil {
		c.analysed(fnName(fn))
		fs := computeFacts(fn)
		thr := ssa.Value(fn.Params[1])
		for _, w := range g.writes(fn) {
			if w.kind != "field:Unreachable" {
				continue
			}
			val, _ := constBool(w.val)
			facts := fs.At(w.instr.Block())
			isLevel := func(v ssa.Value) bool {
				cl, ok := v.(*ssa.Call)
				if !ok || !cl.Call.IsInvoke() || cl.Call.Method.Name() != "SuspicionLevel" {
					return false
				}
				return g.idMatches(cl.Call.Args[0], w.root)
			}
			isThr := func(v ssa.Value) bool { return v == thr }
			var ok bool
			if val {
				ok = anyFact(facts, func(f Fact) bool { return cmpFact(f, token.GTR, isLevel, isThr) })
			} else {
				ok = anyFact(facts, func(f Fact) bool { return cmpFact(f, token.LEQ, isLevel, isThr) })
			}
			c.check(ok, "C12.R4", fmt.Sprintf("%s/Unreachable=%v", fnName(fn), val), w.instr.Pos(), "decided by SuspicionLevel(id) > threshold for that very node",
				"the unreachable flag is not decided by comparing that node's suspicion level with the threshold parameter; facts "+factStrings(facts))
		}
		// the threshold actually passed is the package constant
		for _, f := range p.ModFuncs {
			if isTestFile(p.Fset, f.Pos()) {
				continue
			}
			for _, call := range findCalls(f, gsFn("clusterState).UpdateLiveness")) {
				arg := callCommon(call).Args[1]
				_, isConst := strip(arg).(*ssa.Const)
				c.check(isConst, "C12.R4", fnName(f)+"/threshold-constant", call.Pos(), "UpdateLiveness is driven with the constant suspicion threshold", "the suspicion threshold passed is not a constant")
			}
		}
	}
}

func c12Window(c *Ctx) {
	p := c.P
	c.floor("C12.R2", 4)
	lastTS := p.Field(gsPkg, "arrivalWindow", "lastTimestamp")
	boot := p.Field(gsPkg, "arrivalWindow", "bootstrapInterval")
	add := p.Func(gsPkg, "arrivalWindow.Add")
	phi := p.Func(gsPkg, "arrivalWindow.Phi")
	if lastTS == nil || boot == nil || add == nil || phi == nil {
		c.fail("C12.anchor", "arrivalWindow", token.NoPos, "type, fields or methods not found")
		return
	}
	c.analysed(fnName(add))
	c.analysed(fnName(phi))
	ts := ssa.Value(add.Params[1])
	// lastTimestamp = timestamp on every path
	steps := []func(ssa.Instruction) bool{func(i ssa.Instruction) bool {
		st, ok := i.(*ssa.Store)
		if !ok {
			return false
		}
		_, ok = addrOfField(st.Addr, lastTS)
		return ok && strip(st.Val) == ts
	}}
	onEveryOKPath(c, "C12.R2", add, "records-arrival", steps, []string{"lastTimestamp = timestamp"})
	for _, st := range p.storesToField(lastTS, false) {
		c.check(st.Fn == add, "C12.R2", "writer-of lastTimestamp/"+fnName(st.Fn), st.Instr.Pos(), "written by arrivalWindow.Add only", "lastTimestamp is written outside arrivalWindow.Add")
	}
	// elapsed(v, tsv): v == tsv.Sub(load lastTimestamp).Nanoseconds()
	elapsed := func(v, tsv ssa.Value) bool {
		ns, ok := v.(*ssa.Call)
		if !ok || commonName(&ns.Call) != "(time.Duration).Nanoseconds" {
			return false
		}
		sub, ok := ns.Call.Args[0].(*ssa.Call)
		if !ok || commonName(&sub.Call) != "(time.Time).Sub" {
			return false
		}
		if strip(sub.Call.Args[0]) != tsv {
			return false
		}
		_, ok = loadedField(sub.Call.Args[1], lastTS)
		return ok
	}
	fs := computeFacts(add)
	nAdd := 0
	var isPrevTest func(v ssa.Value, depth int) bool
	isPrevTest = func(v ssa.Value, depth int) bool {
		ac, ok := v.(*ssa.Call)
		if !ok {
			return false
		}
		if commonName(&ac.Call) == "(time.Time).After" {
			_, ok = loadedField(ac.Call.Args[0], lastTS)
			return ok && isZeroStruct(ac.Call.Args[1])
		}
		// a predicate helper all of whose returns are that test
		if sc := ac.Call.StaticCallee(); sc != nil && inModule(sc) && sc.Blocks != nil && depth < 2 {
			rets := returnsOf(sc)
			if len(rets) == 0 {
				return false
			}
			for _, r := range rets {
				rv := returnValues(r)
				if len(rv) != 1 || !isPrevTest(strip(rv[0]), depth+1) {
					return false
				}
			}
			return true
		}
		return false
	}
	hasPrevIn := func(facts []Fact, want bool) bool {
		return anyFact(facts, func(f Fact) bool { return f.T == want && isPrevTest(f.V, 0) })
	}
	allInstrs(add, func(i ssa.Instruction) {
		cl, ok := i.(*ssa.Call)
		if !ok || commonName(&cl.Call) != gsFn("arrivalIntervals).Add") {
			return
		}
		for _, alt := range valueAlternatives(cl.Call.Args[1], fs, cl.Block()) {
			nAdd++
			arg, facts := alt.v, alt.facts
			switch {
			case hasPrevIn(facts, true):
				c.check(elapsed(arg, ts), "C12.R2", fnName(add)+"/sample-is-elapsed", cl.Pos(), "sample = timestamp.Sub(lastTimestamp).Nanoseconds(), unmodified",
					"the sample fed to the window is not exactly the time since the previous arrival (clamped, scaled or taken from another clock): "+path(arg))
			case hasPrevIn(facts, false):
				good := false
				if ns, ok := arg.(*ssa.Call); ok && commonName(&ns.Call) == "(time.Duration).Nanoseconds" {
					_, good = loadedField(ns.Call.Args[0], boot)
				}
				c.check(good, "C12.R2", fnName(add)+"/first-sample-is-bootstrap", cl.Pos(), "first sample = bootstrapInterval", "the first sample is not the bootstrap interval")
			default:
				c.fail("C12.R2", fnName(add)+"/sample-arm", cl.Pos(), "a sample is added outside the two arms decided by `a previous arrival exists`")
			}
		}
	})
	if nAdd != 2 {
		c.fail("C12.R2", fnName(add)+"/arms", add.Pos(), fmt.Sprintf("expected the elapsed-time arm and the bootstrap arm, found %d window updates", nAdd))
	}
	// Phi = float64(elapsed) / Mean()
	for _, r := range returnsOf(phi) {
		rv := returnValues(r)
		good := false
		if bo, ok := rv[0].(*ssa.BinOp); ok && bo.Op == token.QUO {
			if cv, ok := bo.X.(*ssa.Convert); ok && elapsed(cv.X, ssa.Value(phi.Params[1])) {
				if mc, ok := bo.Y.(*ssa.Call); ok && commonName(&mc.Call) == gsFn("arrivalIntervals).Mean") {
					good = true
				}
			}
		}
		c.check(good, "C12.R2", fnName(phi)+"/quotient", r.Pos(), "phi = (timestamp - lastTimestamp) / mean interval", "the suspicion level is not (time since last arrival) / (mean interval)")
	}
	if mean := p.Func(gsPkg, "arrivalIntervals.Mean"); mean != nil {
		for _, r := range returnsOf(mean) {
			_, ok := loadedField(returnValues(r)[0], p.Field(gsPkg, "arrivalIntervals", "mean"))
			c.check(ok, "C12.R2", fnName(mean)+"/returns-mean", r.Pos(), "Mean() returns the maintained mean", "Mean() does not return the maintained mean field")
		}
	}
}

func c12Intervals(c *Ctx) {
	p := c.P
	c.floor("C12.R3", 7)
	f := func(n string) *types.Var { return p.Field(gsPkg, "arrivalIntervals", n) }
	ivF, idxF, fullF, sumF, meanF := f("intervals"), f("index"), f("isFull"), f("sum"), f("mean")
	if ivF == nil || idxF == nil || fullF == nil || sumF == nil || meanF == nil {
		c.fail("C12.anchor", "arrivalIntervals fields", token.NoPos, "not found")
		return
	}
	// bounded window: intervals stored once (constructor), never appended
	ivStores := p.storesToField(ivF, false)
	var slotStores []site
	for _, s := range ivStores {
		if s.Kind == "index-store" {
			slotStores = append(slotStores, s)
			continue
		}
		c.check(strings.HasPrefix(s.Fn.Name(), "new"), "C12.R3", "writer-of intervals/"+fnName(s.Fn), s.Instr.Pos(), "the window slice is allocated once by the constructor", "the window slice is replaced or grown outside the constructor: the window is no longer a bounded sample of the most recent arrivals")
	}
	if len(slotStores) == 0 {
		c.fail("C12.R3", "slot-store", token.NoPos, "no store into a window slot found")
		return
	}
	for _, s := range slotStores {
		fn := s.Fn
		c.analysed(fnName(fn))
		st := s.Instr.(*ssa.Store)
		ia := st.Addr.(*ssa.IndexAddr)
		recv, _ := loadedField(ia.X, ivF)
		_, idxIsField := loadedField(ia.Index, idxF)
		c.check(idxIsField, "C12.R3", fnName(fn)+"/slot-index", st.Pos(), "the slot written is intervals[index]", "the slot written is not intervals[index]")
		v := st.Val
		fs := computeFacts(fn)
		// (a) eviction: on every path to the slot store on which isFull holds, sum has been decreased by intervals[index]
		var evict *ssa.Store
		allInstrs(fn, func(i ssa.Instruction) {
			x, ok := i.(*ssa.Store)
			if !ok {
				return
			}
			if _, ok := addrOfField(x.Addr, sumF); !ok {
				return
			}
			bo, ok := x.Val.(*ssa.BinOp)
			if !ok || bo.Op != token.SUB {
				return
			}
			if _, ok := loadedField(bo.X, sumF); !ok {
				return
			}
			u, ok := bo.Y.(*ssa.UnOp)
			if !ok {
				return
			}
			eia, ok := u.X.(*ssa.IndexAddr)
			if !ok {
				return
			}
			if _, ok := loadedField(eia.X, ivF); !ok {
				return
			}
			if _, ok := loadedField(eia.Index, idxF); !ok {
				return
			}
			evict = x
		})
		if evict == nil {
			c.fail("C12.R3", fnName(fn)+"/evicts-overwritten-slot", st.Pos(), "no `sum -= intervals[index]` for the slot about to be overwritten: once the window is full, samples older than the window keep influencing the mean")
		} else {
			// no index store between eviction and slot store; eviction executes whenever isFull
			idxBetween := !canReachAvoiding(evict, st, func(i ssa.Instruction) bool {
				x, ok := i.(*ssa.Store)
				if !ok {
					return false
				}
				_, w := addrOfField(x.Addr, idxF)
				return w
			})
			// paths reaching the slot store without the eviction must carry isFull == false
			paths, _ := enumPathsAt(fn.Blocks[0], 0, func(i ssa.Instruction) bool { return i == ssa.Instruction(evict) || i == ssa.Instruction(st) }, nil,
				func(pa *fpath) bool { return len(pa.seen) > 0 && pa.seen[len(pa.seen)-1] == ssa.Instruction(st) }, 200)
			bad := ""
			for _, pa := range paths {
				if len(pa.seen) == 0 || pa.seen[len(pa.seen)-1] != ssa.Instruction(st) {
					continue
				}
				if len(pa.seen) == 2 {
					continue // evicted then stored
				}
				notFull := anyFact(pa.facts, func(f Fact) bool { _, ok := loadedField(f.V, fullF); return ok && !f.T })
				if !notFull {
					bad = "a path overwrites a slot of a full window without subtracting its old value from the sum; facts " + factStrings(pa.facts)
				}
			}
			// isFull must not be written between the test and the store... (wrap block sets it before the test)
			c.check(!idxBetween && bad == "", "C12.R3", fnName(fn)+"/evicts-overwritten-slot", evict.Pos(), "the old value of the very slot being overwritten leaves the sum whenever the window is full", "index changes between eviction and overwrite, or: "+bad)
		}
		// (b) after the slot store: index++ ; sum += v ; mean = float(sum)/float(size())
		incr, add, mean := false, false, false
		after := func(i ssa.Instruction) bool { return dominatesInstr(st, i) }
		allInstrs(fn, func(i ssa.Instruction) {
			x, ok := i.(*ssa.Store)
			if !ok || !after(x) {
				return
			}
			if _, ok := addrOfField(x.Addr, idxF); ok {
				if bo, ok := x.Val.(*ssa.BinOp); ok && bo.Op == token.ADD {
					if one, ok := constInt(bo.Y); ok && one == 1 {
						if _, ok := loadedField(bo.X, idxF); ok {
							incr = true
						}
					}
				}
			}
			if _, ok := addrOfField(x.Addr, sumF); ok {
				if bo, ok := x.Val.(*ssa.BinOp); ok && bo.Op == token.ADD {
					if _, ok := loadedField(bo.X, sumF); ok && bo.Y == v {
						add = true
					}
				}
			}
			if _, ok := addrOfField(x.Addr, meanF); ok {
				if bo, ok := x.Val.(*ssa.BinOp); ok && bo.Op == token.QUO {
					num, den := false, false
					if cv, ok := bo.X.(*ssa.Convert); ok {
						_, num = loadedField(cv.X, sumF)
						// the sum read must come after sum += v
					}
					if cv, ok := bo.Y.(*ssa.Convert); ok {
						if sc, ok := cv.X.(*ssa.Call); ok && commonName(&sc.Call) == gsFn("arrivalIntervals).size") {
							den = true
						}
						// size() inlined: len(intervals) when full, else index (read after the increment)
						if ph, ok := cv.X.(*ssa.Phi); ok {
							okAll := len(ph.Edges) == 2
							for k, e := range ph.Edges {
								ef := fs.OnEdge(ph.Block().Preds[k], ph.Block())
								full := anyFact(ef, func(fc Fact) bool { _, ok := loadedField(fc.V, fullF); return ok && fc.T })
								notFull := anyFact(ef, func(fc Fact) bool { _, ok := loadedField(fc.V, fullF); return ok && !fc.T })
								_, isIdx := loadedField(e, idxF)
								isLen := false
								if lc, ok := e.(*ssa.Call); ok {
									if b, ok := lc.Call.Value.(*ssa.Builtin); ok && b.Name() == "len" {
										_, isLen = loadedField(lc.Call.Args[0], ivF)
									}
								}
								if !((full && isLen) || (notFull && isIdx)) {
									okAll = false
								}
							}
							if okAll {
								den = true
							}
						}
					}
					mean = num && den
				}
			}
		})
		c.check(incr, "C12.R3", fnName(fn)+"/index-advances-by-one", st.Pos(), "index++ after the slot store", "the cursor does not advance by exactly one after each sample")
		c.check(add, "C12.R3", fnName(fn)+"/sum-gains-sample", st.Pos(), "sum += sample", "the new sample is not added to the sum")
		c.check(mean, "C12.R3", fnName(fn)+"/mean-recomputed", st.Pos(), "mean = sum / size()", "the mean is not recomputed as sum / size() after each sample")
		// (c) wrap: index = 0 and isFull = true exactly under index == len(intervals), before the slot store
		wrapOK := false
		for _, s2 := range p.storesToField(idxF, false) {
			x := s2.Instr.(*ssa.Store)
			if k, ok := constInt(x.Val); ok && k == 0 && s2.Fn == fn {
				facts := fs.At(x.Block())
				atEnd := anyFact(facts, func(fc Fact) bool {
					return cmpFact(fc, token.EQL, func(a ssa.Value) bool { _, ok := loadedField(a, idxF); return ok }, func(a ssa.Value) bool {
						cl, ok := a.(*ssa.Call)
						if !ok {
							return false
						}
						b, ok := cl.Call.Value.(*ssa.Builtin)
						if !ok || b.Name() != "len" {
							return false
						}
						_, ok = loadedField(cl.Call.Args[0], ivF)
						return ok
					}) || cmpFact(fc, token.GEQ, func(a ssa.Value) bool { _, ok := loadedField(a, idxF); return ok }, func(a ssa.Value) bool {
						cl, ok := a.(*ssa.Call)
						return ok && strings.Contains(cl.String(), "len(")
					})
				})
				full := false
				for _, in := range x.Block().Instrs {
					if y, ok := in.(*ssa.Store); ok {
						if _, ok := addrOfField(y.Addr, fullF); ok {
							if b, ok := constBool(y.Val); ok && b {
								full = true
							}
						}
					}
				}
				if atEnd && full && canReach(x, st, nil) {
					wrapOK = true
				}
			}
		}
		c.check(wrapOK, "C12.R3", fnName(fn)+"/wraps-at-capacity", st.Pos(), "index = 0 and isFull = true exactly when index == len(intervals), before the slot is written", "the cursor does not wrap to 0 and mark the window full exactly when it reaches the capacity")
		_ = recv
	}
	// size(): len(intervals) when full else index
	if size := p.Func(gsPkg, "arrivalIntervals.size"); size != nil {
		fs := computeFacts(size)
		for _, r := range returnsOf(size) {
			facts := fs.At(r.Block())
			full := anyFact(facts, func(fc Fact) bool { _, ok := loadedField(fc.V, fullF); return ok && fc.T })
			rv := returnValues(r)[0]
			var good bool
			if full {
				cl, ok := rv.(*ssa.Call)
				good = ok && strings.Contains(commonName(&cl.Call), "len")
			} else {
				_, good = loadedField(rv, idxF)
			}
			c.check(good, "C12.R3", fmt.Sprintf("%s/size[full=%v]", fnName(size), full), r.Pos(), "size = capacity when full, else index", "size() does not return the number of samples held")
		}
	}
}

type valAlt struct {
	v     ssa.Value
	facts []Fact
}

// valueAlternatives: the values v can take with the facts under which each is
// selected (one level of phi), or v itself with the facts of its use.
func valueAlternatives(v ssa.Value, fs *Facts, use *ssa.BasicBlock) []valAlt {
	if ph, ok := v.(*ssa.Phi); ok {
		var out []valAlt
		for k, e := range ph.Edges {
			out = append(out, valAlt{e, fs.OnEdge(ph.Block().Preds[k], ph.Block())})
		}
		return out
	}
	return []valAlt{{v, fs.At(use)}}
}

// c12Lifecycle (C12.R5): one window per node, created exactly when the node
// has none, kept in the table, primed with the current time, and dropped by
// Remove.
func c12Lifecycle(c *Ctx, windowsF *types.Var) {
	p := c.P
	c.floor("C12.R5", 6)
	if windowsF == nil {
		c.fail("C12.anchor", "accrualFailureDetector.windows", token.NoPos, "not found")
		return
	}
	for _, name := range []string{"accrualFailureDetector.ReportWithTimestamp", "accrualFailureDetector.SuspicionLevelAt"} {
		fn := p.Func(gsPkg, name)
		if fn == nil {
			c.fail("C12.anchor", name, token.NoPos, "not found")
			continue
		}
		c.analysed(fnName(fn))
		nodeID, ts := ssa.Value(fn.Params[1]), ssa.Value(fn.Params[2])
		fs := computeFacts(fn)
		isLookupOK := func(v ssa.Value) bool {
			ex, ok := v.(*ssa.Extract)
			if !ok || ex.Index != 1 {
				return false
			}
			lk, ok := ex.Tuple.(*ssa.Lookup)
			if !ok {
				return false
			}
			_, ok = loadedField(lk.X, windowsF)
			return ok && strip(lk.Index) == nodeID
		}
		nNew := 0
		allInstrs(fn, func(i ssa.Instruction) {
			cl, ok := i.(*ssa.Call)
			if !ok || !strings.HasSuffix(commonName(&cl.Call), "newArrivalWindow") {
				return
			}
			nNew++
			miss := anyFact(fs.At(cl.Block()), func(f Fact) bool { return isLookupOK(f.V) && !f.T })
			c.check(miss, "C12.R5", fnName(fn)+"/fresh-window-only-on-miss", cl.Pos(), "a window is created only when windows[nodeID] has none",
				"a new window replaces (or fails to replace) the node's history: it is not created exactly when the lookup of windows[nodeID] misses; facts "+factStrings(fs.At(cl.Block())))
			stored := false
			primed := false
			for _, r := range *cl.Referrers() {
				if mu, ok := r.(*ssa.MapUpdate); ok {
					if _, ok := loadedField(mu.Map, windowsF); ok && strip(mu.Key) == nodeID && strip(mu.Value) == ssa.Value(cl) {
						stored = true
					}
				}
			}
			// primed: Add(timestamp) on the fresh window (directly or after the merge) on every path to the return
			isAdd := isCallTo(gsFn("arrivalWindow).Add"), func(cc *ssa.CallCommon) bool { return strip(cc.Args[1]) == ts && flowsFrom(cc.Args[0], cl) })
			if end := everyPathFrom(cl, isAdd, nil, true); end == nil {
				primed = true
			}
			c.check(stored, "C12.R5", fnName(fn)+"/fresh-window-kept", cl.Pos(), "windows[nodeID] = window", "the new window is not stored under the node id: every report starts a new history")
			c.check(primed, "C12.R5", fnName(fn)+"/fresh-window-primed", cl.Pos(), "window.Add(timestamp) follows on every path", "a new window is used without recording the current time as its first arrival: its suspicion level is computed from the zero time")
		})
		if nNew == 0 {
			c.fail("C12.R5", fnName(fn)+"/creates-window", fn.Pos(), "no window is created for a node that has none")
		}
	}
	if fn := p.Func(gsPkg, "accrualFailureDetector.SuspicionLevelAt"); fn != nil {
		nodeID, ts := ssa.Value(fn.Params[1]), ssa.Value(fn.Params[2])
		for _, r := range returnsOf(fn) {
			rv := strip(returnValues(r)[0])
			cl, ok := rv.(*ssa.Call)
			good := ok && strings.HasSuffix(commonName(&cl.Call), "arrivalWindow).Phi") && strip(cl.Call.Args[1]) == ts && windowOf(cl.Call.Args[0], windowsF, nodeID)
			c.check(good, "C12.R5", fnName(fn)+"/phi-of-that-node-now", r.Pos(), "returns windows[nodeID].Phi(timestamp)", "the suspicion level returned is not the Phi of that node's window at the given time")
		}
	}
	// a window is discarded only by Remove: dropping it anywhere else forgets how long the peer has been silent
	for _, f2 := range pkgFuncs(p, "pkg/gossip") {
		allInstrs(f2, func(i ssa.Instruction) {
			cl, ok := i.(*ssa.Call)
			if !ok {
				return
			}
			b, ok := cl.Call.Value.(*ssa.Builtin)
			if !ok || b.Name() != "delete" {
				return
			}
			if _, ok := loadedField(cl.Call.Args[0], windowsF); !ok {
				return
			}
			c.check(baseName(topFn(f2)) == "Remove", "C12.R5", fnName(f2)+"/window-deleted-only-by-Remove", cl.Pos(), "windows are deleted by Remove only",
				"a peer's arrival window is deleted outside Remove: the next suspicion query recreates it at the query time and returns 0, so a silent peer is un-suspected")
		})
		allInstrs(f2, func(i ssa.Instruction) {
			st, ok := i.(*ssa.Store)
			if !ok {
				return
			}
			if _, ok := addrOfField(st.Addr, windowsF); ok && !strings.HasPrefix(baseName(topFn(f2)), "new") {
				c.fail("C12.R5", fnName(f2)+"/window-table-replaced", st.Pos(), "the table of arrival windows is replaced outside the constructor")
			}
		})
	}
	if fn := p.Func(gsPkg, "accrualFailureDetector.Remove"); fn != nil {
		c.analysed(fnName(fn))
		isDel := func(i ssa.Instruction) bool {
			cl, ok := i.(*ssa.Call)
			if !ok {
				return false
			}
			b, ok := cl.Call.Value.(*ssa.Builtin)
			if !ok || b.Name() != "delete" {
				return false
			}
			_, ok = loadedField(cl.Call.Args[0], windowsF)
			return ok && strip(cl.Call.Args[1]) == ssa.Value(fn.Params[1])
		}
		end := everyPathEntry(fn, isDel, nil, true)
		c.check(end == nil, "C12.R5", fnName(fn)+"/drops-window", fn.Pos(), "delete(windows, nodeID) on every path", "Remove does not drop the node's window: a node that comes back is judged by its stale history")
	} else {
		c.fail("C12.anchor", "accrualFailureDetector.Remove", token.NoPos, "not found")
	}
}

// windowOf: every input of v is windows[nodeID] or a fresh window.
func windowOf(v ssa.Value, windowsF *types.Var, nodeID ssa.Value) bool {
	seen := map[ssa.Value]bool{}
	var rec func(v ssa.Value) bool
	rec = func(v ssa.Value) bool {
		v = strip(v)
		if seen[v] {
			return true
		}
		seen[v] = true
		switch x := v.(type) {
		case *ssa.Phi:
			for _, e := range x.Edges {
				if !rec(e) {
					return false
				}
			}
			return true
		case *ssa.Extract:
			lk, ok := x.Tuple.(*ssa.Lookup)
			if !ok {
				return false
			}
			_, ok = loadedField(lk.X, windowsF)
			return ok && strip(lk.Index) == nodeID
		case *ssa.Call:
			return strings.HasSuffix(commonName(&x.Call), "newArrivalWindow")
		}
		return false
	}
	return rec(v)
}

// c03Delta (C03.R7): the reply to a digest withholds nothing it must carry:
// every digest entry of a known node yields deltaEntry(entry.ID, entry.Version),
// and the result is appended unless it has no entries. (The full-digest arm of
// the join reply - deltaEntry(id, 0) for nodes the joiner did not name - only
// speeds the joiner up and is not enforced.)
// c03EveryDatagramHandled (C03.R10): the datagram loop hands every successfully
// read packet to handlePacket. A size-, sender- or rate-based filter between the
// read and the handler drops legal packets (a delta that fills the packet
// exactly is legal and is re-sent identically until it is accepted), so the
// receiver never advances.
func c03EveryDatagramHandled(c *Ctx) {
	p := c.P
	fn := p.Func(gsPkg, "packetListener.Serve")
	if fn == nil {
		c.fail("C03.anchor", "packetListener.Serve", token.NoPos, "not found")
		return
	}
	c.analysed(fnName(fn))
	var read *ssa.Call
	allInstrs(fn, func(i ssa.Instruction) {
		if cl, ok := i.(*ssa.Call); ok && cl.Call.IsInvoke() && cl.Call.Method.Name() == "ReadFrom" {
			read = cl
		}
	})
	if read == nil {
		c.fail("C03.R10", fnName(fn)+"/read", fn.Pos(), "no ReadFrom call found in the datagram loop")
		return
	}
	isHandle := func(i ssa.Instruction) bool {
		cl, ok := i.(*ssa.Call)
		return ok && strings.HasSuffix(commonName(&cl.Call), "packetListener).handlePacket")
	}
	isRead := func(i ssa.Instruction) bool { return i == ssa.Instruction(read) }
	paths, complete := enumPaths(read, isHandle, isRead, func(fp *fpath) bool { return len(fp.seen) > 0 }, 400)
	bad := ""
	if !complete {
		bad = "too many paths"
	}
	handled := 0
	for _, pa := range paths {
		if len(pa.seen) > 0 {
			handled++
			continue
		}
		isReadErr := func(v ssa.Value) bool {
			ex, ok := v.(*ssa.Extract)
			return ok && ex.Tuple == ssa.Value(read) && ex.Index == 2
		}
		failed := anyFact(pa.facts, func(f Fact) bool {
			if cmpFact(f, token.NEQ, isReadErr, isNilConst) {
				return true
			}
			// errors.Is(err, x) / errors.As(err, &x) holding implies err != nil
			if cl, ok := f.V.(*ssa.Call); ok && f.T && len(cl.Call.Args) > 0 {
				if n := commonName(&cl.Call); (n == "errors.Is" || n == "errors.As") && isReadErr(cl.Call.Args[0]) {
					return true
				}
			}
			return false
		})
		if !failed {
			bad = "a path from the read to " + p.pos(pa.end.Pos()) + " (" + pa.endWhy + ") skips handlePacket although the read succeeded; facts " + factStrings(pa.facts)
		}
	}
	if handled == 0 && bad == "" {
		bad = "handlePacket is never called after the read"
	}
	c.check(bad == "", "C03.R10", fnName(fn)+"/every-read-handled", read.Pos(), "every successfully read datagram reaches handlePacket", "a received datagram is discarded before it is decoded: "+bad)
}

func c03Delta(c *Ctx, g *gossipAnchors) {
	p := c.P
	c.floor("C03.R7", 2)
	fn := p.Func(gsPkg, "clusterState.Delta")
	if fn == nil {
		c.fail("C03.anchor", "clusterState.Delta", token.NoPos, "not found")
		return
	}
	c.analysed(fnName(fn))
	fs := computeFacts(fn)
	isRangeOK := func(f Fact) bool {
		if ex, ok := f.V.(*ssa.Extract); ok {
			if _, isNext := ex.Tuple.(*ssa.Next); isNext && ex.Index == 0 {
				return f.T
			}
		}
		if bo, ok := f.V.(*ssa.BinOp); ok && bo.Op == token.LSS {
			if cl, ok := bo.Y.(*ssa.Call); ok {
				if b, ok := cl.Call.Value.(*ssa.Builtin); ok && b.Name() == "len" {
					_, isParam := cl.Call.Args[0].(*ssa.Parameter)
					return isParam
				}
			}
		}
		return false
	}
	entriesF := p.Field(gsPkg, "deltaEntry", "Entries")
	lenPositive := func(f Fact) bool {
		isLenOfEntries := func(v ssa.Value) bool {
			cl, ok := v.(*ssa.Call)
			if !ok {
				return false
			}
			b, ok := cl.Call.Value.(*ssa.Builtin)
			if !ok || b.Name() != "len" {
				return false
			}
			_, ok = loadedField(cl.Call.Args[0], entriesF)
			return ok
		}
		zero := func(v ssa.Value) bool { k, ok := constInt(v); return ok && k == 0 }
		one := func(v ssa.Value) bool { k, ok := constInt(v); return ok && k == 1 }
		return cmpFact(f, token.GTR, isLenOfEntries, zero) || cmpFact(f, token.NEQ, isLenOfEntries, zero) || cmpFact(f, token.GEQ, isLenOfEntries, one)
	}
	nA := 0
	allInstrs(fn, func(i ssa.Instruction) {
		cl, ok := i.(*ssa.Call)
		if !ok || !strings.HasSuffix(commonName(&cl.Call), "clusterState).deltaEntry") {
			return
		}
		id, ver := cl.Call.Args[1], cl.Call.Args[2]
		if k, isConst := constInt(ver); isConst && k == 0 {
			return // the full-digest arm
		}
		nA++
		bad := ""
		for _, f := range fs.At(cl.Block()) {
			if isRangeOK(f) {
				continue
			}
			if ex, ok := f.V.(*ssa.Extract); ok && ex.Index == 1 && f.T {
				if lk, ok := ex.Tuple.(*ssa.Lookup); ok && sameValue(lk.Index, id) {
					if _, isNodes := loadedField(lk.X, g.nodesF); isNodes {
						continue
					}
				}
			}
			if pv, ok := f.V.(*ssa.Parameter); ok && !f.T && pv.Type().Underlying() == types.Typ[types.Bool] {
				continue // e.g. an arm that is not the full-digest one
			}
			bad = "under the extra condition " + f.String()
		}
		b1, ok1 := loadedField(id, p.Field(gsPkg, "digestEntry", "ID"))
		b2, ok2 := loadedField(ver, p.Field(gsPkg, "digestEntry", "Version"))
		if !(ok1 && ok2 && strip(b1) == strip(b2)) {
			bad = "the id and version do not come from one digest entry"
		}
		c.check(bad == "", "C03.R7", fnName(fn)+"/answers-every-known-node", cl.Pos(), "deltaEntry(entry.ID, entry.Version) for every digest entry whose node is known",
			"some digest entries of known nodes are not answered, or are answered from the wrong version: "+bad)
		isAppend := func(i ssa.Instruction) bool {
			ac, ok := i.(*ssa.Call)
			if !ok {
				return false
			}
			b, ok := ac.Call.Value.(*ssa.Builtin)
			return ok && b.Name() == "append"
		}
		paths, complete := enumPaths(cl, isAppend, nil, func(fp *fpath) bool { return len(fp.seen) > 0 }, 200)
		bad2 := ""
		if !complete {
			bad2 = "too many paths"
		}
		for _, pa := range paths {
			if len(pa.seen) > 0 {
				continue
			}
			empty := anyFact(pa.facts, func(f Fact) bool { nf := f; nf.T = !f.T; return lenPositive(nf) })
			if !empty {
				bad2 = "a path from the call ends at " + p.pos(pa.end.Pos()) + " without appending the result and without knowing it is empty; facts " + factStrings(pa.facts)
			}
		}
		c.check(bad2 == "", "C03.R7", fnName(fn)+"/appended-unless-empty", cl.Pos(), "the computed entry is appended unless it has no entries", "the computed difference is dropped: "+bad2)
	})
	if nA == 0 {
		c.fail("C03.R7", fnName(fn)+"/answers-every-known-node", fn.Pos(), "no deltaEntry(entry.ID, entry.Version) call found")
	}
}

// c03NoDigestOrder (C03.R9): a digest is never sorted. When it does not fit
// into one packet only a prefix is sent; any deterministic order (by version,
// by id) makes the same nodes occupy every packet, and the others are never
// asked about. (Digest() ranges over a map and the senders shuffle: the order
// is arbitrary today.)
func c03NoDigestOrder(c *Ctx) {
	p := c.P
	digestT := p.NamedType(gsPkg, "digest")
	entryT := p.NamedType(gsPkg, "digestEntry")
	if digestT == nil || entryT == nil {
		return
	}
	bad := ""
	isDigestVal := func(v ssa.Value) bool {
		t := v.Type()
		if types.Identical(t, digestT) {
			return true
		}
		if sl, ok := t.Underlying().(*types.Slice); ok && types.Identical(sl.Elem(), entryT) {
			return true
		}
		return false
	}
	for _, fn := range pkgFuncs(p, "pkg/gossip") {
		for _, g := range withAnon(fn) {
			allInstrs(g, func(i ssa.Instruction) {
				cl, ok := i.(*ssa.Call)
				if !ok {
					return
				}
				n := commonName(&cl.Call)
				if !(strings.HasPrefix(n, "sort.") || strings.HasPrefix(n, "slices.Sort")) {
					return
				}
				for _, a := range cl.Call.Args {
					v := strip(a)
					if mi, ok := v.(*ssa.MakeInterface); ok {
						v = strip(mi.X)
					}
					if ct, ok := v.(*ssa.ChangeType); ok {
						v = strip(ct.X)
					}
					if isDigestVal(v) {
						bad = n + " on a digest at " + p.pos(cl.Pos())
					}
				}
			})
		}
	}
	c.check(bad == "", "C03.R9", "pkg/gossip/digest-never-sorted", token.NoPos, "no sort call receives a digest", "a digest is put into a deterministic order ("+bad+"): when it is truncated to the packet size the same nodes fill every packet and the rest are never requested")
}
