package main

import (
	"fmt"
	"go/constant"
	"go/token"
	"go/types"
	"sort"
	"strings"

	"golang.org/x/tools/go/ssa"
)

// ---------- value helpers ----------

// strip removes representation-only wrappers.
func strip(v ssa.Value) ssa.Value {
	for {
		switch x := v.(type) {
		case *ssa.ChangeType:
			v = x.X
		case *ssa.MakeInterface:
			v = x.X
		case *ssa.ChangeInterface:
			v = x.X
		default:
			return v
		}
	}
}

// resolveAlloc: a local Alloc written exactly once (and otherwise only read
// through loads / field addresses) stands for the stored value.
func singleStore(a *ssa.Alloc) (ssa.Value, *ssa.Store) {
	var st *ssa.Store
	for _, r := range *a.Referrers() {
		if s, ok := r.(*ssa.Store); ok && s.Addr == a {
			if st != nil {
				return nil, nil
			}
			st = s
		}
	}
	if st == nil {
		return nil, nil
	}
	return st.Val, st
}

func constString(v ssa.Value) (string, bool) {
	c, ok := strip(v).(*ssa.Const)
	if !ok || c.Value == nil || c.Value.Kind() != constant.String {
		return "", false
	}
	return constant.StringVal(c.Value), true
}

func constInt(v ssa.Value) (int64, bool) {
	v = strip(v)
	if cv, ok := v.(*ssa.Convert); ok {
		v = cv.X
	}
	c, ok := v.(*ssa.Const)
	if !ok || c.Value == nil || c.Value.Kind() != constant.Int {
		return 0, false
	}
	i, ok := constant.Int64Val(c.Value)
	return i, ok
}

func constBool(v ssa.Value) (bool, bool) {
	c, ok := strip(v).(*ssa.Const)
	if !ok || c.Value == nil || c.Value.Kind() != constant.Bool {
		return false, false
	}
	return constant.BoolVal(c.Value), true
}

func isNilConst(v ssa.Value) bool {
	c, ok := strip(v).(*ssa.Const)
	return ok && c.Value == nil
}

// fieldOfAddr returns the struct field selected by a FieldAddr / Field value.
func fieldVarOf(v ssa.Value) (*types.Var, ssa.Value) {
	switch x := v.(type) {
	case *ssa.FieldAddr:
		t := x.X.Type().Underlying().(*types.Pointer).Elem().Underlying().(*types.Struct)
		return t.Field(x.Field), x.X
	case *ssa.Field:
		t := x.X.Type().Underlying().(*types.Struct)
		return t.Field(x.Field), x.X
	}
	return nil, nil
}

// loadedField: v is a load of (possibly nested/embedded) struct field f;
// returns the base value whose field chain ends in f.
func loadedField(v ssa.Value, f *types.Var) (ssa.Value, bool) {
	v = strip(v)
	if u, ok := v.(*ssa.UnOp); ok && u.Op == token.MUL {
		if fv, base := fieldVarOf(u.X); fv == f {
			return base, true
		}
		return nil, false
	}
	if fv, base := fieldVarOf(v); fv == f {
		if _, isAddr := v.(*ssa.FieldAddr); !isAddr {
			return base, true
		}
	}
	return nil, false
}

// addrOfField: v is the address &base.f
func addrOfField(v ssa.Value, f *types.Var) (ssa.Value, bool) {
	if fa, ok := v.(*ssa.FieldAddr); ok {
		if fv, base := fieldVarOf(fa); fv == f {
			return base, true
		}
	}
	return nil, false
}

// path renders a canonical access path for value identity comparisons.
func path(v ssa.Value) string { return pathD(v, 0) }

func pathD(v ssa.Value, d int) string {
	if v == nil {
		return "<nil>"
	}
	if d > 12 {
		return fmt.Sprintf("deep@%p", v)
	}
	v = strip(v)
	switch x := v.(type) {
	case *ssa.Parameter:
		return "P:" + x.Name()
	case *ssa.FreeVar:
		return "FV:" + x.Name()
	case *ssa.Global:
		return "G:" + x.Name()
	case *ssa.Const:
		if x.Value == nil {
			return "nil"
		}
		return x.Value.ExactString()
	case *ssa.FieldAddr:
		fv, _ := fieldVarOf(x)
		return pathD(x.X, d+1) + ".&" + fv.Name()
	case *ssa.Field:
		fv, _ := fieldVarOf(x)
		return pathD(x.X, d+1) + "." + fv.Name()
	case *ssa.UnOp:
		if x.Op == token.MUL {
			return "*" + pathD(x.X, d+1)
		}
		return x.Op.String() + "(" + pathD(x.X, d+1) + ")"
	case *ssa.IndexAddr:
		return pathD(x.X, d+1) + "[&" + pathD(x.Index, d+1) + "]"
	case *ssa.Index:
		return pathD(x.X, d+1) + "[" + pathD(x.Index, d+1) + "]"
	case *ssa.Lookup:
		return pathD(x.X, d+1) + "[" + pathD(x.Index, d+1) + "]"
	case *ssa.Extract:
		if lk, ok := x.Tuple.(*ssa.Lookup); ok && x.Index == 0 {
			return pathD(lk, d+1)
		}
		return fmt.Sprintf("%s#%d", pathD(x.Tuple, d+1), x.Index)
	case *ssa.BinOp:
		return "(" + pathD(x.X, d+1) + " " + x.Op.String() + " " + pathD(x.Y, d+1) + ")"
	case *ssa.Convert:
		return "conv(" + pathD(x.X, d+1) + ")"
	case *ssa.Slice:
		s := pathD(x.X, d+1) + "["
		if x.Low != nil {
			s += pathD(x.Low, d+1)
		}
		s += ":"
		if x.High != nil {
			s += pathD(x.High, d+1)
		}
		return s + "]"
	case *ssa.Alloc:
		if !x.Heap {
			if val, _ := singleStore(x); val != nil && onlyLoadsAndFieldReads(x) {
				return "&(" + pathD(val, d+1) + ")"
			}
		}
		return fmt.Sprintf("alloc:%s@%p", x.Comment, x)
	case *ssa.Call:
		if x.Call.IsInvoke() && pureAccessor(x.Call.Method) && len(x.Call.Args) == 0 {
			return "acc:" + x.Call.Method.Name() + "(" + pathD(x.Call.Value, d+1) + ")"
		}
		if cal := x.Call.StaticCallee(); cal != nil && cal.Object() != nil {
			if fn, ok := cal.Object().(*types.Func); ok && pureAccessor(fn) && len(x.Call.Args) == 1 {
				return "acc:" + fn.Name() + "(" + pathD(x.Call.Args[0], d+1) + ")"
			}
		}
		if b, ok := x.Call.Value.(*ssa.Builtin); ok && b.Name() == "len" {
			return "len(" + pathD(x.Call.Args[0], d+1) + ")"
		}
		return fmt.Sprintf("call:%s@%p", callName(x), x)
	}
	return fmt.Sprintf("%T@%p", v, v)
}

func onlyLoadsAndFieldReads(a *ssa.Alloc) bool {
	stores := 0
	for _, r := range *a.Referrers() {
		switch x := r.(type) {
		case *ssa.Store:
			if x.Addr == a {
				stores++
			} else {
				return false // address escapes into memory
			}
		case *ssa.UnOp, *ssa.FieldAddr, *ssa.DebugRef:
		default:
			return false
		}
	}
	return stores == 1
}

// pureAccessor: Upstream.EndpointID() — its implementations return a
// constructor-set field with no other store (checked by rule C01.R1e).
func pureAccessor(fn *types.Func) bool {
	if fn == nil || fn.Pkg() == nil {
		return false
	}
	return fn.Name() == "EndpointID" && fn.Pkg().Path() == modPath+"/server/upstream"
}

// sameValue: value identity modulo wrappers, access paths and pure accessors.
func sameValue(a, b ssa.Value) bool {
	if strip(a) == strip(b) {
		return true
	}
	// opaque values are rendered with their (unique) address, so equal strings
	// mean the same SSA value or the same access path rooted in the same value
	return path(a) == path(b)
}

// ---------- call helpers ----------

func callCommon(i ssa.Instruction) *ssa.CallCommon {
	if c, ok := i.(ssa.CallInstruction); ok {
		return c.Common()
	}
	return nil
}

// callName: fully qualified callee for static calls, "invoke pkg.Iface.Method"
// for interface calls, "builtin name", or "dynamic".
func callName(i ssa.Instruction) string {
	cc := callCommon(i)
	if cc == nil {
		return ""
	}
	return commonName(cc)
}

func commonName(cc *ssa.CallCommon) string {
	if cc.IsInvoke() {
		return "invoke " + cc.Method.FullName()
	}
	if b, ok := cc.Value.(*ssa.Builtin); ok {
		return "builtin " + b.Name()
	}
	if f := cc.StaticCallee(); f != nil {
		if o := f.Origin(); o != nil {
			f = o
		}
		if old, ok := renamed[f]; ok {
			return old
		}
		if f.Object() != nil {
			return f.Object().(*types.Func).FullName()
		}
		return f.String()
	}
	return "dynamic"
}

// recvAndArgs returns receiver (nil if none) and the remaining args.
func recvAndArgs(cc *ssa.CallCommon) (ssa.Value, []ssa.Value) {
	if cc.IsInvoke() {
		return cc.Value, cc.Args
	}
	if f := cc.StaticCallee(); f != nil && f.Signature.Recv() != nil && len(cc.Args) > 0 {
		return cc.Args[0], cc.Args[1:]
	}
	return nil, cc.Args
}

func isCall(i ssa.Instruction, names ...string) bool {
	n := callName(i)
	if n == "" {
		return false
	}
	for _, want := range names {
		if n == want {
			return true
		}
	}
	return false
}

// allInstrs iterates the instructions of a function, skipping the recover block.
func allInstrs(f *ssa.Function, fn func(ssa.Instruction)) {
	for _, b := range f.Blocks {
		if b == f.Recover {
			continue
		}
		for _, i := range b.Instrs {
			fn(i)
		}
	}
}

// findCalls returns call instructions (Call, Defer, Go) in f whose callee name
// is one of names.
func findCalls(f *ssa.Function, names ...string) []ssa.Instruction {
	var out []ssa.Instruction
	allInstrs(f, func(i ssa.Instruction) {
		if isCall(i, names...) {
			out = append(out, i)
		}
	})
	return out
}

// withAnon returns f and all functions nested in it.
func withAnon(f *ssa.Function) []*ssa.Function {
	out := []*ssa.Function{f}
	for _, a := range f.AnonFuncs {
		out = append(out, withAnon(a)...)
	}
	return out
}

// ---------- facts (guard dominance) ----------

// Fact is a branch condition with the polarity taken.
type Fact struct {
	V ssa.Value
	T bool
}

func mkFact(cond ssa.Value, taken bool) Fact {
	for {
		if u, ok := cond.(*ssa.UnOp); ok && u.Op == token.NOT {
			cond = u.X
			taken = !taken
			continue
		}
		return Fact{cond, taken}
	}
}

var negOp = map[token.Token]token.Token{
	token.EQL: token.NEQ, token.NEQ: token.EQL,
	token.LSS: token.GEQ, token.GEQ: token.LSS,
	token.GTR: token.LEQ, token.LEQ: token.GTR,
}

// Cmp: the fact as a comparison with polarity folded in.
func (f Fact) Cmp() (token.Token, ssa.Value, ssa.Value, bool) {
	b, ok := f.V.(*ssa.BinOp)
	if !ok {
		return 0, nil, nil, false
	}
	op := b.Op
	if _, isCmp := negOp[op]; !isCmp {
		return 0, nil, nil, false
	}
	if !f.T {
		op = negOp[op]
	}
	return op, b.X, b.Y, true
}

func (f Fact) String() string {
	if op, x, y, ok := f.Cmp(); ok {
		return path(x) + " " + op.String() + " " + path(y)
	}
	if f.T {
		return path(f.V)
	}
	return "!" + path(f.V)
}

type factSet map[Fact]bool

// Facts holds, per basic block, the branch facts that hold on every path from
// the function entry to the start of the block.
type Facts struct {
	fn *ssa.Function
	in map[*ssa.BasicBlock]factSet
}

func edgeFact(p, s *ssa.BasicBlock) (Fact, bool) {
	if len(p.Instrs) == 0 {
		return Fact{}, false
	}
	iff, ok := p.Instrs[len(p.Instrs)-1].(*ssa.If)
	if !ok || p.Succs[0] == p.Succs[1] {
		return Fact{}, false
	}
	if p.Succs[0] == s {
		return mkFact(iff.Cond, true), true
	}
	return mkFact(iff.Cond, false), true
}

func computeFacts(fn *ssa.Function) *Facts {
	fs := &Facts{fn: fn, in: map[*ssa.BasicBlock]factSet{}}
	if len(fn.Blocks) == 0 {
		return fs
	}
	reach := reachableBlocks(fn)
	// nil set = TOP (not yet computed)
	fs.in[fn.Blocks[0]] = factSet{}
	changed := true
	for changed {
		changed = false
		for _, b := range fn.Blocks {
			if !reach[b] || b == fn.Blocks[0] {
				continue
			}
			var acc factSet
			first := true
			for _, p := range b.Preds {
				if !reach[p] {
					continue
				}
				pin, ok := fs.in[p]
				if !ok {
					continue // TOP: neutral for intersection
				}
				out := factSet{}
				for f := range pin {
					out[f] = true
				}
				if ef, ok := edgeFact(p, b); ok {
					out[ef] = true
				}
				if first {
					acc = out
					first = false
				} else {
					for f := range acc {
						if !out[f] {
							delete(acc, f)
						}
					}
				}
			}
			if first {
				continue
			}
			old, had := fs.in[b]
			if !had || len(old) != len(acc) {
				fs.in[b] = acc
				changed = true
			}
		}
	}
	return fs
}

func reachableBlocks(fn *ssa.Function) map[*ssa.BasicBlock]bool {
	seen := map[*ssa.BasicBlock]bool{}
	var walk func(b *ssa.BasicBlock)
	walk = func(b *ssa.BasicBlock) {
		if seen[b] {
			return
		}
		seen[b] = true
		for _, s := range b.Succs {
			walk(s)
		}
	}
	if len(fn.Blocks) > 0 {
		walk(fn.Blocks[0])
	}
	return seen
}

// At returns the facts holding at the start of block b (sorted for stability).
func (fs *Facts) At(b *ssa.BasicBlock) []Fact {
	var out []Fact
	for f := range fs.in[b] {
		out = append(out, f)
	}
	sort.Slice(out, func(i, j int) bool { return out[i].String() < out[j].String() })
	return out
}

// OnEdge returns the facts holding when control flows p→s.
func (fs *Facts) OnEdge(p, s *ssa.BasicBlock) []Fact {
	out := fs.At(p)
	if ef, ok := edgeFact(p, s); ok {
		out = append(out, ef)
	}
	return out
}

func anyFact(fs []Fact, pred func(Fact) bool) bool {
	for _, f := range fs {
		if pred(f) {
			return true
		}
	}
	return false
}

func factStrings(fs []Fact) string {
	var s []string
	for _, f := range fs {
		s = append(s, f.String())
	}
	return "{" + strings.Join(s, "; ") + "}"
}

// cmpFact matches a comparison fact `x op y` (either operand order, with the
// operator mirrored) where px(x) and py(y) hold.
func cmpFact(f Fact, op token.Token, px, py func(ssa.Value) bool) bool {
	o, x, y, ok := f.Cmp()
	if !ok {
		return false
	}
	if o == op && px(x) && py(y) {
		return true
	}
	mir := map[token.Token]token.Token{token.EQL: token.EQL, token.NEQ: token.NEQ, token.LSS: token.GTR, token.GTR: token.LSS, token.LEQ: token.GEQ, token.GEQ: token.LEQ}
	return mir[o] == op && px(y) && py(x)
}

// ---------- CFG path queries ----------

type pathEnd struct {
	instr ssa.Instruction
	why   string
}

// everyPathFrom walks forward from the instruction after `from`. A path is
// satisfied when it meets an instruction with hit()==true; it fails when it
// meets bad()==true first or reaches a Return first. Paths ending in Panic are
// ignored when panicOK. Returns the first failing end, or nil.
func everyPathFrom(from ssa.Instruction, hit, bad func(ssa.Instruction) bool, panicOK bool) *pathEnd {
	return everyPathAt(from.Block(), indexOf(from)+1, hit, bad, panicOK)
}

// everyPathEntry: every path from the function entry (first instruction included).
func everyPathEntry(fn *ssa.Function, hit, bad func(ssa.Instruction) bool, panicOK bool) *pathEnd {
	return everyPathAt(fn.Blocks[0], 0, hit, bad, panicOK)
}

func everyPathAt(b *ssa.BasicBlock, idx0 int, hit, bad func(ssa.Instruction) bool, panicOK bool) *pathEnd {
	type pos struct {
		b *ssa.BasicBlock
	}
	seen := map[*ssa.BasicBlock]bool{}
	var fail *pathEnd
	var scan func(b *ssa.BasicBlock, start int) bool // returns false on failure
	scan = func(b *ssa.BasicBlock, start int) bool {
		for i := start; i < len(b.Instrs); i++ {
			in := b.Instrs[i]
			if hit(in) {
				return true
			}
			if bad != nil && bad(in) {
				fail = &pathEnd{in, "reached before the required instruction"}
				return false
			}
			switch in.(type) {
			case *ssa.Return:
				fail = &pathEnd{in, "function returns without the required instruction"}
				return false
			case *ssa.Panic:
				if panicOK {
					return true
				}
				fail = &pathEnd{in, "panics without the required instruction"}
				return false
			}
		}
		for _, s := range b.Succs {
			if seen[s] {
				continue
			}
			seen[s] = true
			if !scan(s, 0) {
				return false
			}
		}
		return true
	}
	scan(b, idx0)
	return fail
}

func indexOf(i ssa.Instruction) int {
	for k, x := range i.Block().Instrs {
		if x == i {
			return k
		}
	}
	return -1
}

// canReach: is there a CFG path from just after `from` to `to` that avoids
// instructions satisfying avoid?
func canReach(from, to ssa.Instruction, avoid func(ssa.Instruction) bool) bool {
	seen := map[*ssa.BasicBlock]bool{}
	var scan func(b *ssa.BasicBlock, start int) bool
	scan = func(b *ssa.BasicBlock, start int) bool {
		for i := start; i < len(b.Instrs); i++ {
			in := b.Instrs[i]
			if in == to {
				return true
			}
			if avoid != nil && avoid(in) {
				return false
			}
		}
		for _, s := range b.Succs {
			if seen[s] {
				continue
			}
			seen[s] = true
			if scan(s, 0) {
				return true
			}
		}
		return false
	}
	return scan(from.Block(), indexOf(from)+1)
}

// blockReaches: can control flow from the start of block a reach instruction to?
func blockReaches(a *ssa.BasicBlock, to ssa.Instruction, avoid func(ssa.Instruction) bool) bool {
	seen := map[*ssa.BasicBlock]bool{a: true}
	var scan func(b *ssa.BasicBlock) bool
	scan = func(b *ssa.BasicBlock) bool {
		for _, in := range b.Instrs {
			if in == to {
				return true
			}
			if avoid != nil && avoid(in) {
				return false
			}
		}
		for _, s := range b.Succs {
			if seen[s] {
				continue
			}
			seen[s] = true
			if scan(s) {
				return true
			}
		}
		return false
	}
	return scan(a)
}

// dominatesInstr: a executes before b on every path from entry to b.
func dominatesInstr(a, b ssa.Instruction) bool {
	if a.Block() == b.Block() {
		return indexOf(a) < indexOf(b)
	}
	return a.Block().Dominates(b.Block())
}

// returnsOf lists the Return instructions of a function.
func returnsOf(f *ssa.Function) []*ssa.Return {
	var out []*ssa.Return
	allInstrs(f, func(i ssa.Instruction) {
		if r, ok := i.(*ssa.Return); ok {
			out = append(out, r)
		}
	})
	return out
}

// ---------- whole-module queries ----------

type site struct {
	Fn    *ssa.Function
	Instr ssa.Instruction
	Kind  string
}

// storesToField lists every instruction in module (non-test) functions that
// writes the given struct field: Store through FieldAddr, MapUpdate / delete /
// IndexAddr-store on the loaded field.
func (p *Prog) storesToField(f *types.Var, includeTests bool) []site {
	var out []site
	for _, fn := range p.ModFuncs {
		if !includeTests && isTestFile(p.Fset, fn.Pos()) {
			continue
		}
		allInstrs(fn, func(i ssa.Instruction) {
			switch x := i.(type) {
			case *ssa.Store:
				if _, ok := addrOfField(x.Addr, f); ok {
					out = append(out, site{fn, i, "store"})
				} else if ia, ok := x.Addr.(*ssa.IndexAddr); ok {
					if _, ok := loadedField(ia.X, f); ok {
						out = append(out, site{fn, i, "index-store"})
					}
				}
			case *ssa.MapUpdate:
				if _, ok := loadedField(x.Map, f); ok {
					out = append(out, site{fn, i, "map-update"})
				}
			case *ssa.Call:
				if b, ok := x.Call.Value.(*ssa.Builtin); ok && b.Name() == "delete" {
					if _, ok := loadedField(x.Call.Args[0], f); ok {
						out = append(out, site{fn, i, "map-delete"})
					}
				}
			}
		})
	}
	return out
}

func fnName(f *ssa.Function) string {
	s := f.String()
	if top := topFn(f); top != nil {
		if old, ok := renamed[top]; ok {
			s = old + strings.TrimPrefix(s, top.String())
		}
	}
	s = strings.ReplaceAll(s, modPath+"/", "")
	s = strings.ReplaceAll(s, modPath, "piko")
	return s
}

// shortFn: the enclosing named function (for closures) in short form.
func topFn(f *ssa.Function) *ssa.Function {
	for f.Parent() != nil {
		f = f.Parent()
	}
	return f
}

type fieldStore struct {
	f  *types.Var
	st *ssa.Store
}

// fieldStores lists the stores into individual fields of a local struct variable.
func fieldStores(a *ssa.Alloc) []fieldStore {
	var out []fieldStore
	for _, r := range *a.Referrers() {
		fa, ok := r.(*ssa.FieldAddr)
		if !ok {
			continue
		}
		fv, _ := fieldVarOf(fa)
		for _, rr := range *fa.Referrers() {
			if st, ok := rr.(*ssa.Store); ok && st.Addr == ssa.Value(fa) {
				out = append(out, fieldStore{fv, st})
			}
		}
	}
	return out
}

// returnValues resolves defer-spilled results: in a function with defers a
// `return x, y` is lowered to stores into result allocs, rundefers, loads.
func returnValues(r *ssa.Return) []ssa.Value {
	out := make([]ssa.Value, len(r.Results))
	for k, v := range r.Results {
		out[k] = v
		u, ok := v.(*ssa.UnOp)
		if !ok || u.Op != token.MUL {
			continue
		}
		al, ok := u.X.(*ssa.Alloc)
		if !ok {
			continue
		}
		b := r.Block()
		for i := indexOf(r) - 1; i >= 0; i-- {
			if st, ok := b.Instrs[i].(*ssa.Store); ok && st.Addr == ssa.Value(al) {
				out[k] = st.Val
				break
			}
		}
	}
	return out
}

// infeasible: the facts contain the same comparison of the same SSA values
// (or equal constants) with both outcomes — no execution takes such a path.
func infeasible(facts []Fact) bool {
	same := func(a, b ssa.Value) bool {
		if a == b {
			return true
		}
		ca, ok1 := a.(*ssa.Const)
		cb, ok2 := b.(*ssa.Const)
		if ok1 && ok2 && ca.Value != nil && cb.Value != nil {
			return ca.Value.ExactString() == cb.Value.ExactString() && types.Identical(ca.Type(), cb.Type())
		}
		return false
	}
	for i, f := range facts {
		op1, x1, y1, ok := f.Cmp()
		if !ok {
			continue
		}
		for _, g := range facts[i+1:] {
			op2, x2, y2, ok := g.Cmp()
			if !ok {
				continue
			}
			if same(x1, x2) && same(y1, y2) && op2 == negOp[op1] {
				return true
			}
		}
	}
	return false
}

// holdsUp: pred holds for `base` with the facts at block blk of fn, or - when
// base is (the spill cell of) a parameter of an unexported function - at every
// non-test call site, for the argument bound to that parameter (followed at
// most three calls up). This is what makes a guard that sits in the caller of
// an extracted helper count for the helper's body.
func (p *Prog) holdsUp(fn *ssa.Function, blk *ssa.BasicBlock, base ssa.Value, pred func(base ssa.Value, facts []Fact) bool, depth int) bool {
	if pred(base, computeFacts(fn).At(blk)) {
		return true
	}
	if depth >= 3 || fn.Object() == nil || fn.Object().Exported() {
		return false
	}
	var pv *ssa.Parameter
	switch x := strip(base).(type) {
	case *ssa.Parameter:
		pv = x
	case *ssa.Alloc:
		if sv, _ := singleStore(x); sv != nil {
			pv, _ = sv.(*ssa.Parameter)
		}
	}
	if pv == nil || pv.Parent() != fn {
		return false
	}
	idx := -1
	for k, pp := range fn.Params {
		if pp == pv {
			idx = k
		}
	}
	sites := 0
	for _, e := range p.callersOf(fn) {
		cf := e.Caller.Func
		if cf == nil || isTestFile(p.Fset, cf.Pos()) || e.Site == nil || !inModule(cf) {
			continue
		}
		args := e.Site.Common().Args
		if idx < 0 || idx >= len(args) {
			return false
		}
		sites++
		arg := strip(args[idx])
		argBase := arg
		if u, ok := arg.(*ssa.UnOp); ok && u.Op == token.MUL {
			argBase = u.X
		}
		if !p.holdsUp(cf, e.Site.Block(), argBase, pred, depth+1) {
			return false
		}
	}
	return sites > 0
}

// onEveryFeasiblePath: every feasible path from the entry of fn to `at` carries,
// for each predicate, a fact satisfying it. This is the path-sensitive fallback
// for guards that were merged into compound conditions (`a && b` leaves no
// single dominating fact for "not b" on the fall-through side) - decided from
// the edge facts of each enumerated path, contradictory paths pruned.
func onEveryFeasiblePath(fn *ssa.Function, at ssa.Instruction, preds ...func(Fact) bool) bool {
	paths, complete := enumPathsAt(fn.Blocks[0], 0, nil, func(i ssa.Instruction) bool { return i == at }, nil, 2000)
	if !complete {
		return false
	}
	reached := 0
	for _, pa := range paths {
		if pa.endWhy != "stop" || infeasible(pa.facts) {
			continue
		}
		reached++
		for _, pr := range preds {
			if !anyFact(pa.facts, pr) {
				return false
			}
		}
	}
	return reached > 0
}
