package main

import (
	"fmt"
	"go/token"
	"strings"

	"golang.org/x/tools/go/ssa"
)

const forwardHeader = "x-piko-forward"

func init() {
	register(&propDef{
		id: "C06",
		meta: propMeta{
			explanation: "Decides 'at most one inter-node hop; local first' structurally: (R1) every call of Manager.Select in the module passes allowForward = !(request.Header.Get(\"x-piko-forward\") == \"true\") computed on the handler's own request - no other call site exists; (R2) the one function that hands a request to the proxy's httputil.ReverseProxy sets that same header to \"true\" on the request before the call on every path; (R3) an Upstream is dialled directly only inside the transport's dial hook or under the fact u.Forward() == false, and Forward() is constant per implementation, so a remote node is only ever reached through the marked request of R2; (R4) Select returns the local upstream whenever one exists and a remote node only when allowed (same rule as C15.R2); (R5) LookupEndpoint never returns the local node (C04.R1). Given R1-R5 a request that carries the marker is never given a remote upstream, and every request piko sends to another node carries it. (R6) is the residual assumption made explicit: the marker must be written where net/http/httputil cannot strip it; on this tree it is written on the inbound header map, which a client `Connection: x-piko-forward` header makes httputil remove - reported as KNOWN-FINDING H1 (bounded: one extra hop, no loop).",
			ruleText:    "obligation = one call site / dominance check / implementation; distinct = distinct keys",
			assumptions: []string{"httputil.ReverseProxy in Director mode removes hop-by-hop headers, including those named in Connection, after Director returns (net/http/httputil source)"},
		},
		run: runC06,
		mutants: []mutant{
			{Name: "Select(endpointID, true)", File: "server/proxy/httpproxy.go", Old: "upstream, ok := p.upstreams.Select(endpointID, !forwarded)", New: "upstream, ok := p.upstreams.Select(endpointID, true || !forwarded)", Rule: "C06.R1"},
			{Name: "marker Set deleted", File: "server/proxy/httpproxy.go", Old: "\tr.Header.Set(\"x-piko-forward\", \"true\")\n", New: "", Rule: "C06.R2"},
			{Name: "marker renamed on the writing side", File: "server/proxy/httpproxy.go", Old: "\tr.Header.Set(\"x-piko-forward\", \"true\")\n", New: "\tr.Header.Set(\"x-piko-forwarded\", \"true\")\n", Rule: "C06.R2"},
			{Name: "raw Dial of a node upstream in the TCP path", File: "server/proxy/tcpproxy.go", Old: "\tif u.Forward() {\n\t\tp.httpProxy.ServeHTTPWithUpstream(w, r, endpointID, u)\n\t\treturn\n\t}\n", New: "", Rule: "C06.R3"},
			{Name: "remote looked up before local", File: "server/upstream/manager.go", Old: "\tlb, ok := m.localUpstreams[endpointID]\n\tif ok {\n\t\tm.metrics.UpstreamRequestsTotal.Inc()\n\t\treturn lb.Next(), true\n\t}\n\tif !allowRemote {\n\t\treturn nil, false\n\t}\n", New: "\tif allowRemote {\n\t\tif node, ok := m.cluster.LookupEndpoint(endpointID); ok {\n\t\t\treturn NewNodeUpstream(endpointID, node, m.tlsConfig), true\n\t\t}\n\t}\n\tlb, ok := m.localUpstreams[endpointID]\n\tif ok {\n\t\tm.metrics.UpstreamRequestsTotal.Inc()\n\t\treturn lb.Next(), true\n\t}\n\tif !allowRemote {\n\t\treturn nil, false\n\t}\n", Rule: "C06.R4"},
			{Name: "retry with another upstream after ErrGone", File: "server/proxy/httpproxy.go", Old: "\t\tp.upstreams.RemoveConn(u)\n\t}\n\treturn c, err\n", New: "\t\tp.upstreams.RemoveConn(u)\n\t\tif u2, ok := p.upstreams.Select(u.EndpointID(), true); ok {\n\t\t\treturn u2.Dial()\n\t\t}\n\t}\n\treturn c, err\n", Rule: "C06.R1"},
			{Name: "marker only set for node upstreams in the HTTP entry", File: "server/proxy/httpproxy.go", Old: "\tr.Header.Set(\"x-piko-forward\", \"true\")\n", New: "\tif upstream.Forward() && endpointID != \"\" {\n\t\tr.Header.Set(\"x-piko-forward\", \"true\")\n\t}\n", Rule: "C06.R2"},
			{Name: "forwarded compared case-sensitively to True", File: "server/proxy/tcpproxy.go", Old: "forwarded := r.Header.Get(\"x-piko-forward\") == \"true\"", New: "forwarded := r.Header.Get(\"x-piko-forward\") == \"True\"", Rule: "C06.R1"},
			{Name: "benign: forwarded computed in a helper", Benign: true, File: "server/proxy/tcpproxy.go", Old: "\tforwarded := r.Header.Get(\"x-piko-forward\") == \"true\"\n", New: "\tfwd := r.Header.Get(\"x-piko-forward\")\n\tforwarded := fwd == \"true\"\n"},
		},
	})
}

func runC06(c *Ctx) {
	c06R1(c, "C06.R1")
	c06R2(c)
	c06R3(c)
	c15R2(c, "C06.R4")
	c04R1(c)
	// nothing on the handler chain removes the marker from the live request
	c08R2(c)
}

// isForwardedTest: v == (req.Header.Get("x-piko-forward") == "true")
func isForwardedTest(v ssa.Value, fn *ssa.Function) bool {
	bo, ok := v.(*ssa.BinOp)
	if !ok || bo.Op != token.EQL {
		return false
	}
	get, k := bo.X, bo.Y
	if _, isC := k.(*ssa.Const); !isC {
		get, k = bo.Y, bo.X
	}
	if s, ok := constString(k); !ok || s != "true" {
		return false
	}
	cl, ok := get.(*ssa.Call)
	if !ok || commonName(&cl.Call) != "(net/http.Header).Get" {
		return false
	}
	name, ok := constString(cl.Call.Args[1])
	if !ok || !strings.EqualFold(name, forwardHeader) {
		return false
	}
	// header of a *http.Request parameter of this function
	return strings.HasPrefix(path(cl.Call.Args[0]), "*P:") && strings.HasSuffix(path(cl.Call.Args[0]), ".&Header")
}

func c06R1(c *Ctx, rule string) {
	p := c.P
	n := 0
	for _, fn := range p.ModFuncs {
		if isTestFile(p.Fset, fn.Pos()) {
			continue
		}
		allInstrs(fn, func(i ssa.Instruction) {
			cc := callCommon(i)
			if cc == nil {
				return
			}
			name := commonName(cc)
			isSel := (cc.IsInvoke() && cc.Method.Name() == "Select" && strings.Contains(cc.Method.FullName(), "server/upstream.Manager")) ||
				strings.HasSuffix(name, "upstream.LoadBalancedManager).Select")
			if !isSel {
				return
			}
			n++
			var allow ssa.Value
			if cc.IsInvoke() {
				allow = cc.Args[1]
			} else {
				allow = cc.Args[2]
			}
			good := false
			if u, ok := allow.(*ssa.UnOp); ok && u.Op == token.NOT {
				good = isForwardedTest(u.X, fn)
			}
			c.analysed(fnName(fn))
			c.check(good, rule, fnName(fn)+"/Select-allowForward", i.Pos(), "allowForward = !(r.Header.Get(\"x-piko-forward\") == \"true\") on the handler's own request",
				"an upstream is selected with a forwarding permission that is not the negation of the request's x-piko-forward marker ("+path(allow)+"): an already-forwarded request can be given a remote node")
		})
	}
	if n < 2 {
		c.fail(rule, "Select-call-sites", token.NoPos, fmt.Sprintf("found %d call sites of Manager.Select, expected the HTTP and the TCP route", n))
	}
	c.floor(rule, 2)
}

func c06R2(c *Ctx) {
	p := c.P
	c.floor("C06.R2", 1)
	proxyF := p.Field("server/proxy", "HTTPProxy", "proxy")
	n := 0
	for _, fn := range p.ModFuncs {
		if isTestFile(p.Fset, fn.Pos()) {
			continue
		}
		for _, call := range findCalls(fn, "(*net/http/httputil.ReverseProxy).ServeHTTP") {
			cc := callCommon(call)
			if _, ok := loadedField(cc.Args[0], proxyF); !ok {
				continue
			}
			n++
			c.analysed(fnName(fn))
			// a Header.Set(marker,"true") on the function's request parameter dominating the call
			var set ssa.Instruction
			allInstrs(fn, func(i ssa.Instruction) {
				cl, ok := i.(*ssa.Call)
				if !ok || commonName(&cl.Call) != "(net/http.Header).Set" {
					return
				}
				k, ok1 := constString(cl.Call.Args[1])
				v, ok2 := constString(cl.Call.Args[2])
				if ok1 && ok2 && strings.EqualFold(k, forwardHeader) && v == "true" && dominatesInstr(cl, call) {
					set = cl
				}
			})
			key := fnName(fn) + "/marks-before-hop"
			if set == nil {
				c.fail("C06.R2", key, call.Pos(), "a request is handed to the inter-node reverse proxy without x-piko-forward: true being set on every path before: the receiving node may forward it again")
				continue
			}
			// the marked header belongs to the request that is proxied (same *Request or one derived by WithContext, which shares the header map)
			hdr := callCommon(set).Args[0]
			reqOK := strings.HasSuffix(path(hdr), ".&Header") && derivesFromRequest(cc.Args[2], hdr)
			c.check(reqOK, "C06.R2", key, set.Pos(), "x-piko-forward: true is set on the proxied request on every path before the hop", "the marker is set on a different request than the one proxied")
			// R6: where httputil cannot strip it
			inRewrite := markerSetBeyondStripping(p)
			c.check(inRewrite, "C06.R6", fnName(fn)+"/marker-survives-transport", set.Pos(), "", "the marker is set on the inbound header map before ReverseProxy.ServeHTTP; httputil (Director mode) removes headers named in the client's Connection header afterwards, so `Connection: x-piko-forward` strips it")
		}
	}
	if n == 0 {
		c.fail("C06.R2", "hop-call-site", token.NoPos, "no call of the inter-node ReverseProxy found")
	}
}

// derivesFromRequest: req is the request whose header map is hdr, possibly
// through r.WithContext(..) (shallow copies share the header map) and phis.
func derivesFromRequest(req, hdr ssa.Value) bool {
	// hdr = *(&R.Header): find R
	u, ok := strip(hdr).(*ssa.UnOp)
	if !ok {
		return false
	}
	fa, ok := u.X.(*ssa.FieldAddr)
	if !ok {
		return false
	}
	R := fa.X
	seen := map[ssa.Value]bool{}
	var from func(v ssa.Value) bool // v derives from the original parameter
	root := func(v ssa.Value) ssa.Value {
		for {
			v = strip(v)
			if cl, ok := v.(*ssa.Call); ok && commonName(&cl.Call) == "(*net/http.Request).WithContext" {
				v = cl.Call.Args[0]
				continue
			}
			return v
		}
	}
	from = func(v ssa.Value) bool {
		v = root(v)
		if seen[v] {
			return true
		}
		seen[v] = true
		if _, ok := v.(*ssa.Parameter); ok {
			return true
		}
		if ph, ok := v.(*ssa.Phi); ok {
			for _, e := range ph.Edges {
				if !from(e) {
					return false
				}
			}
			return true
		}
		return false
	}
	return from(req) && from(R)
}

func c06R3(c *Ctx) {
	p := c.P
	c.floor("C06.R3", 4)
	// Forward() implementations are constant
	for _, t := range []struct {
		typ  string
		want bool
	}{{"ConnUpstream", false}, {"NodeUpstream", true}} {
		fn := p.Func(upPkg, t.typ+".Forward")
		if fn == nil {
			c.fail("C06.R3", "anchor/"+t.typ+".Forward", token.NoPos, "not found")
			continue
		}
		good := true
		for _, r := range returnsOf(fn) {
			if b, ok := constBool(returnValues(r)[0]); !ok || b != t.want {
				good = false
			}
		}
		c.check(good, "C06.R3", fnName(fn)+"/constant", fn.Pos(), fmt.Sprintf("Forward() is constant %v", t.want), "Forward() is not the expected constant: node upstreams and local upstreams can be confused")
	}
	// the dial hook: function value stored in http.Transport.DialContext of the proxy transport
	dialHook := p.Func("server/proxy", "HTTPProxy.dialUpstream")
	for _, fn := range p.ModFuncs {
		if isTestFile(p.Fset, fn.Pos()) {
			continue
		}
		fs := computeFacts(fn)
		allInstrs(fn, func(i ssa.Instruction) {
			cc := callCommon(i)
			if cc == nil || !cc.IsInvoke() || cc.Method.Name() != "Dial" || !strings.Contains(cc.Method.FullName(), "server/upstream.Upstream") {
				return
			}
			key := fnName(fn) + "/raw-Dial"
			if fn == dialHook {
				c.ok("C06.R3", key, i.Pos(), "the transport's dial hook: only reached for requests that went through the marking function (R2)")
				return
			}
			facts := fs.At(i.Block())
			notFwd := anyFact(facts, func(f Fact) bool {
				cl, ok := f.V.(*ssa.Call)
				return ok && !f.T && cl.Call.IsInvoke() && cl.Call.Method.Name() == "Forward" && cl.Call.Value == cc.Value
			})
			c.check(notFwd, "C06.R3", key, i.Pos(), "dialled directly only under u.Forward() == false", "an upstream that may be a remote node is dialled directly, bypassing the marked reverse-proxy hop; facts "+factStrings(facts))
		})
	}
	// the dial hook is only installed as the proxy transport's DialContext
	if dialHook != nil {
		for _, e := range p.callersOf(dialHook) {
			if e.Caller.Func != nil && inModule(e.Caller.Func) && !isTestFile(p.Fset, e.Caller.Func.Pos()) && e.Caller.Func.Synthetic == "" {
				c.fail("C06.R3", "dial-hook-caller/"+fnName(e.Caller.Func), e.Pos(), "the transport dial hook is called directly from module code")
			}
		}
	} else {
		c.fail("C06.R3", "anchor/HTTPProxy.dialUpstream", token.NoPos, "not found")
	}
}

// markerSetBeyondStripping: some site sets the marker inside a function that
// runs after httputil's hop-by-hop removal: a closure installed as
// ReverseProxy.Rewrite, or a RoundTrip method.
func markerSetBeyondStripping(p *Prog) bool {
	found := false
	for _, fn := range p.ModFuncs {
		if isTestFile(p.Fset, fn.Pos()) {
			continue
		}
		sets := false
		allInstrs(fn, func(i ssa.Instruction) {
			cl, ok := i.(*ssa.Call)
			if !ok || commonName(&cl.Call) != "(net/http.Header).Set" {
				return
			}
			if k, ok := constString(cl.Call.Args[1]); ok && strings.EqualFold(k, forwardHeader) {
				sets = true
			}
		})
		if !sets {
			continue
		}
		if fn.Name() == "RoundTrip" && fn.Signature.Recv() != nil {
			found = true
		}
		if fn.Parent() != nil {
			allInstrs(fn.Parent(), func(i ssa.Instruction) {
				st, ok := i.(*ssa.Store)
				if !ok {
					return
				}
				fa, ok := st.Addr.(*ssa.FieldAddr)
				if !ok {
					return
				}
				if fv, _ := fieldVarOf(fa); fv.Name() != "Rewrite" {
					return
				}
				if mc, ok := st.Val.(*ssa.MakeClosure); ok && mc.Fn == ssa.Value(fn) {
					found = true
				}
			})
		}
	}
	return found
}
