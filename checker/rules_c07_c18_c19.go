package main

import (
	"fmt"
	"go/token"
	"go/types"
	"strings"

	"golang.org/x/tools/go/ssa"
)

func init() {
	register(&propDef{
		id: "C07",
		meta: propMeta{
			explanation: "Byte-for-byte fidelity over all chunkings is a runtime-value property and is NOT decided. Decided: the structural half of 'closing either end releases both legs' and necessary conditions of fidelity in the adapter. (R1) every function that runs two goroutines calling io.Copy (role; four siblings today) copies in both directions between the same two connections, each goroutine defers Close of its own destination and Done on the shared WaitGroup, with Add(2) before and Wait after; (R2) websocket.Conn.Read asks for the next message only when no partially read message is retained, drops the retained reader only after that reader reported an error/EOF, stores only binary-message readers, hands the caller's buffer to the reader and returns its byte count unchanged; (R3) Conn.Write sends the caller's slice as exactly one binary message and reports len(b) only on success; (R4) no read limit is configured on wrapped WebSocket connections (a limit turns any larger Write of the peer - one message per Write, of unbounded size - into a broken stream), and long-lived forwarded upgrades are exempt from the proxy timeout (C08.R4, run here). Second round: adapter Read decided per path (delivered bytes reported, message EOF never returned, loop drops the exhausted reader); (R5) WebSocket data writes/reads only from the adapter's write/read side; (R6) the dialled leg is released on every path; (R7) both legs are spliced after a successful upgrade; (R8) yamux StreamCloseTimeout not below the library default.",
			ruleText:    "obligation = one copy-pair function / store / return / call site; distinct = distinct keys",
			assumptions: []string{"gorilla/websocket delivers message bytes in order and NextReader blocks for the next data message (trusted)", "yamux preserves stream order (trusted)"},
		},
		run: runC07,
		mutants: []mutant{
			{Name: "defer Close removed from one direction", File: "server/proxy/tcpproxy.go", Old: "\t\tdefer wg.Done()\n\t\tdefer downstream.Close()\n", New: "\t\tdefer wg.Done()\n", Rule: "C07.R1"},
			{Name: "goroutine closes its source instead of its destination", File: "client/forwarder.go", Old: "\t\tdefer g.Done()\n\t\tdefer upstream.Close()\n\t\t_, err := io.Copy(upstream, downstream)", New: "\t\tdefer g.Done()\n\t\tdefer downstream.Close()\n\t\t_, err := io.Copy(upstream, downstream)", Rule: "C07.R1"},
			{Name: "reader dropped after every read", File: "pkg/websocket/conn.go", Old: "\t\tif n > 0 {\n\t\t\tif err != nil {\n\t\t\t\tc.reader = nil\n", New: "\t\tif n > 0 {\n\t\t\tc.reader = nil\n\t\t\tif err != nil {\n", Rule: "C07.R2"},
			{Name: "Write returns len(b) on error", File: "pkg/websocket/conn.go", Old: "\t\tvar closeErr *websocket.CloseError\n\t\tif errors.As(err, &closeErr) {\n\t\t\treturn 0, net.ErrClosed\n\t\t}\n\t\treturn 0, err\n\t}\n\treturn len(b), nil", New: "\t\tvar closeErr *websocket.CloseError\n\t\tif errors.As(err, &closeErr) {\n\t\t\treturn 0, net.ErrClosed\n\t\t}\n\t\treturn len(b), err\n\t}\n\treturn len(b), nil", Rule: "C07.R3"},
			{Name: "read limit configured on wrapped connections", File: "pkg/websocket/conn.go", Old: "func New(wsConn *websocket.Conn) *Conn {\n", New: "func New(wsConn *websocket.Conn) *Conn {\n\twsConn.SetReadLimit(64 * 1024)\n", Rule: "C07.R4"},
			{Name: "text frames accepted", File: "pkg/websocket/conn.go", Old: "\t\t\tif mt != websocket.BinaryMessage {\n\t\t\t\treturn 0, fmt.Errorf(\"unexpected message type: %d\", mt)\n\t\t\t}\n", New: "\t\t\t_ = mt\n", Rule: "C07.R2"},
			{Name: "next message requested while one is partially read", File: "pkg/websocket/conn.go", Old: "\t\tif c.reader == nil {\n\t\t\tmt, r, err := c.wsConn.NextReader()", New: "\t\tif c.reader == nil || len(b) > 4096 {\n\t\t\tmt, r, err := c.wsConn.NextReader()", Rule: "C07.R2"},
			{Name: "both goroutines copy the same direction", File: "agent/tcpproxy/server.go", Old: "\t\t_, err := io.Copy(upstream, conn)\n", New: "\t\t_, err := io.Copy(conn, upstream)\n", Rule: "C07.R1"},
			{Name: "Write sends text frames", File: "pkg/websocket/conn.go", Old: "c.wsConn.WriteMessage(websocket.BinaryMessage, b)", New: "c.wsConn.WriteMessage(websocket.TextMessage, b)", Rule: "C07.R3"},
			{Name: "benign: the two goroutines swapped", Benign: true, File: "forward/forwarder.go", Old: "\tgo func() {\n\t\tdefer g.Done()\n\t\tdefer conn.Close()\n\t\t_, err := io.Copy(conn, upstream)\n\t\tif err != nil {\n\t\t\tf.logger.Debug(\n\t\t\t\t\"copy to conn closed\",\n\t\t\t\tzap.String(\"endpoint-id\", f.endpointID),\n\t\t\t\tzap.Error(err),\n\t\t\t)\n\t\t}\n\t}()\n\tgo func() {\n\t\tdefer g.Done()\n\t\tdefer upstream.Close()\n\t\t_, err := io.Copy(upstream, conn)\n\t\tif err != nil {\n\t\t\tf.logger.Debug(\n\t\t\t\t\"copy to upstream closed\",\n\t\t\t\tzap.String(\"endpoint-id\", f.endpointID),\n\t\t\t\tzap.Error(err),\n\t\t\t)\n\t\t}\n\t}()\n", New: "\tgo func() {\n\t\tdefer g.Done()\n\t\tdefer upstream.Close()\n\t\t_, err := io.Copy(upstream, conn)\n\t\tif err != nil {\n\t\t\tf.logger.Debug(\n\t\t\t\t\"copy to upstream closed\",\n\t\t\t\tzap.String(\"endpoint-id\", f.endpointID),\n\t\t\t\tzap.Error(err),\n\t\t\t)\n\t\t}\n\t}()\n\tgo func() {\n\t\tdefer g.Done()\n\t\tdefer conn.Close()\n\t\t_, err := io.Copy(conn, upstream)\n\t\tif err != nil {\n\t\t\tf.logger.Debug(\n\t\t\t\t\"copy to conn closed\",\n\t\t\t\tzap.String(\"endpoint-id\", f.endpointID),\n\t\t\t\tzap.Error(err),\n\t\t\t)\n\t\t}\n\t}()\n"},
		},
	})
	register(&propDef{
		id: "C18",
		meta: propMeta{
			explanation: "Recovery after losing a node is liveness over crash points and is NOT decided. Decided: (R1) Server.Shutdown performs, on every path and in this order, SetReady(false), upstream shutdown, proxy shutdown, gossip Leave, gossip Close, admin shutdown, each bounded by the one context built from conf.GracePeriod (so the whole shutdown is bounded by the grace period); (R2) Gossip.Leave publishes the local leave marker before contacting any peer, leave() sends the full local delta, the receiving stream handler applies it (C03.R1), a delta reply covers every node of the request that is known including departed ones (so notified nodes relay the departure), and only the owner's marker makes a node left (C11.R3, run here); (R3) the listener's accept loop stops only for a local reason - the caller's context or the listener's own close context being done, or a failed reconnect - never because of an error value that piko's own transport adapter produces for a peer-originated close (this rule found defect D4); reconnecting retries without a retry limit. Second round: (R7) a dial that failed without any HTTP response is always retryable.",
			ruleText:    "obligation = one path class / call argument / return; distinct = distinct keys",
			assumptions: []string{"pkg/websocket maps a peer close or abnormal EOF to net.ErrClosed and yamux propagates the receive loop's error as the session's shutdown error (read from the sources; see DESIGN.md)"},
		},
		run: runC18,
		mutants: []mutant{
			{Name: "Leave before the upstream shutdown", File: "server/server.go", Old: "\ts.shutdownUpstreamServer(ctx)\n\n\t// Now we no longer have any connected upstreams", New: "\tif err := s.gossiper.Leave(ctx); err != nil {\n\t\ts.logger.Warn(\"failed to leave cluster\", zap.Error(err))\n\t}\n\ts.shutdownUpstreamServer(ctx)\n\n\t// Now we no longer have any connected upstreams", Rule: "C18.R1"},
			{Name: "LeaveLocal skipped when there are no peers", File: "pkg/gossip/gossip.go", Old: "\tg.state.LeaveLocal()\n\n\tknownNodes := g.state.Nodes()\n", New: "\tknownNodes := g.state.Nodes()\n\tif len(knownNodes) > 1 {\n\t\tg.state.LeaveLocal()\n\t}\n", Rule: "C18.R2"},
			{Name: "listener stops on net.ErrClosed again (D4)", File: "client/listener.go", Old: "\t\tif l.closeCtx.Err() != nil {\n\t\t\treturn nil, ErrClosed\n\t\t}\n", New: "\t\tif l.closeCtx.Err() != nil || err.Error() == \"use of closed network connection\" {\n\t\t\treturn nil, ErrClosed\n\t\t}\n", Rule: "C18.R3"},
			{Name: "Leave gets its own fresh grace period", File: "server/server.go", Old: "\tif err := s.gossiper.Leave(ctx); err != nil {", New: "\tleaveCtx, leaveCancel := context.WithTimeout(context.Background(), s.conf.GracePeriod)\n\tdefer leaveCancel()\n\tif err := s.gossiper.Leave(leaveCtx); err != nil {", Rule: "C18.R1"},
			{Name: "delta replies skip departed nodes", File: "pkg/gossip/state.go", Old: "\t\tif _, ok := s.nodes[entry.ID]; !ok {\n\t\t\t// We have no state for this member.\n\t\t\tcontinue\n\t\t}\n", New: "\t\tif n, ok := s.nodes[entry.ID]; !ok || n.Left {\n\t\t\t// We have no state for this member.\n\t\t\tcontinue\n\t\t}\n", Rule: "C18.R2"},
			{Name: "admin server stopped before leaving", File: "server/server.go", Old: "\t// Leave the cluster.\n\tif err := s.gossiper.Leave(ctx); err != nil {", New: "\ts.shutdownAdminServer(ctx)\n\t// Leave the cluster.\n\tif err := s.gossiper.Leave(ctx); err != nil {", Rule: "C18.R1"},
			{Name: "leave sends only the marker-less digest", File: "pkg/gossip/gossip.go", Old: "\tdelta := g.state.LocalDelta()\n\tif err := encoder.Encode(delta); err != nil {\n\t\treturn fmt.Errorf(\"encode: %w\", err)\n\t}\n\tg.metrics.DeltaEntriesOutbound.Add(float64(delta.EntriesTotal()))\n\n\tif err := w.Flush(); err != nil {\n\t\treturn fmt.Errorf(\"flush: %w\", err)\n\t}\n\n\tdecoder := newDecoder(r)\n\n\t// Wait for a header", New: "\tdelta := delta{}\n\tif err := encoder.Encode(delta); err != nil {\n\t\treturn fmt.Errorf(\"encode: %w\", err)\n\t}\n\tg.metrics.DeltaEntriesOutbound.Add(float64(delta.EntriesTotal()))\n\n\tif err := w.Flush(); err != nil {\n\t\treturn fmt.Errorf(\"flush: %w\", err)\n\t}\n\n\tdecoder := newDecoder(r)\n\n\t// Wait for a header", Rule: "C18.R2"},
			{Name: "reconnect gives up after five attempts", File: "client/upstream.go", Old: "\tbackoff := backoff.New(0, minReconnectBackoff, maxReconnectBackoff)", New: "\tbackoff := backoff.New(5, minReconnectBackoff, maxReconnectBackoff)", Rule: "C18.R3"},
			{Name: "benign: log lines between the shutdown steps", Benign: true, File: "server/server.go", Old: "\ts.shutdownProxyServer(ctx)\n", New: "\ts.logger.Info(\"shutting down proxy\")\n\ts.shutdownProxyServer(ctx)\n"},
		},
	})
	register(&propDef{
		id: "C19",
		meta: propMeta{
			explanation: "The property is arithmetic over all configurations and that part (ceil, 'at least one', integer average of zero) is NOT decided. Decided: the guard structure and data dependences. (R1) every path from Rebalance's entry to shedSessions(n) passes the false edges of `number of known nodes <= 1`, `open sessions == 0`, `open sessions < MinConns` and `balance < Threshold`, where the node count is len(cluster.Nodes()), open sessions is openSessions(), balance is (local - avg)/avg with avg = cluster.AvgConns(); n is int(local*balance) replaced, exactly under local*balance > avg*ShedRate, by ceil(avg*ShedRate); (R2) Rebalance is called only from the ticker goroutine, which is started only under Rebalance.Threshold != 0; (R3) shedSessions stops collecting at len(shedding) >= n and closes outside the sessions mutex; AvgConns sums the endpoints' counts of exactly the nodes whose Status is active and divides by their number.",
			ruleText:    "obligation = one guard fact / data-dependence shape / call site; distinct = distinct keys",
			assumptions: []string{"the local node is always active, so the active-node count is >= 1 (C04.R6)"},
		},
		run: runC19,
		mutants: []mutant{
			{Name: "MinConns guard removed", File: "server/upstream/server.go", Old: "\tif localConns == 0 || localConns < int(s.config.Rebalance.MinConns) {", New: "\tif localConns == 0 {", Rule: "C19.R1"},
			{Name: "cap removed", File: "server/upstream/server.go", Old: "\tif shedding > float64(avgConns)*s.config.Rebalance.ShedRate {\n\t\tshedding = math.Ceil(float64(avgConns) * s.config.Rebalance.ShedRate)\n\t}\n", New: "\t_ = math.Ceil\n", Rule: "C19.R1"},
			{Name: "rebalance goroutine started unconditionally", File: "server/server.go", Old: "\tif s.conf.Upstream.Rebalance.Threshold != 0 {\n\t\ts.runGoroutine(func() {\n\t\t\ts.upstreamRebalance()\n\t\t})\n\t}", New: "\ts.runGoroutine(func() {\n\t\ts.upstreamRebalance()\n\t})", Rule: "C19.R2"},
			{Name: "no-other-nodes guard can never fire", File: "server/upstream/server.go", Old: "\tif len(s.cluster.Nodes()) <= 1 {", New: "\tif len(s.cluster.Nodes()) < 1 {", Rule: "C19.R1"},
			{Name: "cap uses floor", File: "server/upstream/server.go", Old: "\t\tshedding = math.Ceil(float64(avgConns) * s.config.Rebalance.ShedRate)", New: "\t\tshedding = math.Floor(float64(avgConns) * s.config.Rebalance.ShedRate)", Rule: "C19.R1"},
			{Name: "AvgConns counts unreachable nodes' connections", File: "server/cluster/state.go", Old: "\t\tif node.Status != NodeStatusActive {\n\t\t\t// Ignore unreachable and left nodes.\n\t\t\tcontinue\n\t\t}\n\t\tfor _, conns := range node.Endpoints {", New: "\t\tif node.Status == NodeStatusLeft {\n\t\t\t// Ignore unreachable and left nodes.\n\t\t\tcontinue\n\t\t}\n\t\tfor _, conns := range node.Endpoints {", Rule: "C19.R3"},
			{Name: "threshold compared against the absolute difference", File: "server/upstream/server.go", Old: "\tbalance := float64(localConns-avgConns) / float64(avgConns)\n", New: "\tbalance := float64(localConns-avgConns) / float64(localConns)\n", Rule: "C19.R1"},
			{Name: "shedding collects one more than asked", File: "server/upstream/server.go", Old: "\t\tif len(shedding) >= n {\n", New: "\t\tif len(shedding) > n {\n", Rule: "C19.R3"},
			{Name: "benign: guards merged into one condition", Benign: true, File: "server/upstream/server.go", Old: "\tlocalConns := s.openSessions()\n\tif localConns == 0 || localConns < int(s.config.Rebalance.MinConns) {", New: "\tlocalConns := s.openSessions()\n\tif localConns < int(s.config.Rebalance.MinConns) || localConns == 0 {"},
		},
	})
}

// ---------------------------------------------------------------- C07

// bindingOf: the value bound to the free variable that v (a load of it, or the
// freevar itself) refers to in closure fn created by mc.
func bindingOf(v ssa.Value, fn *ssa.Function, mc *ssa.MakeClosure) ssa.Value {
	v = strip(v)
	if u, ok := v.(*ssa.UnOp); ok && u.Op == token.MUL {
		v = u.X
	}
	fv, ok := v.(*ssa.FreeVar)
	if !ok {
		return nil
	}
	for k, f := range fn.FreeVars {
		if f == fv {
			return mc.Bindings[k]
		}
	}
	return nil
}

func runC07(c *Ctx) {
	p := c.P
	wsContract(c, "C07.R5")
	c07DialReleased(c)
	c07Spliced(c)
	c07MuxConfig(c)
	c.floor("C07.R1", 4)
	nPairs := 0
	for _, fn := range p.ModFuncs {
		if isTestFile(p.Fset, fn.Pos()) || fn.Parent() != nil && false {
			continue
		}
		type leg struct {
			fn        *ssa.Function
			dst, src  ssa.Value
			closes    ssa.Value
			done      ssa.Value
			sharedBuf ssa.Value
			goInstr   *ssa.Go
		}
		var legs []leg
		allInstrs(fn, func(i ssa.Instruction) {
			g, ok := i.(*ssa.Go)
			if !ok {
				return
			}
			var cf *ssa.Function
			var resolve func(v ssa.Value) ssa.Value
			if mc, ok := g.Call.Value.(*ssa.MakeClosure); ok {
				cf = mc.Fn.(*ssa.Function)
				resolve = func(v ssa.Value) ssa.Value { return bindingOf(v, cf, mc) }
			} else if sc := g.Call.StaticCallee(); sc != nil && inModule(sc) && len(sc.Blocks) > 0 {
				// go p.pipe(wg, dst, src, ...): parameters map to the go statement's arguments
				cf = sc
				resolve = func(v ssa.Value) ssa.Value {
					v = strip(v)
					if u, ok := v.(*ssa.UnOp); ok && u.Op == token.MUL {
						if al, ok := u.X.(*ssa.Alloc); ok {
							if sv, _ := singleStore(al); sv != nil {
								v = strip(sv)
							}
						}
					}
					pv, ok := v.(*ssa.Parameter)
					if !ok {
						return nil
					}
					for k, pp := range sc.Params {
						if pp == pv && k < len(g.Call.Args) {
							a := strip(g.Call.Args[k])
							// normalise: a load of the caller's variable stands for that variable
							if u, ok := a.(*ssa.UnOp); ok && u.Op == token.MUL {
								return u.X
							}
							return a
						}
					}
					return nil
				}
			} else {
				return
			}
			l := leg{fn: cf, goInstr: g}
			allInstrs(cf, func(j ssa.Instruction) {
				switch x := j.(type) {
				case *ssa.Call:
					if cn := commonName(&x.Call); cn == "io.Copy" || cn == "io.CopyBuffer" {
						l.dst = resolve(x.Call.Args[0])
						l.src = resolve(x.Call.Args[1])
						if cn == "io.CopyBuffer" {
							// a scratch buffer must belong to this goroutine alone
							if sh := resolve(x.Call.Args[2]); sh != nil {
								l.sharedBuf = sh
							} else if _, isP := strip(x.Call.Args[2]).(*ssa.Parameter); isP {
								l.sharedBuf = x.Call.Args[2]
							}
						}
					}
				case *ssa.Defer:
					if x.Call.IsInvoke() && x.Call.Method.Name() == "Close" {
						l.closes = resolve(x.Call.Value)
					}
					if strings.HasSuffix(commonName(&x.Call), "sync.WaitGroup).Done") {
						l.done = resolve(x.Call.Args[0])
						if l.done == nil {
							l.done = x.Call.Args[0]
						}
					}
				}
			})
			if l.dst != nil || l.src != nil {
				legs = append(legs, l)
			}
		})
		if len(legs) == 0 {
			continue
		}
		nPairs++
		c.analysed(fnName(fn))
		key := fnName(fn) + "/copy-pair"
		if len(legs) != 2 {
			c.fail("C07.R1", key, fn.Pos(), fmt.Sprintf("%d copy goroutines instead of two", len(legs)))
			continue
		}
		a, b := legs[0], legs[1]
		bad := ""
		switch {
		case a.dst == nil || a.src == nil || b.dst == nil || b.src == nil:
			bad = "copy endpoints are not the two connections captured from the enclosing function"
		case a.dst != b.src || a.src != b.dst:
			bad = "the two goroutines do not copy in opposite directions between the same two connections: one direction of the tunnel carries no data"
		case a.closes != a.dst || b.closes != b.dst:
			bad = "a copy goroutine does not close its own destination when its source ends: end-of-stream is not propagated and the other leg is never released"
		case a.done == nil || b.done == nil || path(a.done) != path(b.done):
			bad = "the goroutines do not signal one shared WaitGroup"
		case a.sharedBuf != nil && b.sharedBuf != nil && a.sharedBuf == b.sharedBuf:
			bad = "both copy directions use the same scratch buffer: each direction overwrites bytes the other has read but not yet written"
		}
		if bad == "" {
			// Add(2) before both go statements, Wait after
			var add, wait ssa.Instruction
			allInstrs(fn, func(i ssa.Instruction) {
				cl, ok := i.(*ssa.Call)
				if !ok {
					return
				}
				n := commonName(&cl.Call)
				if strings.HasSuffix(n, "sync.WaitGroup).Add") {
					if k, ok := constInt(cl.Call.Args[1]); ok && k == 2 {
						add = i
					}
				}
				if strings.HasSuffix(n, "sync.WaitGroup).Wait") {
					wait = i
				}
			})
			if add == nil || wait == nil || !dominatesInstr(add, a.goInstr) || !dominatesInstr(add, b.goInstr) || !dominatesInstr(a.goInstr, wait) || !dominatesInstr(b.goInstr, wait) {
				bad = "Add(2) before the goroutines / Wait after them is missing: the function can return (releasing its deferred closes) while a direction is still copying, or never return"
			}
		}
		c.check(bad == "", "C07.R1", key, fn.Pos(), "two opposite copies; each closes its destination and signals the shared WaitGroup; Add(2) ≺ go ≺ Wait", bad)
	}
	if nPairs < 4 {
		c.fail("C07.R1", "copy-pair-functions", token.NoPos, fmt.Sprintf("found %d bidirectional copy functions, expected 4", nPairs))
	}
	c07Adapter(c)
	// R4: no read limit
	c.floor("C07.R4", 1)
	n := 0
	for _, fn := range p.ModFuncs {
		if isTestFile(p.Fset, fn.Pos()) {
			continue
		}
		allInstrs(fn, func(i ssa.Instruction) {
			if callName(i) == "(*net.TCPConn).SetLinger" {
				n++
				c.fail("C07.R4", fnName(fn)+"/SetLinger", i.Pos(), "SO_LINGER is configured on a tunnelled leg: with a zero or positive linger time Close discards the bytes still queued for the peer (and resets the connection), so the tail of the stream written just before a close is lost")
			}
			if strings.HasSuffix(callName(i), "gorilla/websocket.Conn).SetReadLimit") {
				n++
				c.fail("C07.R4", fnName(fn)+"/SetReadLimit", i.Pos(), "a read limit is set on a WebSocket connection: the peer sends one message per Write of any size, so a Write larger than the limit breaks the byte stream (and the yamux session riding on it)")
			}
		})
	}
	if n == 0 {
		c.ok("C07.R4", "no-read-limit", token.NoPos, "no module function configures a WebSocket read limit")
	}
	c08R4(c)
}

func c07Adapter(c *Ctx) {
	p := c.P
	c.floor("C07.R2", 8)
	c.floor("C07.R3", 2)
	readerF := p.Field("pkg/websocket", "Conn", "reader")
	read := p.Func("pkg/websocket", "Conn.Read")
	write := p.Func("pkg/websocket", "Conn.Write")
	if readerF == nil || read == nil || write == nil {
		c.fail("C07.anchor", "pkg/websocket.Conn", token.NoPos, "Conn.reader / Read / Write not found")
		return
	}
	c.analysed(fnName(read))
	c.analysed(fnName(write))
	fs := computeFacts(read)
	isReaderLoad := func(v ssa.Value) bool { _, ok := loadedField(v, readerF); return ok }
	var next, rd *ssa.Call
	allInstrs(read, func(i ssa.Instruction) {
		cl, ok := i.(*ssa.Call)
		if !ok {
			return
		}
		if strings.HasSuffix(commonName(&cl.Call), "gorilla/websocket.Conn).NextReader") {
			next = cl
		}
		if cl.Call.IsInvoke() && cl.Call.Method.Name() == "Read" && isReaderLoad(cl.Call.Value) {
			rd = cl
		}
	})
	if next == nil || rd == nil {
		c.fail("C07.R2", fnName(read)+"/shape", read.Pos(), "Read does not fetch message readers with NextReader and read from the retained reader")
		return
	}
	for _, m := range methodsOf(p, "pkg/websocket", "Conn") {
		mfs := computeFacts(m)
		allInstrs(m, func(i ssa.Instruction) {
			cl, ok := i.(*ssa.Call)
			if !ok {
				return
			}
			n := commonName(&cl.Call)
			if !strings.HasSuffix(n, "gorilla/websocket.Conn).NextReader") && !strings.HasSuffix(n, "gorilla/websocket.Conn).ReadMessage") {
				return
			}
			c.check(anyFact(mfs.At(cl.Block()), func(f Fact) bool { return cmpFact(f, token.EQL, isReaderLoad, isNilConst) }), "C07.R2", fnName(m)+"/next-only-when-drained", cl.Pos(),
				"the next message is requested only when no reader is retained", "the next WebSocket message is requested while a partially read message may still be retained in c.reader: gorilla discards the unread rest of that message (bytes lost)")
		})
	}
	c.check(isParamValue(rd.Call.Args[0], read, "b"), "C07.R2", fnName(read)+"/reads-into-callers-buffer", rd.Pos(), "the retained reader reads into the caller's buffer", "the reader does not read into the caller's buffer")
	rdErr := func(v ssa.Value) bool {
		ex, ok := v.(*ssa.Extract)
		return ok && ex.Tuple == ssa.Value(rd) && ex.Index == 1
	}
	for _, s := range p.storesToField(readerF, false) {
		st, ok := s.Instr.(*ssa.Store)
		if !ok || s.Fn != read {
			if s.Fn.Name() != "New" {
				c.fail("C07.R2", "writer-of Conn.reader/"+fnName(s.Fn), s.Instr.Pos(), "the retained reader is written outside Conn.Read and the constructor")
			}
			continue
		}
		facts := fs.At(st.Block())
		if isNilConst(st.Val) {
			finished := anyFact(facts, func(f Fact) bool {
				if cmpFact(f, token.NEQ, rdErr, isNilConst) {
					return true
				}
				// err == io.EOF
				return cmpFact(f, token.EQL, rdErr, func(v ssa.Value) bool { return strings.HasSuffix(path(v), "G:EOF") })
			})
			if !finished {
				// the guard may be spread over several tests (switch cases falling through `a && b`): decide per path
				isFin := func(f Fact) bool {
					return cmpFact(f, token.NEQ, rdErr, isNilConst) || cmpFact(f, token.EQL, rdErr, func(v ssa.Value) bool { return strings.HasSuffix(path(v), "G:EOF") })
				}
				paths, complete := enumPaths(rd, nil, func(i ssa.Instruction) bool { return i == ssa.Instruction(st) }, nil, 400)
				finished = complete
				reached := 0
				for _, pa := range paths {
					if pa.endWhy != "stop" || infeasible(pa.facts) {
						continue
					}
					reached++
					if !anyFact(pa.facts, isFin) {
						finished = false
					}
				}
				if reached == 0 {
					finished = false
				}
			}
			c.check(finished, "C07.R2", fnName(read)+"/drop-reader-only-when-finished", st.Pos(), "the retained reader is dropped only after it reported an error or EOF",
				"the retained message reader can be dropped although it has not reported EOF: the unread rest of the message is skipped (bytes lost); facts "+factStrings(facts))
			continue
		}
		ex, ok := st.Val.(*ssa.Extract)
		fromNext := ok && ex.Tuple == ssa.Value(next) && ex.Index == 1
		noErr := anyFact(facts, func(f Fact) bool {
			return cmpFact(f, token.EQL, func(v ssa.Value) bool {
				e, ok := v.(*ssa.Extract)
				return ok && e.Tuple == ssa.Value(next) && e.Index == 2
			}, isNilConst)
		})
		binary := anyFact(facts, func(f Fact) bool {
			return cmpFact(f, token.EQL, func(v ssa.Value) bool {
				e, ok := v.(*ssa.Extract)
				return ok && e.Tuple == ssa.Value(next) && e.Index == 0
			}, func(v ssa.Value) bool { k, ok := constInt(v); return ok && k == 2 })
		})
		c.check(fromNext && noErr && binary, "C07.R2", fnName(read)+"/retains-binary-reader", st.Pos(), "only the reader of a successfully fetched binary message is retained",
			"a reader is retained that is not the reader of a successfully fetched binary message (text/control frames would be spliced into the byte stream); facts "+factStrings(facts))
	}
	for k, r := range returnsOf(read) {
		rv := returnValues(r)
		if n, ok := constInt(rv[0]); ok && n == 0 {
			continue
		}
		ex, ok := rv[0].(*ssa.Extract)
		c.check(ok && ex.Tuple == ssa.Value(rd) && ex.Index == 0, "C07.R2", fmt.Sprintf("%s/returns-readers-count[%d]", fnName(read), k), r.Pos(), "the byte count returned is the retained reader's count, unchanged", "Read returns a byte count that is not the count reported by the message reader")
	}
	// bytes read are reported; an exhausted message is never mistaken for the end of the stream; the loop makes progress
	rdN := func(v ssa.Value) bool {
		ex, ok := v.(*ssa.Extract)
		return ok && ex.Tuple == ssa.Value(rd) && ex.Index == 0
	}
	isEOF := func(v ssa.Value) bool { return strings.HasSuffix(path(v), "G:EOF") }
	zero := func(v ssa.Value) bool { k, ok := constInt(v); return ok && k == 0 }
	var nilStores []ssa.Instruction
	allInstrs(read, func(i ssa.Instruction) {
		if st, ok := i.(*ssa.Store); ok && isNilConst(st.Val) {
			if _, ok := addrOfField(st.Addr, readerF); ok {
				nilStores = append(nilStores, i)
			}
		}
	})
	isNilStore := func(i ssa.Instruction) bool {
		for _, s := range nilStores {
			if s == i {
				return true
			}
		}
		return false
	}
	paths, complete := enumPaths(rd, isNilStore, nil, nil, 400)
	badCount, badEOF, badSpin := "", "", ""
	if !complete {
		badCount = "too many paths"
	}
	for _, pa := range paths {
		if infeasible(pa.facts) {
			continue
		}
		gotBytes := anyFact(pa.facts, func(f Fact) bool { return cmpFact(f, token.GTR, rdN, zero) || cmpFact(f, token.NEQ, rdN, zero) })
		noBytes := anyFact(pa.facts, func(f Fact) bool { return cmpFact(f, token.LEQ, rdN, zero) || cmpFact(f, token.EQL, rdN, zero) })
		msgEOF := anyFact(pa.facts, func(f Fact) bool { return cmpFact(f, token.EQL, rdErr, isEOF) })
		switch pa.endWhy {
		case "return":
			rv := returnValues(pa.end.(*ssa.Return))
			if k, isK := constInt(rv[0]); isK && k == 0 && !noBytes {
				badCount = "a path on which the message reader may have delivered bytes returns a count of 0 at " + p.pos(pa.end.Pos()) + " (facts " + factStrings(pa.facts) + ")"
			}
			_ = gotBytes
			// the error returned on a path where the message ended must not be that EOF
			if msgEOF {
				ev := rv[1]
				if !isNilConst(ev) {
					// a φ is resolved by the edge taken; here: any non-nil value that may be the reader's error
					if rdErr(strip(ev)) {
						badEOF = "the end of one WebSocket message is returned as io.EOF at " + p.pos(pa.end.Pos())
					}
					if ph, ok := ev.(*ssa.Phi); ok {
						// which edge does this path take? the last predecessor on the path is not recorded: be exact only when every non-nil input is the reader's error
						allNil := true
						for k2, e := range ph.Edges {
							if isNilConst(e) {
								continue
							}
							ef := fs.OnEdge(ph.Block().Preds[k2], ph.Block())
							if rdErr(strip(e)) && !anyFact(ef, func(f Fact) bool { return cmpFact(f, token.NEQ, rdErr, isEOF) }) && !anyFact(ef, func(f Fact) bool { return cmpFact(f, token.EQL, rdErr, isNilConst) }) {
								allNil = false
							}
						}
						if !allNil {
							badEOF = "the end of one WebSocket message can be returned as io.EOF at " + p.pos(pa.end.Pos())
						}
					}
				}
			}
		case "loop":
			if len(pa.seen) == 0 {
				badSpin = "the read loop repeats at " + p.pos(pa.end.Pos()) + " while keeping the reader that just reported it is exhausted or failed (facts " + factStrings(pa.facts) + ")"
			}
		}
	}
	c.check(badCount == "", "C07.R2", fnName(read)+"/delivered-bytes-are-reported", rd.Pos(), "a return of 0 bytes only where the reader delivered none", badCount+": bytes already copied into the caller's buffer are dropped from the stream")
	c.check(badEOF == "", "C07.R2", fnName(read)+"/message-end-is-not-stream-end", rd.Pos(), "io.EOF of a message reader is never returned", badEOF+": the tunnelled connection is cut after the first message")
	c.check(badSpin == "", "C07.R2", fnName(read)+"/loop-drops-exhausted-reader", rd.Pos(), "the loop repeats only after c.reader = nil", badSpin+": Read spins forever")
	// ---- Write ----
	wfs := computeFacts(write)
	var wm *ssa.Call
	nW := 0
	allInstrs(write, func(i ssa.Instruction) {
		if cl, ok := i.(*ssa.Call); ok && strings.HasSuffix(commonName(&cl.Call), "gorilla/websocket.Conn).WriteMessage") {
			wm = cl
			nW++
		}
	})
	good := wm != nil && nW == 1
	if good {
		k, ok := constInt(wm.Call.Args[1])
		good = ok && k == 2 && isParamValue(wm.Call.Args[2], write, "b") && loopHeader(wm.Block()) == nil
	}
	c.check(good, "C07.R3", fnName(write)+"/one-binary-message", write.Pos(), "one WriteMessage(BinaryMessage, b) with the caller's slice", "Write does not send the caller's slice as exactly one binary message")
	for k, r := range returnsOf(write) {
		rv := returnValues(r)
		if n, ok := constInt(rv[0]); ok && n == 0 {
			continue
		}
		okLen := false
		if cl, ok := rv[0].(*ssa.Call); ok {
			if b, ok := cl.Call.Value.(*ssa.Builtin); ok && b.Name() == "len" && isParamValue(cl.Call.Args[0], write, "b") {
				okLen = true
			}
		}
		success := wm != nil && anyFact(wfs.At(r.Block()), func(f Fact) bool {
			return cmpFact(f, token.EQL, func(v ssa.Value) bool { return v == ssa.Value(wm) }, isNilConst)
		})
		c.check(okLen && success && isNilConst(rv[1]), "C07.R3", fmt.Sprintf("%s/reports-len-on-success[%d]", fnName(write), k), r.Pos(), "len(b) is reported only when the message was written", "Write reports bytes as written although the message was not sent (callers such as io.Copy and yamux then drop or duplicate data)")
	}
}

// ---------------------------------------------------------------- C18

func runC18(c *Ctx) {
	c18DialRetry(c)
	c18ConnectLoop(c)
	c18ListenerLifetime(c)
	p := c.P
	c.floor("C18.R1", 2)
	// ---- R1 ----
	if fn := p.Func("server", "Server.Shutdown"); fn != nil {
		c.analysed(fnName(fn))
		var wt *ssa.Call
		allInstrs(fn, func(i ssa.Instruction) {
			if cl, ok := i.(*ssa.Call); ok && commonName(&cl.Call) == "context.WithTimeout" {
				if strings.HasSuffix(path(cl.Call.Args[1]), ".&conf.&GracePeriod") {
					wt = cl
				}
			}
		})
		isGrace := func(v ssa.Value) bool {
			ex, ok := strip(v).(*ssa.Extract)
			return ok && wt != nil && ex.Tuple == ssa.Value(wt) && ex.Index == 0
		}
		ctxArgOK := true
		step := func(suffix string, needCtx bool, argCheck func(*ssa.CallCommon) bool) func(ssa.Instruction) bool {
			return func(i ssa.Instruction) bool {
				cl, ok := i.(*ssa.Call)
				if !ok || !strings.HasSuffix(commonName(&cl.Call), suffix) {
					return false
				}
				if argCheck != nil && !argCheck(&cl.Call) {
					return false
				}
				if needCtx {
					found := false
					for _, a := range cl.Call.Args {
						if isGrace(a) {
							found = true
						}
					}
					if !found {
						ctxArgOK = false
					}
				}
				return true
			}
		}
		steps := []func(ssa.Instruction) bool{
			step("server/admin.Server).SetReady", false, func(cc *ssa.CallCommon) bool { b, ok := constBool(cc.Args[1]); return ok && !b }),
			step("server.Server).shutdownUpstreamServer", true, nil),
			step("server.Server).shutdownProxyServer", true, nil),
			step("server/gossip.Gossip).Leave", true, nil),
			step("server/gossip.Gossip).Close", false, nil),
			step("server.Server).shutdownAdminServer", true, nil),
		}
		names := []string{"SetReady(false)", "shutdown upstream server", "shutdown proxy server", "gossip Leave", "gossip Close", "shutdown admin server"}
		// strict order: a later step must not occur before an earlier one
		interesting := func(i ssa.Instruction) bool {
			for _, s := range steps {
				if s(i) {
					return true
				}
			}
			return false
		}
		paths, complete := enumPathsAt(fn.Blocks[0], 0, interesting, nil, nil, 500)
		bad := ""
		for _, pa := range paths {
			if pa.endWhy != "return" {
				continue
			}
			var order []int
			for _, in := range pa.seen {
				for k, s := range steps {
					if s(in) {
						order = append(order, k)
					}
				}
			}
			if len(order) != len(steps) {
				bad = fmt.Sprintf("a path performs steps %v instead of all six shutdown steps once", order)
				continue
			}
			for k := range order {
				if order[k] != k {
					bad = fmt.Sprintf("shutdown steps run in the order %v: %q happens before %q", order, names[order[k]], names[k])
					break
				}
			}
		}
		c.check(complete && bad == "" && wt != nil, "C18.R1", fnName(fn)+"/order", fn.Pos(), strings.Join(names, " ≺ "), bad)
		c.check(ctxArgOK && wt != nil, "C18.R1", fnName(fn)+"/one-grace-context", fn.Pos(), "every bounded step receives the single context built from conf.GracePeriod", "a shutdown step is given a context other than the one bounded by conf.GracePeriod: the shutdown can outlast the grace period")
		// helper steps pass their ctx on
		for _, h := range []string{"Server.shutdownUpstreamServer", "Server.shutdownProxyServer", "Server.shutdownAdminServer"} {
			if hf := p.Func("server", h); hf != nil {
				passes := false
				allInstrs(hf, func(i ssa.Instruction) {
					if cl, ok := i.(*ssa.Call); ok && strings.HasSuffix(commonName(&cl.Call), ").Shutdown") {
						for _, a := range cl.Call.Args {
							if isParamValue(a, hf, "ctx") {
								passes = true
							}
						}
					}
				})
				c.check(passes, "C18.R1", fnName(hf)+"/passes-context", hf.Pos(), "the bounded context is handed to the server's Shutdown", "the step does not hand the grace-period context to the server it shuts down")
			}
		}
	} else {
		c.fail("C18.anchor", "server.Server.Shutdown", token.NoPos, "not found")
	}
	// ---- R2 ----
	c.floor("C18.R2", 4)
	if fn := p.Func(gsPkg, "Gossip.Leave"); fn != nil {
		c.analysed(fnName(fn))
		var ll ssa.Instruction
		allInstrs(fn, func(i ssa.Instruction) {
			if cl, ok := i.(*ssa.Call); ok && commonName(&cl.Call) == gsFn("clusterState).LeaveLocal") {
				ll = cl
			}
		})
		bad := ll == nil || ll.Block() != fn.Blocks[0]
		if !bad {
			for _, call := range findCalls(fn, gsFn("Gossip).leave")) {
				if !dominatesInstr(ll, call) {
					bad = true
				}
			}
			// unconditional: in the entry block
		}
		c.check(!bad, "C18.R2", fnName(fn)+"/marker-before-notify", fn.Pos(), "LeaveLocal() runs unconditionally before any peer is contacted", "the leave marker is not published unconditionally before peers are notified: peers are told nothing, or see the node as failed rather than left")
	}
	if fn := p.Func(gsPkg, "Gossip.leave"); fn != nil {
		c.analysed(fnName(fn))
		sent := false
		allInstrs(fn, func(i ssa.Instruction) {
			cl, ok := i.(*ssa.Call)
			if !ok || !strings.HasSuffix(commonName(&cl.Call), "encoder).Encode") {
				return
			}
			if mi, ok := cl.Call.Args[1].(*ssa.MakeInterface); ok {
				if src, ok := mi.X.(*ssa.Call); ok && commonName(&src.Call) == gsFn("clusterState).LocalDelta") {
					sent = true
				}
			}
		})
		c.check(sent, "C18.R2", fnName(fn)+"/sends-local-delta", fn.Pos(), "leave() sends the full local delta (including the marker)", "leave() does not send LocalDelta(): the left marker and the endpoint withdrawals never reach the notified peer")
	}
	if fn := p.Func(gsPkg, "clusterState.LocalDelta"); fn != nil {
		full := false
		allInstrs(fn, func(i ssa.Instruction) {
			if cl, ok := i.(*ssa.Call); ok && commonName(&cl.Call) == gsFn("clusterState).deltaEntry") {
				_, idOK := loadedField(cl.Call.Args[1], p.Field(gsPkg, "clusterState", "localID"))
				k, isK := constInt(cl.Call.Args[2])
				full = idOK && isK && k == 0
			}
		})
		c.check(full, "C18.R2", fnName(fn)+"/from-version-0", fn.Pos(), "the local delta is the local node's state from version 0", "LocalDelta is not deltaEntry(localID, 0)")
	}
	c18Delta(c, "C18.R2")
	if g := newGossipAnchors(p); g.ok {
		c11R2R3(c, g)
	}
	// the stream handler applies it
	if fn := p.Func(gsPkg, "streamListener.leave"); fn != nil {
		steps := []func(ssa.Instruction) bool{isCallTo(gsFn("clusterState).ApplyDelta"), nil)}
		onEveryOKPath(c, "C18.R2", fn, "applies-leave-delta", steps, []string{"ApplyDelta(decoded delta)"})
	}
	// ---- R3 ----
	c18Reconnect(c)
}

// c18Delta: Delta() answers for every digest node it knows (incl. departed).
func c18Delta(c *Ctx, rule string) {
	p := c.P
	fn := p.Func(gsPkg, "clusterState.Delta")
	if fn == nil {
		c.fail(rule, "anchor/clusterState.Delta", token.NoPos, "not found")
		return
	}
	c.analysed(fnName(fn))
	fs := computeFacts(fn)
	nodesF := p.Field(gsPkg, "clusterState", "nodes")
	n := 0
	for _, call := range findCalls(fn, gsFn("clusterState).deltaEntry")) {
		cl := call.(*ssa.Call)
		hdr := loopHeader(cl.Block())
		if hdr == nil {
			continue
		}
		// is this the digest loop? its id argument is digestEntry.ID
		if _, ok := loadedField(cl.Call.Args[1], p.Field(gsPkg, "digestEntry", "ID")); !ok {
			continue
		}
		n++
		// back edges that skip the call: only under "node unknown"
		bad := ""
		for _, pb := range hdr.Preds {
			if !hdr.Dominates(pb) {
				continue
			}
			if cl.Block().Dominates(pb) || cl.Block() == pb {
				continue
			}
			facts := fs.OnEdge(pb, hdr)
			unknown := anyFact(facts, func(f Fact) bool {
				ex, ok := f.V.(*ssa.Extract)
				if !ok || ex.Index != 1 || f.T {
					return false
				}
				lk, ok := ex.Tuple.(*ssa.Lookup)
				if !ok {
					return false
				}
				_, ok = loadedField(lk.X, nodesF)
				return ok
			})
			extra := 0
			for _, f := range facts {
				if ex, ok := f.V.(*ssa.Extract); ok && ex.Index == 1 {
					if _, ok := ex.Tuple.(*ssa.Lookup); ok {
						continue
					}
				}
				if _, x, _, ok := f.Cmp(); ok && strings.Contains(path(x), "rangeindex") {
					continue
				}
				if op, x, y, ok := f.Cmp(); ok && op == token.LSS {
					_, _ = x, y
					continue // loop bound
				}
				extra++
			}
			if !unknown || extra > 0 {
				bad = "a digest entry can be skipped although the node is known (facts on the skipping edge " + factStrings(facts) + "): its newer state - such as a departed node's final state with the left marker - is never relayed to the requester"
			}
		}
		c.check(bad == "", rule, fnName(fn)+"/answers-every-known-node", cl.Pos(), "every node of the digest that is known is answered; only unknown nodes are skipped", bad)
	}
	if n == 0 {
		c.fail(rule, fnName(fn)+"/digest-loop", fn.Pos(), "no deltaEntry call over the digest found")
	}
}

func c18Reconnect(c *Ctx) {
	p := c.P
	c.floor("C18.R3", 3)
	n := 0
	for _, fn := range p.ModFuncs {
		if isTestFile(p.Fset, fn.Pos()) || !strings.Contains(fn.String(), modPath+"/client") {
			continue
		}
		var acc, conn *ssa.Call
		allInstrs(fn, func(i ssa.Instruction) {
			cl, ok := i.(*ssa.Call)
			if !ok {
				return
			}
			n := commonName(&cl.Call)
			if strings.Contains(n, "yamux.Session).AcceptStream") {
				acc = cl
			}
			if strings.HasSuffix(n, "client.listener).connect") || strings.HasSuffix(n, "client.Upstream).connect") {
				// the listener's reconnect, or (inlined) the upstream connect it wraps
				conn = cl
			}
		})
		if acc == nil || conn == nil || loopHeader(acc.Block()) == nil {
			continue
		}
		n++
		c.analysed(fnName(fn))
		fs := computeFacts(fn)
		accErr := func(v ssa.Value) bool {
			ex, ok := v.(*ssa.Extract)
			return ok && ex.Tuple == ssa.Value(acc) && ex.Index == 1
		}
		bad := ""
		nStops := 0
		for _, r := range returnsOf(fn) {
			facts := fs.At(r.Block())
			failed := anyFact(facts, func(f Fact) bool { return cmpFact(f, token.NEQ, accErr, isNilConst) })
			if !failed {
				continue // success return
			}
			nStops++
			local := anyFact(facts, func(f Fact) bool {
				return cmpFact(f, token.NEQ, func(v ssa.Value) bool {
					cl, ok := v.(*ssa.Call)
					if !ok || !cl.Call.IsInvoke() || cl.Call.Method.Name() != "Err" {
						return false
					}
					return strings.Contains(cl.Call.Value.Type().String(), "context.Context")
				}, isNilConst)
			})
			isConnErr := func(v ssa.Value) bool {
				if v == ssa.Value(conn) {
					return true
				}
				ex, ok := v.(*ssa.Extract)
				return ok && ex.Tuple == ssa.Value(conn) && ex.Index == conn.Call.Signature().Results().Len()-1
			}
			reconnectFailed := anyFact(facts, func(f Fact) bool { return cmpFact(f, token.NEQ, isConnErr, isNilConst) })
			// any extra disjunct that is not local state weakens the guard: use edge alternatives
			for _, alt := range factAlternatives(fs, r.Block(), 3) {
				l2 := anyFact(alt, func(f Fact) bool {
					return cmpFact(f, token.NEQ, func(v ssa.Value) bool {
						cl, ok := v.(*ssa.Call)
						return ok && cl.Call.IsInvoke() && cl.Call.Method.Name() == "Err" && strings.Contains(cl.Call.Value.Type().String(), "context.Context")
					}, isNilConst)
				})
				r2 := anyFact(alt, func(f Fact) bool { return cmpFact(f, token.NEQ, isConnErr, isNilConst) })
				if !l2 && !r2 {
					local, reconnectFailed = false, false
				}
			}
			if !local && !reconnectFailed {
				bad = "the accept loop gives up at " + p.pos(r.Pos()) + " without a local reason (neither a context's Err() != nil nor a failed reconnect): an error value such as net.ErrClosed is also what pkg/websocket produces when the *server* closes the connection, so the listener stops instead of reconnecting after its node is lost; facts " + factStrings(facts)
			}
		}
		c.check(bad == "" && nStops > 0, "C18.R3", fnName(fn)+"/stop-needs-local-cause", acc.Pos(), fmt.Sprintf("all %d ways out of the accept loop after a failed accept are justified by local state or a failed reconnect", nStops), bad)
		// the reconnect uses the listener's own close context
		_, ownCtx := loadedField(conn.Call.Args[1], p.Field("client", "listener", "closeCtx"))
		c.check(ownCtx, "C18.R3", fnName(fn)+"/reconnect-context", conn.Pos(), "reconnects under the listener's own close context", "the reconnect is not bound to the listener's close context")
	}
	if n == 0 {
		c.fail("C18.R3", "role/accept-and-reconnect-loop", token.NoPos, "no accept loop that reconnects found in the client")
	}
	// reconnect retries forever
	if fn := p.Func("client", "Upstream.connect"); fn != nil {
		c.analysed(fnName(fn))
		okForever := false
		for _, call := range findCalls(fn, modPath+"/pkg/backoff.New") {
			if k, ok := constInt(callCommon(call).Args[0]); ok && k == 0 {
				okForever = true
			}
		}
		c.check(okForever, "C18.R3", fnName(fn)+"/retries-forever", fn.Pos(), "reconnecting has no retry limit (backoff.New(0, …))", "reconnecting gives up after a bounded number of attempts: a listener does not survive an outage longer than the retry budget")
	}
}

// ---------------------------------------------------------------- C19

func runC19(c *Ctx) {
	p := c.P
	c.floor("C19.R1", 6)
	// the average is taken over active nodes, and the local node counts as one: NewState marks it active
	if a := newClusterAnchors(c); a != nil {
		if ns := p.Func(clPkg, "NewState"); ns != nil && len(ns.Params) > 0 {
			c.analysed(fnName(ns))
			local := ssa.Value(ns.Params[0])
			isMark := func(i ssa.Instruction) bool {
				st, ok := i.(*ssa.Store)
				if !ok {
					return false
				}
				b, ok := addrOfField(st.Addr, a.nStatus)
				if !ok || strip(b) != local {
					return false
				}
				s, ok := constString(st.Val)
				return ok && s == a.statusConst["NodeStatusActive"]
			}
			c.check(everyPathEntry(ns, isMark, nil, true) == nil, "C19.R1", fnName(ns)+"/local-node-active", ns.Pos(), "the local node enters the table with Status = active", "the local node is not marked active when the routing table is created: it is left out of the average over active nodes (and of every status report)")
		} else {
			c.fail("C19.anchor", "cluster.NewState", token.NoPos, "not found")
		}
	}
	fn := p.Func(upPkg, "Server.Rebalance")
	if fn == nil {
		c.fail("C19.anchor", "upstream.Server.Rebalance", token.NoPos, "not found")
		return
	}
	c.analysed(fnName(fn))
	fs := computeFacts(fn)
	var shed, local, avg, nodes *ssa.Call
	allInstrs(fn, func(i ssa.Instruction) {
		cl, ok := i.(*ssa.Call)
		if !ok {
			return
		}
		n := commonName(&cl.Call)
		switch {
		case strings.HasSuffix(n, "upstream.Server).shedSessions"):
			shed = cl
		case strings.HasSuffix(n, "upstream.Server).openSessions"):
			local = cl
		case n == stateCall("AvgConns"):
			avg = cl
		case n == stateCall("Nodes"):
			nodes = cl
		}
	})
	if shed == nil || local == nil || avg == nil {
		c.fail("C19.R1", fnName(fn)+"/shape", fn.Pos(), "Rebalance does not compute from openSessions() and cluster.AvgConns() and call shedSessions")
		return
	}
	facts := fs.At(shed.Block())
	isK := func(k int64) func(ssa.Value) bool {
		return func(v ssa.Value) bool { n, ok := constInt(v); return ok && n == k }
	}
	isLocal := func(v ssa.Value) bool { return v == ssa.Value(local) }
	cfg := func(name string) func(ssa.Value) bool {
		return func(v ssa.Value) bool {
			if cv, ok := v.(*ssa.Convert); ok {
				v = cv.X
			}
			return strings.HasSuffix(path(v), ".&config.&Rebalance.&"+name)
		}
	}
	// (a) other nodes known
	c.check(nodes != nil && anyFact(facts, func(f Fact) bool {
		isLen := func(v ssa.Value) bool {
			cl, ok := v.(*ssa.Call)
			if !ok {
				return false
			}
			b, ok := cl.Call.Value.(*ssa.Builtin)
			return ok && b.Name() == "len" && cl.Call.Args[0] == ssa.Value(nodes)
		}
		return cmpFact(f, token.GTR, isLen, isK(1)) || cmpFact(f, token.GEQ, isLen, isK(2))
	}), "C19.R1", fnName(fn)+"/guard-other-nodes", shed.Pos(), "sheds only when len(cluster.Nodes()) > 1", "shedding is not guarded by `more than one node known` (len(cluster.Nodes()) > 1); facts "+factStrings(facts))
	// (b) connections
	c.check(anyFact(facts, func(f Fact) bool {
		return cmpFact(f, token.NEQ, isLocal, isK(0)) || cmpFact(f, token.GTR, isLocal, isK(0))
	}),
		"C19.R1", fnName(fn)+"/guard-has-conns", shed.Pos(), "sheds only with open sessions", "shedding is not guarded by openSessions() != 0")
	c.check(anyFact(facts, func(f Fact) bool { return cmpFact(f, token.GEQ, isLocal, cfg("MinConns")) }),
		"C19.R1", fnName(fn)+"/guard-min-conns", shed.Pos(), "sheds only at or above Rebalance.MinConns", "shedding is not guarded by openSessions() >= Rebalance.MinConns; facts "+factStrings(facts))
	// (c) balance = float(local-avg)/float(avg) >= Threshold
	isBalance := func(v ssa.Value) bool {
		bo, ok := v.(*ssa.BinOp)
		if !ok || bo.Op != token.QUO {
			return false
		}
		num, ok1 := bo.X.(*ssa.Convert)
		den, ok2 := bo.Y.(*ssa.Convert)
		if !ok1 || !ok2 || den.X != ssa.Value(avg) {
			return false
		}
		sub, ok := num.X.(*ssa.BinOp)
		return ok && sub.Op == token.SUB && sub.X == ssa.Value(local) && sub.Y == ssa.Value(avg)
	}
	var balance ssa.Value
	okBal := anyFact(facts, func(f Fact) bool {
		if cmpFact(f, token.GEQ, isBalance, cfg("Threshold")) {
			_, x, y, _ := f.Cmp()
			if isBalance(x) {
				balance = x
			} else {
				balance = y
			}
			return true
		}
		return false
	})
	c.check(okBal, "C19.R1", fnName(fn)+"/guard-threshold", shed.Pos(), "sheds only when (local - avg)/avg >= Rebalance.Threshold", "shedding is not guarded by (openSessions - AvgConns)/AvgConns >= Rebalance.Threshold; facts "+factStrings(facts))
	// n
	nOK, why := false, "the shed count is not int(local*balance) capped by ceil(avg*ShedRate)"
	if cv, ok := shed.Call.Args[1].(*ssa.Convert); ok {
		if ph, ok := cv.X.(*ssa.Phi); ok && len(ph.Edges) == 2 {
			isWant := func(v ssa.Value) bool {
				bo, ok := v.(*ssa.BinOp)
				if !ok || bo.Op != token.MUL {
					return false
				}
				cvl, ok := bo.X.(*ssa.Convert)
				return ok && cvl.X == ssa.Value(local) && balance != nil && bo.Y == balance
			}
			isCapProd := func(v ssa.Value) bool {
				bo, ok := v.(*ssa.BinOp)
				if !ok || bo.Op != token.MUL {
					return false
				}
				cva, ok := bo.X.(*ssa.Convert)
				return ok && cva.X == ssa.Value(avg) && cfg("ShedRate")(bo.Y)
			}
			var wantEdge, capEdge = -1, -1
			for k, e := range ph.Edges {
				if isWant(e) {
					wantEdge = k
				}
				if cl, ok := e.(*ssa.Call); ok && commonName(&cl.Call) == "math.Ceil" && isCapProd(cl.Call.Args[0]) {
					capEdge = k
				}
			}
			if wantEdge >= 0 && capEdge >= 0 {
				ef := fs.OnEdge(ph.Block().Preds[capEdge], ph.Block())
				over := anyFact(ef, func(f Fact) bool { return cmpFact(f, token.GTR, isWant, isCapProd) })
				uf := fs.OnEdge(ph.Block().Preds[wantEdge], ph.Block())
				under := anyFact(uf, func(f Fact) bool { return cmpFact(f, token.LEQ, isWant, isCapProd) })
				nOK = over && under
				if !nOK {
					why = "the cap ceil(avg*ShedRate) is not applied exactly when local*balance exceeds avg*ShedRate"
				}
			}
		}
	}
	c.check(nOK, "C19.R1", fnName(fn)+"/shed-count", shed.Pos(), "n = int(local*balance), replaced by ceil(avg*ShedRate) exactly when larger", why)
	// ---- R2 ----
	c.floor("C19.R2", 2)
	var callers []*ssa.Function
	for _, f := range p.ModFuncs {
		if isTestFile(p.Fset, f.Pos()) {
			continue
		}
		if len(findCalls(f, "(*"+modPath+"/server/upstream.Server).Rebalance")) > 0 {
			callers = append(callers, f)
		}
	}
	c.check(len(callers) == 1 && strings.HasSuffix(callers[0].String(), "server.Server).upstreamRebalance"), "C19.R2", "callers-of Rebalance", fn.Pos(), "Rebalance is called only from the rebalance ticker loop", fmt.Sprintf("Rebalance is called from %d places", len(callers)))
	if len(callers) == 1 {
		tick := callers[0]
		started := 0
		for _, f := range p.ModFuncs {
			if isTestFile(p.Fset, f.Pos()) {
				continue
			}
			for _, call := range findCalls(f, commonNameOfFn(tick)) {
				started++
				// walk up closures to a function with facts about Threshold
				top := f
				var site ssa.Instruction = call
				guard := false
				for top != nil {
					tf := computeFacts(top)
					if anyFact(tf.At(site.Block()), func(fc Fact) bool {
						return cmpFact(fc, token.NEQ, func(v ssa.Value) bool { return strings.HasSuffix(path(v), ".&Rebalance.&Threshold") }, func(v ssa.Value) bool {
							if k, ok := constInt(v); ok && k == 0 {
								return true
							}
							cst, ok := strip(v).(*ssa.Const)
							return ok && cst.Value != nil && cst.Value.String() == "0"
						})
					}) {
						guard = true
					}
					if top.Parent() == nil {
						break
					}
					// the MakeClosure creating `top` in its parent
					par := top.Parent()
					var mcI ssa.Instruction
					allInstrs(par, func(i ssa.Instruction) {
						if mc, ok := i.(*ssa.MakeClosure); ok && mc.Fn == ssa.Value(top) {
							mcI = i
						}
					})
					if mcI == nil {
						break
					}
					top, site = par, mcI
				}
				c.check(guard, "C19.R2", fnName(f)+"/ticker-gated", call.Pos(), "the rebalance loop is started only under Rebalance.Threshold != 0", "the rebalance loop is started without the guard Rebalance.Threshold != 0: connections are shed although rebalancing is disabled")
			}
		}
		if started == 0 {
			c.fail("C19.R2", "ticker-start", tick.Pos(), "the rebalance loop is never started")
		}
	}
	// ---- R3 ----
	c19R3(c)
}

func c19R3(c *Ctx) {
	p := c.P
	c.floor("C19.R3", 3)
	if shed := p.Func(upPkg, "Server.shedSessions"); shed != nil {
		c.analysed(fnName(shed))
		fs := computeFacts(shed)
		nP := ssa.Value(shed.Params[1])
		// loop exit under len(collected) >= n, here or in a helper that is given n
		var stopsAtN func(fn *ssa.Function, nV ssa.Value, depth int) bool
		stopsAtN = func(fn *ssa.Function, nV ssa.Value, depth int) bool {
			for _, b := range fn.Blocks {
				if len(b.Instrs) == 0 {
					continue
				}
				if iff, ok := b.Instrs[len(b.Instrs)-1].(*ssa.If); ok {
					f := mkFact(iff.Cond, true)
					if cmpFact(f, token.GEQ, func(v ssa.Value) bool {
						cl, ok := v.(*ssa.Call)
						if !ok {
							return false
						}
						bi, ok := cl.Call.Value.(*ssa.Builtin)
						return ok && bi.Name() == "len"
					}, func(v ssa.Value) bool { return v == nV }) {
						hdr := loopHeader(b)
						if hdr != nil && !(hdr.Dominates(b.Succs[0]) && reachesBlock(b.Succs[0], hdr)) {
							return true
						}
					}
				}
			}
			if depth < 2 {
				found := false
				allInstrs(fn, func(i ssa.Instruction) {
					cl, ok := i.(*ssa.Call)
					if !ok {
						return
					}
					cal := cl.Call.StaticCallee()
					if cal == nil || !inModule(cal) || len(cal.Blocks) == 0 {
						return
					}
					for k, a := range cl.Call.Args {
						if a == nV && k < len(cal.Params) && stopsAtN(cal, cal.Params[k], depth+1) {
							found = true
						}
					}
				})
				return found
			}
			return false
		}
		okStop := stopsAtN(shed, nP, 0)
		c.check(okStop, "C19.R3", fnName(shed)+"/stops-at-n", shed.Pos(), "collecting stops as soon as len(shedding) >= n", "the collection loop does not stop exactly when n sessions have been collected")
		li := computeLocks(p)
		sessMu := p.Field(upPkg, "Server", "sessionsMu")
		for _, call := range findCalls(shed, "(*github.com/andydunstall/yamux.Session).Close") {
			c.check(!li.may[call][sessMu], "C19.R3", fnName(shed)+"/close-outside-lock", call.Pos(), "sessions are closed without holding sessionsMu", "sessions are closed while holding sessionsMu (Close can block and removeSession needs the lock)")
		}
		_ = fs
	}
	if avg := p.Func(clPkg, "State.AvgConns"); avg != nil {
		c.analysed(fnName(avg))
		fs := computeFacts(avg)
		statusF := p.Field(clPkg, "Node", "Status")
		endF := p.Field(clPkg, "Node", "Endpoints")
		active := ""
		if sp := p.Pkg(clPkg); sp != nil {
			if k := sp.Const("NodeStatusActive"); k != nil {
				active, _ = constString(k.Value)
			}
		}
		isActiveFact := func(facts []Fact) bool {
			return anyFact(facts, func(f Fact) bool {
				return cmpFact(f, token.EQL, func(v ssa.Value) bool { _, ok := loadedField(v, statusF); return ok }, func(v ssa.Value) bool { s, ok := constString(v); return ok && s == active })
			})
		}
		// accumulators: phis incremented under the active fact only
		sumOK, cntOK := false, false
		var sumPhi, cntPhi ssa.Value
		allInstrs(avg, func(i ssa.Instruction) {
			bo, ok := i.(*ssa.BinOp)
			if !ok || bo.Op != token.ADD {
				return
			}
			facts := fs.At(bo.Block())
			if !isActiveFact(facts) {
				if _, isPhi := bo.X.(*ssa.Phi); isPhi {
					if one, ok := constInt(bo.Y); ok && one == 1 && strings.Contains(bo.X.(*ssa.Phi).Comment, "range") {
						return // range index
					}
					// an accumulator advanced outside the active guard
					if bo.X.(*ssa.Phi).Comment == "totalConns" || bo.X.(*ssa.Phi).Comment == "nodes" {
						sumOK, cntOK = false, false
					}
				}
				return
			}
			if one, ok := constInt(bo.Y); ok && one == 1 {
				if ph, ok := bo.X.(*ssa.Phi); ok && !strings.Contains(ph.Comment, "range") {
					cntOK, cntPhi = true, ph
					// every active node counts, whatever it holds: an idle (freshly joined, drained) node
					// left out of the divisor inflates the average and the others shed too much or not at all
					for _, f := range facts {
						if isActiveFact([]Fact{f}) {
							continue
						}
						// (loop bookkeeping: the outer range continues, the inner range over the endpoints is exhausted)
						if ex, ok := f.V.(*ssa.Extract); ok && ex.Index == 0 {
							if _, isNext := ex.Tuple.(*ssa.Next); isNext {
								continue
							}
						}
						c.check(false, "C19.R3", fnName(avg)+"/every-active-node-counted", bo.Pos(), "the node counter advances for every active node",
							"an active node is counted only under the extra condition "+f.String()+": the divisor is not the number of active nodes")
					}
				}
				return
			}
			// += conns where conns ranges over node.Endpoints
			if ex, ok := bo.Y.(*ssa.Extract); ok {
				if nx, ok := ex.Tuple.(*ssa.Next); ok {
					if rg, ok := nx.Iter.(*ssa.Range); ok {
						if _, ok := loadedField(rg.X, endF); ok {
							sumOK, sumPhi = true, bo.X
						}
					}
				}
			}
		})
		divOK := false
		for _, r := range returnsOf(avg) {
			if bo, ok := returnValues(r)[0].(*ssa.BinOp); ok && bo.Op == token.QUO {
				divOK = flowsPhi(bo.X, sumPhi) && flowsPhi(bo.Y, cntPhi)
			}
		}
		c.check(sumOK && cntOK && divOK, "C19.R3", fnName(avg)+"/average-over-active", avg.Pos(), "sum of endpoint counts of active nodes divided by the number of active nodes", "AvgConns is not (sum of the active nodes' endpoint counts) / (number of active nodes)")
	} else {
		c.fail("C19.anchor", "cluster.State.AvgConns", token.NoPos, "not found")
	}
}

// flowsPhi: v and target belong to the same accumulator (phi web).
func flowsPhi(v, target ssa.Value) bool {
	if target == nil || v == nil {
		return false
	}
	seen := map[ssa.Value]bool{}
	var web func(x ssa.Value)
	web = func(x ssa.Value) {
		if x == nil || seen[x] {
			return
		}
		seen[x] = true
		switch y := x.(type) {
		case *ssa.Phi:
			for _, e := range y.Edges {
				web(e)
			}
		case *ssa.BinOp:
			web(y.X)
		}
	}
	web(v)
	return seen[target]
}

var _ = types.Typ

// c07DialReleased (C07.R6): a connection dialled to an upstream by the TCP
// route is released on every path: a deferred or direct Close, or a hand-over
// to the copy pair (which closes both legs). Without it a failed WebSocket
// upgrade leaks the upstream leg (the listener keeps an accepted, idle stream).
func c07DialReleased(c *Ctx) {
	p := c.P
	c.floor("C07.R6", 2)
	for _, fn := range pkgFuncs(p, "server/proxy", "agent/tcpproxy") {
		if strings.HasSuffix(baseName(fn), "dialUpstream") {
			continue // the transport owns what its dial hook returns
		}
		allInstrs(fn, func(i ssa.Instruction) {
			cl, ok := i.(*ssa.Call)
			if !ok {
				return
			}
			if !isNetDial(cl, 0) || isDialHelper(fn, 0) {
				// (inside a dial helper the connection is returned: its caller is responsible)
				return
			}
			var conn, errv ssa.Value
			for _, r := range *cl.Referrers() {
				if ex, ok := r.(*ssa.Extract); ok {
					if ex.Index == 0 {
						conn = ex
					} else {
						errv = ex
					}
				}
			}
			if conn == nil || errv == nil {
				return
			}
			c.analysed(fnName(fn))
			releases := func(in ssa.Instruction) bool {
				cc := callCommon(in)
				if cc == nil {
					return false
				}
				if cc.IsInvoke() && cc.Method.Name() == "Close" && strip(cc.Value) == conn {
					return true
				}
				if !cc.IsInvoke() {
					for _, a := range cc.Args {
						if strip(a) == conn {
							if f := cc.StaticCallee(); f != nil && closesParam(f, cc, conn) {
								return true
							}
						}
					}
				}
				return false
			}
			paths, complete := enumPaths(cl, releases, nil, func(pa *fpath) bool { return len(pa.seen) > 0 }, 400)
			bad := ""
			if !complete {
				bad = "too many paths"
			}
			for _, pa := range paths {
				if len(pa.seen) > 0 || pa.endWhy == "panic" {
					continue
				}
				if anyFact(pa.facts, func(f Fact) bool {
					return cmpFact(f, token.NEQ, func(v ssa.Value) bool { return strip(v) == errv }, isNilConst)
				}) {
					continue // the dial failed: nothing to release
				}
				bad = "a path after a successful Dial ends at " + p.pos(pa.end.Pos()) + " without closing the upstream connection or handing it to the copy pair"
			}
			c.check(bad == "", "C07.R6", fnName(fn)+"/dialled-leg-released", cl.Pos(), "closed (deferred or direct) or handed to the copy pair on every path", bad)
		})
	}
}

// closesParam: callee closes (directly, deferred, or in a goroutine it waits for) the parameter bound to v.
func closesParam(f *ssa.Function, cc *ssa.CallCommon, v ssa.Value) bool {
	idx := -1
	_, args := recvAndArgs(cc)
	off := len(cc.Args) - len(args)
	for i, a := range cc.Args {
		if strip(a) == v {
			idx = i
		}
	}
	_ = off
	if idx < 0 || idx >= len(f.Params) {
		return false
	}
	pv := f.Params[idx]
	found := false
	for _, g := range withAnon(f) {
		allInstrs(g, func(in ssa.Instruction) {
			c2 := callCommon(in)
			if c2 == nil || !c2.IsInvoke() || c2.Method.Name() != "Close" {
				return
			}
			x := strip(c2.Value)
			if x == ssa.Value(pv) {
				found = true
			}
			// captured by a goroutine closure
			if fv, ok := x.(*ssa.FreeVar); ok {
				for k, b := range g.FreeVars {
					if b == fv {
						if mc := makeClosureOf(g); mc != nil && k < len(mc.Bindings) {
							if bindsParam(mc.Bindings[k], pv) {
								found = true
							}
						}
					}
				}
			}
			if u, ok := x.(*ssa.UnOp); ok {
				if fv, ok := u.X.(*ssa.FreeVar); ok {
					for k, b := range g.FreeVars {
						if b == fv {
							if mc := makeClosureOf(g); mc != nil && k < len(mc.Bindings) {
								if bindsParam(mc.Bindings[k], pv) {
									found = true
								}
							}
						}
					}
				}
			}
		})
	}
	return found
}

func makeClosureOf(g *ssa.Function) *ssa.MakeClosure {
	par := g.Parent()
	if par == nil {
		return nil
	}
	var out *ssa.MakeClosure
	allInstrs(par, func(i ssa.Instruction) {
		if mc, ok := i.(*ssa.MakeClosure); ok && mc.Fn == ssa.Value(g) {
			out = mc
		}
	})
	return out
}

// bindsParam: the closure binding is the parameter, or the cell it was spilled to.
func bindsParam(b ssa.Value, pv *ssa.Parameter) bool {
	if strip(b) == ssa.Value(pv) {
		return true
	}
	if al, ok := b.(*ssa.Alloc); ok {
		for _, r := range *al.Referrers() {
			if st, ok := r.(*ssa.Store); ok && st.Addr == ssa.Value(al) && strip(st.Val) == ssa.Value(pv) {
				return true
			}
		}
	}
	return false
}

// c07Spliced (C07.R7): once the TCP route has both legs - the dialled upstream
// connection and the upgraded downstream WebSocket - every path hands exactly
// those two to the copy pair.
func c07Spliced(c *Ctx) {
	p := c.P
	// the agent's TCP proxy: the accepted stream and the dialled service connection are spliced
	if fn, fwd := p.Func("agent/tcpproxy", "Server.serveConn"), p.Func("agent/tcpproxy", "Server.forward"); fn != nil && fwd != nil {
		c.analysed(fnName(fn))
		var dial *ssa.Call
		allInstrs(fn, func(i ssa.Instruction) {
			if cl, ok := i.(*ssa.Call); ok && isNetDial(cl, 0) {
				dial = cl
			}
		})
		if dial == nil {
			c.fail("C07.R7", fnName(fn)+"/legs", fn.Pos(), "the dial to the local service was not found")
		} else {
			ext := func(idx int) func(ssa.Value) bool {
				return func(v ssa.Value) bool {
					ex, ok := strip(v).(*ssa.Extract)
					return ok && ex.Tuple == ssa.Value(dial) && ex.Index == idx
				}
			}
			isSplice := func(i ssa.Instruction) bool {
				cc := callCommon(i)
				if cc == nil || cc.StaticCallee() != fwd {
					return false
				}
				_, args := recvAndArgs(cc)
				if len(args) != 2 {
					return false
				}
				a0, a1 := strip(args[0]), strip(args[1])
				isConnParam := func(v ssa.Value) bool {
					if pv, ok := v.(*ssa.Parameter); ok {
						return pv == fn.Params[1]
					}
					return loadsParamCell(v, fn.Params[1])
				}
				return (isConnParam(a0) && ext(0)(a1)) || (isConnParam(a1) && ext(0)(a0))
			}
			paths, complete := enumPaths(dial, isSplice, nil, func(pa *fpath) bool { return len(pa.seen) > 0 }, 200)
			bad := ""
			if !complete {
				bad = "too many paths"
			}
			for _, pa := range paths {
				if len(pa.seen) > 0 || pa.endWhy == "panic" {
					continue
				}
				if anyFact(pa.facts, func(f Fact) bool { return cmpFact(f, token.NEQ, ext(1), isNilConst) }) {
					continue
				}
				bad = "after a successful dial a path ends at " + p.pos(pa.end.Pos()) + " without starting the copy pair on (accepted stream, dialled service connection)"
			}
			c.check(bad == "", "C07.R7", fnName(fn)+"/legs-are-spliced", dial.Pos(), "forward(stream, dialled conn) on every path after a successful dial", bad+": the tunnel is accepted but carries no bytes")
		}
	}
	fn := p.Func("server/proxy", "TCPProxy.ServeHTTP")
	fwd := p.Func("server/proxy", "TCPProxy.forward")
	if fn == nil || fwd == nil {
		c.fail("C07.anchor", "TCPProxy.ServeHTTP/forward", token.NoPos, "not found")
		return
	}
	c.analysed(fnName(fn))
	var dial, upg *ssa.Call
	allInstrs(fn, func(i ssa.Instruction) {
		cl, ok := i.(*ssa.Call)
		if !ok {
			return
		}
		if cl.Call.IsInvoke() && cl.Call.Method.Name() == "Dial" {
			dial = cl
		}
		if strings.HasSuffix(commonName(&cl.Call), "gorilla/websocket.Upgrader).Upgrade") {
			upg = cl
		}
	})
	if dial == nil || upg == nil {
		c.fail("C07.R7", fnName(fn)+"/legs", fn.Pos(), "the upstream Dial or the downstream Upgrade was not found")
		return
	}
	ext := func(call *ssa.Call, idx int) func(ssa.Value) bool {
		return func(v ssa.Value) bool {
			ex, ok := strip(v).(*ssa.Extract)
			return ok && ex.Tuple == ssa.Value(call) && ex.Index == idx
		}
	}
	isSplice := func(i ssa.Instruction) bool {
		cc := callCommon(i)
		if cc == nil || cc.StaticCallee() != fwd {
			return false
		}
		_, args := recvAndArgs(cc)
		if len(args) != 2 || !ext(dial, 0)(args[0]) {
			return false
		}
		// downstream = adapter(New) of the upgraded connection
		mi := strip(args[1])
		if m, ok := mi.(*ssa.MakeInterface); ok {
			mi = strip(m.X)
		}
		nc, ok := mi.(*ssa.Call)
		return ok && strings.HasSuffix(commonName(&nc.Call), "pkg/websocket.New") && ext(upg, 0)(nc.Call.Args[0])
	}
	paths, complete := enumPaths(upg, isSplice, nil, func(pa *fpath) bool { return len(pa.seen) > 0 }, 200)
	bad := ""
	if !complete {
		bad = "too many paths"
	}
	for _, pa := range paths {
		if len(pa.seen) > 0 || pa.endWhy == "panic" {
			continue
		}
		if anyFact(pa.facts, func(f Fact) bool { return cmpFact(f, token.NEQ, ext(upg, 1), isNilConst) }) {
			continue // the upgrade failed and has answered the client
		}
		bad = "after a successful upgrade a path ends at " + p.pos(pa.end.Pos()) + " without starting the copy pair on (dialled upstream, upgraded downstream)"
	}
	c.check(bad == "", "C07.R7", fnName(fn)+"/legs-are-spliced", upg.Pos(), "forward(dialled upstream conn, New(upgraded conn)) on every path after a successful upgrade", bad+": the tunnel is established but carries no bytes")
}

// c07MuxConfig (C07.R8): the multiplexer's StreamCloseTimeout is not shortened.
// After one side has closed a stream, yamux resets it when this timer fires,
// and a reset discards the bytes the other side has received but not yet read.
// The library default is the bound the property already lives with; a module
// store of a smaller constant (or of a non-constant) cuts slow readers short.
func c07MuxConfig(c *Ctx) {
	p := c.P
	var def *ssa.Function
	for f := range ssautilAll(p) {
		if f.Name() == "DefaultConfig" && f.Pkg != nil && strings.HasSuffix(f.Pkg.Pkg.Path(), "/yamux") {
			def = f
		}
	}
	var defVal int64 = -1
	if def != nil {
		allInstrs(def, func(i ssa.Instruction) {
			if st, ok := i.(*ssa.Store); ok {
				if fa, ok := st.Addr.(*ssa.FieldAddr); ok {
					if fv, _ := fieldVarOf(fa); fv != nil && fv.Name() == "StreamCloseTimeout" {
						if k, ok := constInt(st.Val); ok {
							defVal = k
						}
					}
				}
			}
		})
	}
	if defVal < 0 {
		c.undecided("C07.R8", "yamux.DefaultConfig/StreamCloseTimeout", token.NoPos, "the library default could not be read from yamux.DefaultConfig")
		return
	}
	c.ok("C07.R8", "yamux.DefaultConfig/StreamCloseTimeout", def.Pos(), fmt.Sprintf("library default %d ns", defVal))
	for _, fn := range p.ModFuncs {
		if isTestFile(p.Fset, fn.Pos()) {
			continue
		}
		allInstrs(fn, func(i ssa.Instruction) {
			st, ok := i.(*ssa.Store)
			if !ok {
				return
			}
			fa, ok := st.Addr.(*ssa.FieldAddr)
			if !ok {
				return
			}
			fv, _ := fieldVarOf(fa)
			if fv == nil || fv.Name() != "StreamCloseTimeout" || fv.Pkg() == nil || !strings.HasSuffix(fv.Pkg().Path(), "/yamux") {
				return
			}
			k, isK := constInt(st.Val)
			c.check(isK && k >= defVal, "C07.R8", fnName(fn)+"/StreamCloseTimeout", st.Pos(), "not below the library default",
				fmt.Sprintf("yamux StreamCloseTimeout is set below the library default (%d ns) or to a non-constant: a stream closed by one side is reset after that time and the bytes its peer has received but not yet read are discarded", defVal))
		})
	}
}

func ssautilAll(p *Prog) map[*ssa.Function]bool {
	out := map[*ssa.Function]bool{}
	for _, pk := range p.SSA.AllPackages() {
		for _, m := range pk.Members {
			if f, ok := m.(*ssa.Function); ok {
				out[f] = true
			}
		}
	}
	return out
}

// c18DialRetry (C18.R7): a dial to the server that failed below HTTP (no
// response at all: refused, reset, handshake cut short, timeout) is reported as
// retryable, whatever the error value. A listener whose node is lost reconnects
// through exactly this path, and an aborted handshake on a node that is going
// away surfaces as a bare io.ErrUnexpectedEOF - classifying by error type turns
// that into a permanent failure and the listener never reaches a survivor.
func c18DialRetry(c *Ctx) {
	p := c.P
	fn := p.Func("pkg/websocket", "Dial")
	if fn == nil {
		c.fail("C18.anchor", "pkg/websocket.Dial", token.NoPos, "not found")
		return
	}
	c.analysed(fnName(fn))
	var dial *ssa.Call
	allInstrs(fn, func(i ssa.Instruction) {
		if cl, ok := i.(*ssa.Call); ok && strings.HasSuffix(commonName(&cl.Call), "gorilla/websocket.Dialer).DialContext") {
			dial = cl
		}
	})
	if dial == nil {
		c.fail("C18.R7", fnName(fn)+"/dial", fn.Pos(), "the WebSocket dial was not found")
		return
	}
	ext := func(idx int) func(ssa.Value) bool {
		return func(v ssa.Value) bool {
			ex, ok := strip(v).(*ssa.Extract)
			return ok && ex.Tuple == ssa.Value(dial) && ex.Index == idx
		}
	}
	paths, complete := enumPaths(dial, nil, nil, nil, 600)
	bad := ""
	if !complete {
		bad = "too many paths"
	}
	n := 0
	for _, pa := range paths {
		if pa.endWhy != "return" || infeasible(pa.facts) {
			continue
		}
		noResp := anyFact(pa.facts, func(f Fact) bool { return cmpFact(f, token.EQL, ext(1), isNilConst) })
		failed := anyFact(pa.facts, func(f Fact) bool { return cmpFact(f, token.NEQ, ext(2), isNilConst) })
		if !noResp || !failed {
			continue
		}
		n++
		rv := returnValues(pa.end.(*ssa.Return))
		ev := strip(rv[len(rv)-1])
		if mi, ok := ev.(*ssa.MakeInterface); ok {
			ev = strip(mi.X)
		}
		cl, ok := ev.(*ssa.Call)
		if !ok || !strings.HasSuffix(commonName(&cl.Call), "pkg/websocket.NewRetryableError") {
			bad = "a dial that failed without any HTTP response returns a non-retryable error at " + p.pos(pa.end.Pos()) + "; facts " + factStrings(pa.facts)
		}
	}
	c.check(bad == "" && n > 0, "C18.R7", fnName(fn)+"/transport-failures-retryable", dial.Pos(), "every failure without an HTTP response is wrapped in RetryableError", bad)
}

// c18ListenerLifetime (C18.R9, C18.R10): what lets a listener notice a lost node
// and keep reconnecting. R9: the context that ends the listener's reconnect loop
// (listener.closeCtx) is rooted in context.Background(), not in a caller's
// context - callers pass a connect-timeout context to Listen, and a listener
// tied to it stops reconnecting once that context has expired. R10: yamux
// keep-alives are never switched off in the module: they are the only way either
// side notices a peer that vanished without a FIN/RST.
func c18ListenerLifetime(c *Ctx) {
	p := c.P
	closeF := p.Field("client", "listener", "closeCtx")
	if closeF == nil {
		c.fail("C18.anchor", "client.listener.closeCtx", token.NoPos, "not found")
		return
	}
	var rooted func(v ssa.Value, d int) (bool, string)
	rooted = func(v ssa.Value, d int) (bool, string) {
		v = strip(v)
		if d > 6 {
			return false, "too deep"
		}
		switch x := v.(type) {
		case *ssa.Extract:
			return rooted(x.Tuple, d+1)
		case *ssa.Call:
			switch commonName(&x.Call) {
			case "context.Background", "context.TODO":
				return true, ""
			case "context.WithCancel", "context.WithTimeout", "context.WithDeadline", "context.WithValue", "context.WithoutCancel":
				if commonName(&x.Call) == "context.WithoutCancel" {
					return true, ""
				}
				return rooted(x.Call.Args[0], d+1)
			}
			return false, "the result of " + commonName(&x.Call)
		case *ssa.Parameter:
			return false, "the caller's context (parameter " + x.Name() + ")"
		case *ssa.UnOp:
			if al, ok := x.X.(*ssa.Alloc); ok {
				if sv, _ := singleStore(al); sv != nil {
					return rooted(sv, d+1)
				}
			}
		}
		return false, path(v)
	}
	n := 0
	for _, st := range p.storesToField(closeF, false) {
		s2, ok := st.Instr.(*ssa.Store)
		if !ok {
			continue
		}
		n++
		good, why := rooted(s2.Val, 0)
		c.check(good, "C18.R9", fnName(st.Fn)+"/close-context-rooted-in-background", st.Instr.Pos(), "closeCtx derives from context.Background() only",
			"the listener's lifetime context derives from "+why+": when that context ends (a connect timeout that has long expired) the listener reports closed instead of reconnecting after its node is lost")
	}
	if n == 0 {
		c.fail("C18.R9", "closeCtx-stores", token.NoPos, "no store to listener.closeCtx found")
	}
	// R10
	defaults := 0
	for _, fn := range p.ModFuncs {
		if isTestFile(p.Fset, fn.Pos()) {
			continue
		}
		allInstrs(fn, func(i ssa.Instruction) {
			if cl, ok := i.(*ssa.Call); ok && strings.HasSuffix(commonName(&cl.Call), "/yamux.DefaultConfig") {
				defaults++
			}
			fa, ok := i.(*ssa.FieldAddr)
			if !ok {
				return
			}
			pt, ok := fa.X.Type().Underlying().(*types.Pointer)
			if !ok || !strings.HasSuffix(pt.Elem().String(), "/yamux.Config") {
				return
			}
			fv, _ := fieldVarOf(fa)
			if fv.Name() != "EnableKeepAlive" {
				return
			}
			for _, r := range *fa.Referrers() {
				if st, ok := r.(*ssa.Store); ok && st.Addr == ssa.Value(fa) {
					on, isK := constBool(st.Val)
					c.check(isK && on, "C18.R10", fnName(fn)+"/yamux-keepalive-stays-on", st.Pos(), "EnableKeepAlive is left at its default (true)",
						"yamux keep-alives are switched off (or made conditional): a node or listener that disappears without closing the connection is never noticed, so the listener never reconnects to a survivor and the server never deregisters it")
				}
			}
		})
	}
	c.check(defaults >= 2, "C18.R10", "yamux-configs-from-defaults", token.NoPos, fmt.Sprintf("%d session configurations start from yamux.DefaultConfig()", defaults),
		fmt.Sprintf("expected the client and the server session configurations to start from yamux.DefaultConfig() (keep-alive on), found %d", defaults))
}

// c18ConnectLoop (C18.R8): the client's connect loop gives up only for a local
// reason. Every return of Upstream.connect after a failed dial carries one of:
// the context is done (ctx.Err() != nil, or the ctx.Done() arm of the wait), or
// errors.As(err, *RetryableError) is false; a failed dial that is retryable
// leads back to the dial (no way out of the loop except a return); a session is
// returned only when the dial succeeded.
func c18ConnectLoop(c *Ctx) {
	p := c.P
	fn := p.Func("client", "Upstream.connect")
	if fn == nil {
		c.fail("C18.anchor", "client.Upstream.connect", token.NoPos, "not found")
		return
	}
	c.analysed(fnName(fn))
	var dial *ssa.Call
	allInstrs(fn, func(i ssa.Instruction) {
		if cl, ok := i.(*ssa.Call); ok && strings.HasSuffix(commonName(&cl.Call), "pkg/websocket.Dial") {
			dial = cl
		}
	})
	if dial == nil || loopHeader(dial.Block()) == nil {
		c.fail("C18.R8", fnName(fn)+"/dial-in-loop", fn.Pos(), "the WebSocket dial is not inside a retry loop")
		return
	}
	dialErr := func(v ssa.Value) bool {
		ex, ok := strip(v).(*ssa.Extract)
		return ok && ex.Tuple == ssa.Value(dial) && ex.Index == 1
	}
	isCtxErr := func(v ssa.Value) bool {
		cl, ok := v.(*ssa.Call)
		return ok && cl.Call.IsInvoke() && cl.Call.Method.Name() == "Err" && strings.Contains(cl.Call.Value.Type().String(), "context.Context")
	}
	paths, complete := enumPaths(dial, nil, nil, nil, 600)
	bad := ""
	if !complete {
		bad = "too many paths"
	}
	nStop, nLoop, nOK := 0, 0, 0
	for _, pa := range paths {
		if infeasible(pa.facts) {
			continue
		}
		failed := anyFact(pa.facts, func(f Fact) bool { return cmpFact(f, token.NEQ, dialErr, isNilConst) })
		succeeded := anyFact(pa.facts, func(f Fact) bool { return cmpFact(f, token.EQL, dialErr, isNilConst) })
		switch pa.endWhy {
		case "return":
			rv := returnValues(pa.end.(*ssa.Return))
			if succeeded {
				nOK++
				continue
			}
			if !failed {
				continue
			}
			if !isNilConst(rv[0]) {
				bad = "a session is returned at " + p.pos(pa.end.Pos()) + " although the dial failed"
				continue
			}
			nStop++
			ctxDone := anyFact(pa.facts, func(f Fact) bool { return cmpFact(f, token.NEQ, isCtxErr, isNilConst) })
			// the ctx.Done() arm of a select
			selDone := anyFact(pa.facts, func(f Fact) bool {
				op, x, y, ok := f.Cmp()
				if !ok || op != token.EQL {
					return false
				}
				ex, ok := x.(*ssa.Extract)
				if !ok {
					return false
				}
				sel, ok := ex.Tuple.(*ssa.Select)
				if !ok || ex.Index != 0 {
					return false
				}
				k, ok := constInt(y)
				if !ok || int(k) >= len(sel.States) {
					return false
				}
				dc, ok := sel.States[k].Chan.(*ssa.Call)
				return ok && dc.Call.IsInvoke() && dc.Call.Method.Name() == "Done"
			})
			notRetryable := anyFact(pa.facts, func(f Fact) bool {
				cl, ok := f.V.(*ssa.Call)
				return ok && !f.T && commonName(&cl.Call) == "errors.As" && dialErr(cl.Call.Args[0])
			})
			if !ctxDone && !selDone && !notRetryable {
				bad = "the connect loop gives up at " + p.pos(pa.end.Pos()) + " after a failed dial without a local reason (context done, or the error is not retryable); facts " + factStrings(pa.facts)
			}
		case "loop":
			if failed {
				nLoop++
			}
		case "panic":
		default:
			if failed {
				bad = "a path after a failed dial leaves the retry loop at " + p.pos(pa.end.Pos())
			}
		}
	}
	// the loop has no exit other than returns
	hdr := loopHeader(dial.Block())
	body := naturalLoop(hdr)
	for b := range body {
		for _, s := range b.Succs {
			if !body[s] && !onlyReturnsFrom(s) {
				bad = "the retry loop can be left without returning (break) at " + p.pos(b.Instrs[len(b.Instrs)-1].Pos())
			}
		}
	}
	c.check(bad == "" && nLoop > 0 && nOK > 0 && nStop > 0, "C18.R8", fnName(fn)+"/retries-until-local-reason", dial.Pos(), fmt.Sprintf("%d give-up paths all justified, %d retry paths, %d success paths", nStop, nLoop, nOK), bad+": a listener whose node was lost stops reconnecting (or reports a session it does not have)")
	// unlimited retries
}

// onlyReturnsFrom: every path from b ends in a return or panic (no fallthrough into code after a loop).
func onlyReturnsFrom(b *ssa.BasicBlock) bool {
	seen := map[*ssa.BasicBlock]bool{}
	var rec func(x *ssa.BasicBlock) bool
	rec = func(x *ssa.BasicBlock) bool {
		if seen[x] {
			return true
		}
		seen[x] = true
		if len(x.Succs) == 0 {
			return true
		}
		for _, s := range x.Succs {
			if !rec(s) {
				return false
			}
		}
		return true
	}
	return rec(b)
}

// isNetDial: a call that opens a connection: an upstream's Dial, a net dial API,
// or a module helper that returns such a connection (a function all of whose
// non-nil first results are dial results).
func isNetDial(cl *ssa.Call, depth int) bool {
	if cl.Call.IsInvoke() && cl.Call.Method.Name() == "Dial" {
		return true
	}
	switch commonName(&cl.Call) {
	case "(*net.Dialer).Dial", "(*net.Dialer).DialContext", "net.Dial", "net.DialTimeout":
		return true
	}
	if sc := cl.Call.StaticCallee(); sc != nil && inModule(sc) && sc.Blocks != nil && depth < 2 && isDialHelper(sc, depth) {
		return true
	}
	return false
}

func isDialHelper(fn *ssa.Function, depth int) bool {
	res := fn.Signature.Results()
	if res.Len() != 2 || !strings.HasSuffix(res.At(0).Type().String(), "net.Conn") {
		return false
	}
	n := 0
	for _, r := range returnsOf(fn) {
		rv := returnValues(r)
		if isNilConst(rv[0]) {
			continue
		}
		v := strip(rv[0])
		if mi, ok := v.(*ssa.MakeInterface); ok {
			v = strip(mi.X)
		}
		ex, ok := v.(*ssa.Extract)
		if !ok || ex.Index != 0 {
			return false
		}
		cl, ok := ex.Tuple.(*ssa.Call)
		if !ok || !isNetDial(cl, depth+1) {
			return false
		}
		n++
	}
	return n > 0
}
