package main

import (
	"fmt"
	"go/token"
	"strings"

	"golang.org/x/tools/go/ssa"
)

// Wiring rules: thin layers that the behavioural rules silently rely on.
// A façade must hand its arguments to the implementation on every path; a
// periodic driver must actually be scheduled and must actually call its task.

type facadeSpec struct {
	pkg, fn string // the façade
	callee  string // suffix of the implementation's full name
	extra   string // "" or "time.Now": an extra trailing argument
	ret     bool   // the façade returns the implementation's result
}

func facadeRule(c *Ctx, rule string, specs []facadeSpec) {
	p := c.P
	for _, sp := range specs {
		fn := p.Func(sp.pkg, sp.fn)
		if fn == nil {
			c.fail(rule, "anchor/"+sp.fn, token.NoPos, "façade not found")
			continue
		}
		c.analysed(fnName(fn))
		own := fn.Params[1:]
		var theCall *ssa.Call
		isFwd := func(i ssa.Instruction) bool {
			cl, ok := i.(*ssa.Call)
			if !ok {
				return false
			}
			if !strings.HasSuffix(commonName(&cl.Call), sp.callee) {
				return false
			}
			_, args := recvAndArgs(&cl.Call)
			want := len(own)
			if sp.extra != "" {
				want++
			}
			if len(args) != want {
				return false
			}
			for k, pv := range own {
				if strip(args[k]) != ssa.Value(pv) {
					return false
				}
			}
			if sp.extra != "" {
				ec, ok := strip(args[len(args)-1]).(*ssa.Call)
				if !ok || commonName(&ec.Call) != sp.extra {
					return false
				}
			}
			theCall = cl
			return true
		}
		end := everyPathEntry(fn, isFwd, nil, true)
		good := end == nil
		why := "a path through the façade does not hand its arguments to " + sp.callee
		if good && sp.ret {
			for _, r := range returnsOf(fn) {
				rv := returnValues(r)
				if len(rv) == 0 || theCall == nil {
					good = false
					continue
				}
				if strip(rv[0]) != ssa.Value(theCall) {
					if ex, ok := strip(rv[0]).(*ssa.Extract); !ok || ex.Tuple != ssa.Value(theCall) {
						good, why = false, "the façade does not return the implementation's result"
					}
				}
			}
		}
		c.check(good, rule, fnName(fn)+"/forwards", fn.Pos(), "forwards its arguments to "+sp.callee+" on every path", why+": callers' writes, reports or sweeps silently do nothing")
	}
}

// driverRule: the constructor starts the scheduler; the scheduler starts a
// ticker loop for each named task; the ticker loop calls its task and ends
// only on shutdown.
func driverRule(c *Ctx, rule string, tasks []string) {
	p := c.P
	newFn := p.Func(gsPkg, "New")
	sched := p.Func(gsPkg, "Gossip.schedule")
	loop := p.Func(gsPkg, "Gossip.scheduleFunc")
	if newFn == nil || sched == nil || loop == nil {
		c.fail(rule, "anchor/scheduler", token.NoPos, "pkg/gossip.New, Gossip.schedule or Gossip.scheduleFunc not found")
		return
	}
	c.analysed(fnName(newFn))
	c.analysed(fnName(sched))
	c.analysed(fnName(loop))
	// New -> schedule on every path that returns a Gossip
	isSched := func(i ssa.Instruction) bool {
		cc := callCommon(i)
		return cc != nil && cc.StaticCallee() == sched
	}
	bad := ""
	paths, complete := enumPathsAt(newFn.Blocks[0], 0, isSched, nil, nil, 2000)
	if !complete {
		bad = "too many paths"
	}
	for _, pa := range paths {
		if pa.endWhy != "return" || len(pa.seen) > 0 {
			continue
		}
		rv := returnValues(pa.end.(*ssa.Return))
		if len(rv) > 0 && isNilConst(rv[0]) {
			continue
		}
		bad = "a Gossip is returned at " + p.pos(pa.end.Pos()) + " without starting the scheduler"
	}
	c.check(bad == "", rule, fnName(newFn)+"/starts-scheduler", newFn.Pos(), "schedule() runs before the Gossip is handed out", bad+": no gossip round, liveness evaluation, compaction or expiry ever runs")
	// schedule: one `go scheduleFunc(_, closure)` per task, on every path, closure calls the task on every path
	for _, task := range tasks {
		var starts []ssa.Instruction
		allInstrs(sched, func(i ssa.Instruction) {
			g, ok := i.(*ssa.Go)
			if !ok || g.Call.StaticCallee() != loop {
				return
			}
			var clo *ssa.Function
			for _, a := range g.Call.Args {
				if mc, ok := a.(*ssa.MakeClosure); ok {
					clo, _ = mc.Fn.(*ssa.Function)
				}
			}
			if clo == nil {
				return
			}
			isTask := func(in ssa.Instruction) bool {
				cc := callCommon(in)
				return cc != nil && strings.HasSuffix(commonName(cc), task)
			}
			if everyPathEntry(clo, isTask, nil, true) == nil {
				starts = append(starts, i)
			}
		})
		good := false
		if len(starts) > 0 {
			isStart := func(i ssa.Instruction) bool {
				for _, s := range starts {
					if s == i {
						return true
					}
				}
				return false
			}
			good = everyPathEntry(sched, isStart, nil, true) == nil
		}
		c.check(good, rule, fnName(sched)+"/drives["+shortName(task)+"]", sched.Pos(), "a ticker goroutine whose task always calls "+shortName(task)+" is started on every path", "the periodic task "+shortName(task)+" is never started (or its closure can skip the call): the behaviour it implements never happens")
	}
	// scheduleFunc: calls f inside a loop; returns only on the shutdown channel
	fParam := loop.Params[len(loop.Params)-1]
	called := false
	allInstrs(loop, func(i ssa.Instruction) {
		cl, ok := i.(*ssa.Call)
		if !ok || cl.Call.IsInvoke() {
			return
		}
		if strip(cl.Call.Value) == ssa.Value(fParam) || loadsParamCell(cl.Call.Value, fParam) {
			if loopHeader(cl.Block()) != nil {
				called = true
			}
		}
	})
	c.check(called, rule, fnName(loop)+"/calls-task-in-loop", loop.Pos(), "f() is called inside the ticker loop", "the ticker loop never calls the task it was given")
	shut := p.Field(gsPkg, "Gossip", "shutdownCh")
	isShutdownArm := func(f Fact) bool {
		op, x, y, isCmp := f.Cmp()
		if !isCmp || op != token.EQL {
			return false
		}
		ex, ok := x.(*ssa.Extract)
		if !ok {
			return false
		}
		sel, ok := ex.Tuple.(*ssa.Select)
		if !ok || ex.Index != 0 {
			return false
		}
		k, ok := constInt(y)
		if !ok || int(k) >= len(sel.States) {
			return false
		}
		_, isShut := loadedField(sel.States[k].Chan, shut)
		return isShut
	}
	fs := computeFacts(loop)
	badRet := ""
	for _, r := range returnsOf(loop) {
		if r.Block().Index == 1 && loop.Recover != nil && r.Block() == loop.Recover {
			continue
		}
		ok := anyFact(fs.At(r.Block()), isShutdownArm)
		if !ok {
			// a helper of the same receiver that reports shutdown: `if !g.waitJitter(d) { return }` where every
			// return of that constant inside the helper is the shutdownCh arm of a select
			ok = anyFact(fs.At(r.Block()), func(f Fact) bool {
				cl, isCall := f.V.(*ssa.Call)
				if !isCall {
					return false
				}
				sc := cl.Call.StaticCallee()
				if sc == nil || !inModule(sc) || sc.Blocks == nil {
					return false
				}
				hfs := computeFacts(sc)
				n := 0
				for _, hr := range returnsOf(sc) {
					rv := returnValues(hr)
					if len(rv) != 1 {
						return false
					}
					b, isK := constBool(rv[0])
					if !isK {
						return false
					}
					if b != f.T {
						continue
					}
					n++
					if !anyFact(hfs.At(hr.Block()), isShutdownArm) {
						return false
					}
				}
				return n > 0
			})
		}
		if !ok {
			// the implicit return after an infinite loop is unreachable; only reachable returns count
			if reachableBlocks(loop)[r.Block()] {
				badRet = "the ticker loop can end at " + p.pos(r.Pos()) + " for a reason other than shutdown"
			}
		}
	}
	c.check(badRet == "", rule, fnName(loop)+"/ends-only-on-shutdown", loop.Pos(), "every return is the shutdownCh arm of a select", badRet+": the periodic task silently stops")
	_ = fmt.Sprint
}

// loadsParamCell: v is a load of the cell a parameter was spilled to.
func loadsParamCell(v ssa.Value, pv *ssa.Parameter) bool {
	u, ok := v.(*ssa.UnOp)
	if !ok || u.Op != token.MUL {
		return false
	}
	al, ok := u.X.(*ssa.Alloc)
	if !ok {
		return false
	}
	for _, r := range *al.Referrers() {
		if st, ok := r.(*ssa.Store); ok && st.Addr == ssa.Value(al) && st.Val == ssa.Value(pv) {
			return true
		}
	}
	return false
}
