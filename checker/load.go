package main

import (
	"encoding/json"
	"fmt"
	"go/token"
	"go/types"
	"os"
	"sort"
	"strings"

	"golang.org/x/tools/go/callgraph"
	"golang.org/x/tools/go/callgraph/cha"
	"golang.org/x/tools/go/callgraph/vta"
	"golang.org/x/tools/go/packages"
	"golang.org/x/tools/go/ssa"
	"golang.org/x/tools/go/ssa/ssautil"
)

const modPath = "github.com/andydunstall/piko"

// Prog is the loaded, type-checked, SSA-built program under analysis.
type Prog struct {
	Fset    *token.FileSet
	Pkgs    []*packages.Package // module packages only
	AllPkgs int
	SSA     *ssa.Program
	byPath  map[string]*ssa.Package
	CG      *callgraph.Graph

	// ModFuncs are all functions (incl. anonymous and bound/thunk wrappers)
	// whose package is inside the module.
	ModFuncs []*ssa.Function

	LoadErrs []string

	// RenameNotes: functions analysed under their recorded name (see renames.go)
	RenameNotes []string
}

type loadOpts struct {
	dir     string
	tags    string
	tests   bool
	overlay map[string][]byte
	noCG    bool
}

func loadProg(o loadOpts) (*Prog, error) {
	cfg := &packages.Config{
		Mode:    packages.LoadAllSyntax,
		Dir:     o.dir,
		Tests:   o.tests,
		Overlay: o.overlay,
		Env:     append(os.Environ(), "GOWORK=off", "GOFLAGS=-mod=mod", "GOPROXY=off", "GOTOOLCHAIN=local"),
	}
	if o.tags != "" {
		cfg.BuildFlags = []string{"-tags=" + o.tags}
	}
	pkgs, err := packages.Load(cfg, "./...")
	if err != nil {
		return nil, fmt.Errorf("packages.Load: %w", err)
	}
	p := &Prog{byPath: map[string]*ssa.Package{}}
	n := 0
	packages.Visit(pkgs, nil, func(pk *packages.Package) {
		n++
		for _, e := range pk.Errors {
			p.LoadErrs = append(p.LoadErrs, e.Error())
		}
	})
	p.AllPkgs = n
	for _, pk := range pkgs {
		if strings.HasPrefix(pk.PkgPath, modPath) {
			p.Pkgs = append(p.Pkgs, pk)
		}
	}
	if len(pkgs) > 0 {
		p.Fset = pkgs[0].Fset
	}
	if len(p.LoadErrs) > 0 {
		return p, nil
	}
	prog, _ := ssautil.AllPackages(pkgs, ssa.InstantiateGenerics)
	prog.Build()
	p.SSA = prog
	for _, sp := range prog.AllPackages() {
		if sp.Pkg != nil {
			// with Tests:true there may be several variants; prefer the first non-test
			if _, ok := p.byPath[sp.Pkg.Path()]; !ok {
				p.byPath[sp.Pkg.Path()] = sp
			}
		}
	}
	all := ssautil.AllFunctions(prog)
	for f := range all {
		if inModule(f) {
			p.ModFuncs = append(p.ModFuncs, f)
		}
	}
	sort.Slice(p.ModFuncs, func(i, j int) bool { return p.ModFuncs[i].String() < p.ModFuncs[j].String() })
	if !o.noCG {
		p.CG = vta.CallGraph(all, cha.CallGraph(prog))
	}
	p.RenameNotes = resolveRenames(p)
	return p, nil
}

func funcPkg(f *ssa.Function) *types.Package {
	for f != nil {
		if f.Pkg != nil {
			return f.Pkg.Pkg
		}
		if f.Parent() != nil {
			f = f.Parent()
			continue
		}
		if o := f.Origin(); o != nil && o != f {
			f = o
			continue
		}
		if f.Object() != nil {
			return f.Object().Pkg()
		}
		// bound method / thunk wrappers: use receiver's method object
		return nil
	}
	return nil
}

func inModule(f *ssa.Function) bool {
	pk := funcPkg(f)
	if pk == nil {
		// wrappers ($bound/$thunk): decide from name
		return strings.Contains(f.String(), modPath)
	}
	return strings.HasPrefix(pk.Path(), modPath)
}

func isTestFile(fset *token.FileSet, pos token.Pos) bool {
	if !pos.IsValid() {
		return false
	}
	return strings.HasSuffix(fset.Position(pos).Filename, "_test.go")
}

// Pkg returns the SSA package for a module-relative path ("" = root).
func (p *Prog) Pkg(rel string) *ssa.Package {
	path := modPath
	if rel != "" {
		path = modPath + "/" + rel
	}
	return p.byPath[path]
}

// Func resolves a package-level function or a method "T.m" / "(*T).m" in the
// module-relative package.
func (p *Prog) Func(rel, name string) *ssa.Function {
	sp := p.Pkg(rel)
	if sp == nil {
		return nil
	}
	if i := strings.Index(name, "."); i >= 0 {
		tn, mn := name[:i], name[i+1:]
		tm := sp.Type(tn)
		if tm == nil {
			return nil
		}
		T := tm.Type()
		for _, t := range []types.Type{types.NewPointer(T), T} {
			ms := p.SSA.MethodSets.MethodSet(t)
			for i := 0; i < ms.Len(); i++ {
				sel := ms.At(i)
				if sel.Obj().Name() == mn && sel.Obj().Pkg() == sp.Pkg {
					if f := p.SSA.MethodValue(sel); f != nil && f.Synthetic == "" {
						return f
					}
				}
			}
		}
		// renamed since the rules were confirmed?
		return renamedLookup(rel, name)
	}
	if f := sp.Func(name); f != nil {
		return f
	}
	return renamedLookup(rel, name)
}

// NamedType resolves a named type in a module-relative package.
func (p *Prog) NamedType(rel, name string) *types.Named {
	sp := p.Pkg(rel)
	if sp == nil {
		return nil
	}
	tm := sp.Type(name)
	if tm == nil {
		return nil
	}
	n, _ := tm.Type().(*types.Named)
	return n
}

// Field resolves a struct field object of a named struct type.
func (p *Prog) Field(rel, typ, field string) *types.Var {
	n := p.NamedType(rel, typ)
	if n == nil {
		return nil
	}
	st, ok := n.Underlying().(*types.Struct)
	if !ok {
		return nil
	}
	for i := 0; i < st.NumFields(); i++ {
		if st.Field(i).Name() == field {
			return st.Field(i)
		}
	}
	return nil
}

func (p *Prog) pos(pos token.Pos) string {
	if !pos.IsValid() {
		return "-"
	}
	ps := p.Fset.Position(pos)
	fn := ps.Filename
	if i := strings.Index(fn, "/repo/"); i >= 0 {
		fn = fn[i+len("/repo/"):]
	}
	return fmt.Sprintf("%s:%d", fn, ps.Line)
}

func readOverlay(path string) (map[string][]byte, error) {
	if path == "" {
		return nil, nil
	}
	b, err := os.ReadFile(path)
	if err != nil {
		return nil, err
	}
	var m map[string]string
	if err := json.Unmarshal(b, &m); err != nil {
		return nil, err
	}
	out := map[string][]byte{}
	for k, v := range m {
		out[k] = []byte(v)
	}
	return out, nil
}
