package main

import (
	"fmt"
	"go/token"
	"go/types"
	"sort"
	"strings"

	"golang.org/x/tools/go/ssa"
)

const (
	mwPkg   = "pkg/middleware"
	authPkg = "pkg/auth"
)

func init() {
	register(&propDef{
		id: "C09",
		meta: propMeta{
			explanation: "Decides the structural clauses of 'no route runs without a valid token': (R1) in each of the three server constructors, on every path on which a verifier is configured, Use(Auth.Verify) on the gin engine precedes every route or group registration (including those made by callees), the engine is the http.Server's handler, and every other registration site in the module is a method reached after construction on a group derived from that engine; (R2) every path through Auth.Verify either aborts (401, or 500 on the unknown-error arm) or stores the token returned by that very verifier call under err == nil and calls Next; parseToken returns false only after aborting; (R3) JWTVerifier.Verify returns a token only under err == nil and token.Valid, parses with WithValidMethods(v.methods) always and WithAudience/WithIssuer under their non-empty facts, and the module never calls ParseUnverified/WithoutClaimsValidation/UnsafeAllowNoneSignatureType; (R4) per key family the algorithm names enabled equal the case labels that return that family's key, each enabled only under 'that key is configured' (a length test for the byte-slice secret, since it is never nil); (R5) each port's verifier derives from that port's own auth configuration and is non-nil exactly when it is enabled; (R6) x-piko-authorization is read first, Authorization only when it is empty, scheme Bearer. Not decided: cryptographic verification (golang-jwt, keyfunc: trusted). Second round: (R7) error-arm contradiction rule over pkg/auth, pkg/middleware, server/admin, server/status; the C10 rule set runs with this check.",
			ruleText:    "obligation = one constructor path class / registration site / return / option / table row; distinct = distinct keys",
			assumptions: []string{"gin builds a route's handler chain from the group's handlers at registration time; a middleware that returns without Abort lets the chain continue (gin v1.11 routergroup.go/context.go)", "golang-jwt enforces validMethods only when the slice is non-nil and rejects alg none unless explicitly allowed"},
		},
		run: runC09,
		mutants: []mutant{
			{Name: "registerRoutes before Use(auth) in the upstream server", File: "server/upstream/server.go", Old: "\tif verifier != nil {\n\t\tauthMiddleware := middleware.NewAuth(verifier, logger)\n\t\trouter.Use(authMiddleware.Verify)\n\t}\n\n\tserver.registerRoutes(router)\n", New: "\tserver.registerRoutes(router)\n\n\tif verifier != nil {\n\t\tauthMiddleware := middleware.NewAuth(verifier, logger)\n\t\trouter.Use(authMiddleware.Verify)\n\t}\n", Rule: "C09.R1"},
			{Name: "admin forwarding middleware installed ahead of authentication", File: "server/admin/server.go", Old: "\tif verifier != nil {\n\t\tauthMiddleware := middleware.NewAuth(verifier, logger)\n\t\trouter.Use(authMiddleware.Verify)\n\t}\n\n\tif clusterState != nil {\n\t\trouter.Use(server.forwardInterceptor)\n\t}\n", New: "\tif clusterState != nil {\n\t\trouter.Use(server.forwardInterceptor)\n\t}\n\n\tif verifier != nil {\n\t\tauthMiddleware := middleware.NewAuth(verifier, logger)\n\t\trouter.Use(authMiddleware.Verify)\n\t}\n", Rule: "C09.R1"},
			{Name: "AbortWithStatusJSON replaced by JSON on the expired arm", File: "pkg/middleware/auth.go", Old: "\t\t\tc.AbortWithStatusJSON(\n\t\t\t\thttp.StatusUnauthorized,\n\t\t\t\tgin.H{\"error\": \"expired token\"},\n\t\t\t)", New: "\t\t\tc.JSON(\n\t\t\t\thttp.StatusUnauthorized,\n\t\t\t\tgin.H{\"error\": \"expired token\"},\n\t\t\t)", Rule: "C09.R2"},
			{Name: "WithValidMethods dropped", File: "pkg/auth/jwtverifier.go", Old: "\topts := []jwt.ParserOption{\n\t\tjwt.WithValidMethods(v.methods),\n\t}\n", New: "\topts := []jwt.ParserOption{}\n", Rule: "C09.R3"},
			{Name: "case RS256 returns the HMAC secret", File: "pkg/auth/jwtverifier.go", Old: "\t\t\tcase \"HS512\":\n\t\t\t\treturn v.hmacSecretKey, nil\n\t\t\tcase \"RS256\":\n\t\t\t\tfallthrough\n", New: "\t\t\tcase \"HS512\", \"RS256\":\n\t\t\t\treturn v.hmacSecretKey, nil\n", Rule: "C09.R4"},
			{Name: "proxy verifier enabled by the admin port's setting", File: "server/server.go", Old: "\tif conf.Proxy.Auth.Enabled() {\n", New: "\tif conf.Admin.Auth.Enabled() {\n", Rule: "C09.R5"},
			{Name: "Authorization read first", File: "pkg/middleware/auth.go", Old: "\tauthorization := c.Request.Header.Get(\"x-piko-authorization\")\n\tif authorization == \"\" {\n\t\tauthorization = c.Request.Header.Get(\"Authorization\")\n\t}", New: "\tauthorization := c.Request.Header.Get(\"Authorization\")\n\tif authorization == \"\" {\n\t\tauthorization = c.Request.Header.Get(\"x-piko-authorization\")\n\t}", Rule: "C09.R6"},
			{Name: "HMAC family enabled by a nil test", File: "pkg/auth/jwtverifier.go", Old: "\tif len(conf.HMACSecretKey) > 0 {", New: "\tif conf.HMACSecretKey != nil {", Rule: "C09.R4"},
			{Name: "a token already in the context replaces a failed verification", File: "pkg/middleware/auth.go", Old: "\ttoken, err := m.verifier.Verify(tokenString, tenantID)\n\tif err != nil {", New: "\ttoken, err := m.verifier.Verify(tokenString, tenantID)\n\tif prev, ok := c.Get(TokenContextKey); ok && err != nil {\n\t\ttoken, err = prev.(*auth.Token), nil\n\t}\n\tif err != nil {", Rule: "C09.R2"},
			{Name: "invalid token on the proxy port only logged", File: "pkg/middleware/auth.go", Old: "\t\tm.logger.Warn(\n\t\t\t\"unknown verification error\",\n\t\t\tzap.Error(err),\n\t\t)\n\t\tc.AbortWithStatus(http.StatusInternalServerError)\n\t\treturn\n", New: "\t\tm.logger.Warn(\n\t\t\t\"unknown verification error\",\n\t\t\tzap.Error(err),\n\t\t)\n\t\treturn\n", Rule: "C09.R2"},
			{Name: "token returned although not Valid", File: "pkg/auth/jwtverifier.go", Old: "\tif !token.Valid {\n", New: "\tif !token.Valid && v.audience != \"\" {\n", Rule: "C09.R3"},
			{Name: "benign: routes registered through an extra helper", Benign: true, File: "server/upstream/server.go", Old: "\tserver.registerRoutes(router)\n\n\treturn server\n}", New: "\tserver.setup(router)\n\n\treturn server\n}\n\nfunc (s *Server) setup(router *gin.Engine) {\n\ts.registerRoutes(router)\n}"},
		},
	})
	register(&propDef{
		id: "C10",
		meta: propMeta{
			explanation: "Decides 'the endpoint that is checked is the endpoint that is routed' and the tenant selection structurally: (R1) in every handler that reads the verified token, every path to a routing call (a call receiving the endpoint id, or the WebSocket upgrade) either carries the fact 'no token' or passed EndpointPermitted(E) == true on that token for the very value E that is routed - helpers are summarised: a helper's `true` result counts only if each of its true-returns satisfies the same condition; a denied check cannot reach a routing call; (R2) EndpointPermitted is true for an empty list and otherwise exactly slices.Contains(t.Endpoints, id); (R3) the multi-tenant verifier uses the default verifier only when no tenant is named and no tenants are configured, otherwise the verifier stored under exactly the named tenant, stamps that tenant on the token, and refuses everything else; (R4) header names and scheme agree between the client dialer and the middleware, and the token context key is set only by Auth.Verify with the token returned by the verifier call of that request (no cache between requests). Endpoint derivation from the request is C01.R3. Second round: (R6) a tenant's verifier is built from that tenant's configuration only and a default verifier from its port's Auth only.",
			ruleText:    "obligation = one routing call / return / call site / constant; distinct = distinct keys",
			assumptions: []string{"JWT verification binds the token to the tenant's key (C09.R3/R4)"},
		},
		run: runC10,
		mutants: []mutant{
			{Name: "handler checks the Host label but routes the header endpoint", File: "server/proxy/server.go", Old: "\t\tif !endpointToken.EndpointPermitted(endpointID) {\n\t\t\ts.logger.Warn(\n\t\t\t\t\"endpoint not permitted\",\n\t\t\t\tzap.Strings(\"token-endpoints\", endpointToken.Endpoints),\n\t\t\t\tzap.String(\"endpoint-id\", endpointID),\n\t\t\t)\n\t\t\tc.JSON(\n\t\t\t\thttp.StatusUnauthorized,\n\t\t\t\tgin.H{\"error\": \"endpoint not permitted\"},\n\t\t\t)\n\t\t\treturn\n\t\t}\n\t}\n\n\ts.httpProxy.ServeHTTP", New: "\t\tif !endpointToken.EndpointPermitted(strings.Split(c.Request.Host, \".\")[0]) {\n\t\t\ts.logger.Warn(\n\t\t\t\t\"endpoint not permitted\",\n\t\t\t\tzap.Strings(\"token-endpoints\", endpointToken.Endpoints),\n\t\t\t\tzap.String(\"endpoint-id\", endpointID),\n\t\t\t)\n\t\t\tc.JSON(\n\t\t\t\thttp.StatusUnauthorized,\n\t\t\t\tgin.H{\"error\": \"endpoint not permitted\"},\n\t\t\t)\n\t\t\treturn\n\t\t}\n\t}\n\n\ts.httpProxy.ServeHTTP", Rule: "C10.R1"},
			{Name: "EndpointPermitted by prefix", File: "pkg/auth/verifier.go", Old: "\treturn slices.Contains(t.Endpoints, endpointID)\n", New: "\treturn slices.ContainsFunc(t.Endpoints, func(e string) bool { return len(endpointID) >= len(e) && endpointID[:len(e)] == e })\n", Rule: "C10.R2"},
			{Name: "default verifier used although tenants exist", File: "pkg/auth/multi_tenant_verifier.go", Old: "\t\tif len(v.tenantVerifiers) != 0 {\n\t\t\t// If tenants are configured, the default tenant is disabled.\n\t\t\treturn nil, ErrUnknownTenant\n\t\t}\n", New: "", Rule: "C10.R3"},
			{Name: "missing return after the 401 in the TCP route", File: "server/proxy/server.go", Old: "\t\t\tc.JSON(\n\t\t\t\thttp.StatusUnauthorized,\n\t\t\t\tgin.H{\"error\": \"endpoint not permitted\"},\n\t\t\t)\n\t\t\treturn\n\t\t}\n\t}\n\n\ts.tcpProxy.ServeHTTP", New: "\t\t\tc.JSON(\n\t\t\t\thttp.StatusUnauthorized,\n\t\t\t\tgin.H{\"error\": \"endpoint not permitted\"},\n\t\t\t)\n\t\t}\n\t}\n\n\ts.tcpProxy.ServeHTTP", Rule: "C10.R1"},
			{Name: "forwarded requests skip the endpoint check", File: "server/proxy/server.go", Old: "\ttoken, ok := c.Get(middleware.TokenContextKey)\n\tif ok {\n\t\t// If the token contains a set of permitted endpoints, verify the\n\t\t// target endpoint matches one of those endpoints. Otherwise if the\n\t\t// token doesn't contain any endpoints the client can access any\n\t\t// endpoint.\n\t\tendpointToken := token.(*auth.Token)\n\t\tif !endpointToken.EndpointPermitted(endpointID) {\n\t\t\ts.logger.Warn(\n\t\t\t\t\"endpoint not permitted\",\n\t\t\t\tzap.Strings(\"token-endpoints\", endpointToken.Endpoints),\n\t\t\t\tzap.String(\"endpoint-id\", endpointID),\n\t\t\t)\n\t\t\tc.JSON(\n\t\t\t\thttp.StatusUnauthorized,\n\t\t\t\tgin.H{\"error\": \"endpoint not permitted\"},\n\t\t\t)\n\t\t\treturn\n\t\t}\n\t}\n\n\ts.httpProxy.ServeHTTP", New: "\ttoken, ok := c.Get(middleware.TokenContextKey)\n\tif ok && c.Request.Header.Get(\"x-piko-forward\") != \"true\" {\n\t\t// If the token contains a set of permitted endpoints, verify the\n\t\t// target endpoint matches one of those endpoints. Otherwise if the\n\t\t// token doesn't contain any endpoints the client can access any\n\t\t// endpoint.\n\t\tendpointToken := token.(*auth.Token)\n\t\tif !endpointToken.EndpointPermitted(endpointID) {\n\t\t\ts.logger.Warn(\n\t\t\t\t\"endpoint not permitted\",\n\t\t\t\tzap.Strings(\"token-endpoints\", endpointToken.Endpoints),\n\t\t\t\tzap.String(\"endpoint-id\", endpointID),\n\t\t\t)\n\t\t\tc.JSON(\n\t\t\t\thttp.StatusUnauthorized,\n\t\t\t\tgin.H{\"error\": \"endpoint not permitted\"},\n\t\t\t)\n\t\t\treturn\n\t\t}\n\t}\n\n\ts.httpProxy.ServeHTTP", Rule: "C10.R1"},
			{Name: "tenant looked up under a truncated key", File: "pkg/auth/multi_tenant_verifier.go", Old: "\tverifier, ok := v.tenantVerifiers[tenantID]\n", New: "\tverifier, ok := v.tenantVerifiers[tenantID[:min(len(tenantID), 8)]]\n", Rule: "C10.R3"},
			{Name: "upstream handler upgrades before checking", File: "server/upstream/server.go", Old: "\tendpointID := c.Param(\"endpointID\")\n\n\tvar tenantID string\n", New: "\tendpointID := c.Param(\"endpointID\")\n\tif c.Query(\"probe\") != \"\" {\n\t\tif ws, err := s.websocketUpgrader.Upgrade(c.Writer, c.Request, nil); err == nil {\n\t\t\tws.Close()\n\t\t}\n\t\treturn\n\t}\n\n\tvar tenantID string\n", Rule: "C10.R1"},
		},
	})
}

// ---------------------------------------------------------------- C09

var ginRegister = map[string]bool{
	"GET": true, "POST": true, "PUT": true, "DELETE": true, "PATCH": true, "HEAD": true, "OPTIONS": true,
	"Any": true, "Handle": true, "Group": true, "NoRoute": true, "NoMethod": true, "Match": true, "Static": true, "StaticFS": true, "StaticFile": true,
}

func isGinRegistration(i ssa.Instruction) bool {
	cc := callCommon(i)
	if cc == nil {
		return false
	}
	n := commonName(cc)
	if !strings.Contains(n, "github.com/gin-gonic/gin.") {
		return false
	}
	if strings.Contains(n, "gin.RouterGroup).") || strings.Contains(n, "gin.Engine).") || strings.Contains(n, "gin.IRoutes.") || strings.Contains(n, "gin.IRouter.") {
		m := n[strings.LastIndex(n, ".")+1:]
		return ginRegister[m]
	}
	return false
}

// registersRoutes: fn (transitively, depth-bounded, module callees only)
// contains a gin registration call.
func registersRoutes(p *Prog, fn *ssa.Function, depth int, seen map[*ssa.Function]bool) bool {
	if fn == nil || seen[fn] || depth > 4 || len(fn.Blocks) == 0 {
		return false
	}
	seen[fn] = true
	found := false
	for _, f := range withAnon(fn) {
		allInstrs(f, func(i ssa.Instruction) {
			if found {
				return
			}
			if isGinRegistration(i) {
				found = true
				return
			}
			if ci, ok := i.(ssa.CallInstruction); ok {
				for _, cal := range p.calleesAt(ci) {
					if inModule(cal) && registersRoutes(p, cal, depth+1, seen) {
						found = true
					}
				}
			}
		})
	}
	return found
}

func isUseAuth(i ssa.Instruction) bool {
	cl, ok := i.(*ssa.Call)
	if !ok || !strings.HasSuffix(commonName(&cl.Call), "gin.Engine).Use") && !strings.HasSuffix(commonName(&cl.Call), "gin.RouterGroup).Use") {
		return false
	}
	// variadic slice holding a bound (*middleware.Auth).Verify
	for _, a := range cl.Call.Args[1:] {
		sl, ok := a.(*ssa.Slice)
		if !ok {
			continue
		}
		al, ok := sl.X.(*ssa.Alloc)
		if !ok {
			continue
		}
		for _, r := range *al.Referrers() {
			ia, ok := r.(*ssa.IndexAddr)
			if !ok {
				continue
			}
			for _, rr := range *ia.Referrers() {
				st, ok := rr.(*ssa.Store)
				if !ok {
					continue
				}
				v := strip(st.Val)
				if mc, ok := v.(*ssa.MakeClosure); ok {
					if fn, ok := mc.Fn.(*ssa.Function); ok && strings.Contains(fn.String(), "pkg/middleware.Auth).Verify") {
						return true
					}
				}
			}
		}
	}
	return false
}

func runC09(c *Ctx) {
	errDiscipline(c, "C09.R7", pkgFuncs(c.P, "pkg/auth", "pkg/middleware", "server/admin", "server/status"), 3)
	c09R1(c)
	c09R2(c, "C09.R2")
	c09R3(c)
	c09R4(c)
	c09R5(c)
	c09R6(c)
}

func c09R1(c *Ctx) {
	p := c.P
	c.floor("C09.R1", 6)
	ctors := map[*ssa.Function]bool{}
	for _, rel := range []string{"server/proxy", "server/upstream", "server/admin"} {
		fn := p.Func(rel, "NewServer")
		if fn == nil {
			c.fail("C09.R1", "anchor/"+rel+".NewServer", token.NoPos, "constructor not found")
			continue
		}
		ctors[fn] = true
		c.analysed(fnName(fn))
		// the engine
		var engine *ssa.Call
		allInstrs(fn, func(i ssa.Instruction) {
			if cl, ok := i.(*ssa.Call); ok && strings.HasSuffix(commonName(&cl.Call), "gin-gonic/gin.New") {
				engine = cl
			}
		})
		if engine == nil {
			c.fail("C09.R1", fnName(fn)+"/engine", fn.Pos(), "no gin.New() engine in the constructor")
			continue
		}
		// handler of the http.Server
		handlerOK := false
		allInstrs(fn, func(i ssa.Instruction) {
			st, ok := i.(*ssa.Store)
			if !ok {
				return
			}
			fa, ok := st.Addr.(*ssa.FieldAddr)
			if !ok {
				return
			}
			if fv, _ := fieldVarOf(fa); fv.Name() == "Handler" && strip(st.Val) == ssa.Value(engine) {
				handlerOK = true
			}
		})
		c.check(handlerOK, "C09.R1", fnName(fn)+"/engine-is-handler", engine.Pos(), "the gin engine is the http.Server handler", "the http.Server's handler is not the gin engine that carries the auth middleware")
		// verifier parameter
		var verifier ssa.Value
		for _, pa := range fn.Params {
			if strings.Contains(pa.Type().String(), "MultiTenantVerifier") {
				verifier = pa
			}
		}
		isReg := func(i ssa.Instruction) bool {
			if isGinRegistration(i) {
				return true
			}
			if ci, ok := i.(ssa.CallInstruction); ok {
				if _, isDefer := i.(*ssa.Defer); isDefer {
					return false
				}
				for _, cal := range p.calleesAt(ci) {
					if inModule(cal) && registersRoutes(p, cal, 0, map[*ssa.Function]bool{}) {
						return true
					}
				}
			}
			return false
		}
		isOtherUse := func(i ssa.Instruction) bool {
			cl, ok := i.(*ssa.Call)
			if !ok || isUseAuth(i) {
				return false
			}
			n := commonName(&cl.Call)
			if !strings.HasSuffix(n, "gin.Engine).Use") && !strings.HasSuffix(n, "gin.RouterGroup).Use") {
				return false
			}
			// the panic-recovery middleware may precede authentication: it handles nothing itself
			for _, a := range cl.Call.Args[1:] {
				if sl, ok := a.(*ssa.Slice); ok {
					if al, ok := sl.X.(*ssa.Alloc); ok {
						for _, r := range *al.Referrers() {
							if ia, ok := r.(*ssa.IndexAddr); ok {
								for _, rr := range *ia.Referrers() {
									if st, ok := rr.(*ssa.Store); ok {
										if rc, ok := strip(st.Val).(*ssa.Call); ok && strings.Contains(commonName(&rc.Call), "gin.CustomRecovery") {
											return false
										}
									}
								}
							}
						}
					}
				}
			}
			return true
		}
		paths, complete := enumPathsAt(fn.Blocks[0], 0, func(i ssa.Instruction) bool { return isUseAuth(i) || isReg(i) || isOtherUse(i) }, nil, nil, 2000)
		bad := ""
		nReg := 0
		for _, pa := range paths {
			configured := anyFact(pa.facts, func(f Fact) bool {
				return cmpFact(f, token.NEQ, func(v ssa.Value) bool { return v == verifier }, isNilConst)
			})
			used := false
			for _, in := range pa.seen {
				if isUseAuth(in) {
					used = true
					continue
				}
				nReg++
				if configured && !used {
					bad = "with a verifier configured, the route/middleware registration at " + p.pos(in.Pos()) + " happens before Use(Auth.Verify): those routes (or that middleware, e.g. admin forwarding) run without authentication"
				}
			}
			if configured && !used && pa.endWhy == "return" {
				bad = "with a verifier configured a constructor path never installs the auth middleware"
			}
		}
		if nReg == 0 {
			bad = "no route registration found in the constructor"
		}
		c.check(complete && bad == "", "C09.R1", fnName(fn)+"/auth-before-routes", fn.Pos(), fmt.Sprintf("on %d constructor paths Use(Auth.Verify) precedes every registration whenever a verifier is configured", len(paths)), bad)
	}
	// every other registration site in server packages
	for _, fn := range p.ModFuncs {
		if isTestFile(p.Fset, fn.Pos()) || !strings.Contains(fn.String(), modPath+"/server") {
			continue
		}
		has := false
		allInstrs(fn, func(i ssa.Instruction) {
			if isGinRegistration(i) {
				has = true
			}
		})
		if !has || ctors[topFn(fn)] {
			continue
		}
		// allowed: called only from a constructor (registerRoutes), or operates on a
		// group passed in / derived from the constructed server's router field
		key := "registration-site/" + fnName(fn)
		callers := p.callersOf(fn)
		onlyCtor := len(callers) > 0
		for _, e := range callers {
			cf := e.Caller.Func
			if cf == nil || isTestFile(p.Fset, cf.Pos()) {
				continue
			}
			if !ctors[topFn(cf)] {
				onlyCtor = false
			}
		}
		takesGroup := false
		for _, pa := range fn.Params {
			if strings.Contains(pa.Type().String(), "gin.RouterGroup") || strings.Contains(pa.Type().String(), "gin.Engine") {
				takesGroup = true
			}
		}
		onServerRouter := false
		allInstrs(fn, func(i ssa.Instruction) {
			if !isGinRegistration(i) {
				return
			}
			cc := callCommon(i)
			if len(cc.Args) > 0 && strings.Contains(path(cc.Args[0]), ".&router") {
				onServerRouter = true
			}
		})
		c.check(onlyCtor || takesGroup || onServerRouter, "C09.R1", key, fn.Pos(), "registers on the constructed engine (called from the constructor) or on a group derived from it after construction",
			"routes are registered by a function that is neither part of construction nor working on a group derived from the authenticated engine")
	}
	// the engine's http.Server is the only server started on those listeners: no http.ListenAndServe / other http.Server in server packages
	for _, fn := range p.ModFuncs {
		if isTestFile(p.Fset, fn.Pos()) || !strings.Contains(fn.String(), modPath+"/server") {
			continue
		}
		allInstrs(fn, func(i ssa.Instruction) {
			n := callName(i)
			if n == "net/http.ListenAndServe" || n == "net/http.Serve" || n == "net/http.ListenAndServeTLS" || n == "net/http.Handle" || n == "net/http.HandleFunc" {
				c.fail("C09.R1", "side-server/"+fnName(fn), i.Pos(), "a second HTTP entry point ("+n+") bypasses the gin engine and its auth middleware")
			}
		})
	}
}

// abortCall: c.AbortWithStatusJSON / AbortWithStatus / AbortWithError with a constant status.
func abortCall(i ssa.Instruction) (int64, bool) {
	cl, ok := i.(*ssa.Call)
	if !ok {
		return 0, false
	}
	n := commonName(&cl.Call)
	if !strings.Contains(n, "gin.Context).Abort") {
		return 0, false
	}
	if strings.HasSuffix(n, ").Abort") {
		return 0, true
	}
	st, _ := constInt(cl.Call.Args[1])
	return st, true
}

func c09R2(c *Ctx, rule string) {
	p := c.P
	c.floor(rule, 3)
	verify := p.Func(mwPkg, "Auth.Verify")
	parse := p.Func(mwPkg, "Auth.parseToken")
	if verify == nil || parse == nil {
		c.fail(rule, "anchor/middleware.Auth", token.NoPos, "Auth.Verify / Auth.parseToken not found")
		return
	}
	c.analysed(fnName(verify))
	c.analysed(fnName(parse))
	// parseToken: returns false only after an abort(401); true only without abort
	parseOK := true
	paths, _ := enumPathsAt(parse.Blocks[0], 0, func(i ssa.Instruction) bool { _, ok := abortCall(i); return ok }, nil, nil, 200)
	why := ""
	for _, pa := range paths {
		if pa.endWhy != "return" {
			continue
		}
		rv := returnValues(pa.end.(*ssa.Return))
		b, isC := constBool(rv[len(rv)-1])
		aborted := false
		for _, in := range pa.seen {
			if st, ok := abortCall(in); ok && st == 401 {
				aborted = true
			}
		}
		if !isC || (b && aborted) || (!b && !aborted) {
			parseOK = false
			why = "parseToken can return ok=" + fmt.Sprint(b) + " at " + p.pos(pa.end.Pos()) + " " + map[bool]string{true: "after aborting", false: "without aborting the request with 401"}[aborted]
		}
	}
	c.check(parseOK, rule, fnName(parse)+"/false-iff-aborted", parse.Pos(), "returns false exactly on the paths that abort with 401", why)
	// Verify
	var vcall *ssa.Call
	allInstrs(verify, func(i ssa.Instruction) {
		if cl, ok := i.(*ssa.Call); ok && strings.HasSuffix(commonName(&cl.Call), "pkg/auth.MultiTenantVerifier).Verify") {
			vcall = cl
		}
	})
	if vcall == nil {
		c.fail(rule, fnName(verify)+"/verifier-call", verify.Pos(), "the middleware never calls the verifier")
		return
	}
	// arguments: token string from parseToken, tenant from the x-piko-tenant-id header
	argOK := false
	if ex, ok := vcall.Call.Args[1].(*ssa.Extract); ok && ex.Index == 0 {
		if pc, ok := ex.Tuple.(*ssa.Call); ok && pc.Call.StaticCallee() == parse {
			argOK = true
		}
	}
	c.check(argOK, rule, fnName(verify)+"/verifies-presented-token", vcall.Pos(), "the verifier is given the token parsed from this request", "the verifier is not given the token string parsed from this request")
	isInteresting := func(i ssa.Instruction) bool {
		if _, ok := abortCall(i); ok {
			return true
		}
		cl, ok := i.(*ssa.Call)
		if !ok {
			return false
		}
		n := commonName(&cl.Call)
		return strings.HasSuffix(n, "gin.Context).Set") || strings.HasSuffix(n, "gin.Context).Next") || cl.Call.StaticCallee() == parse
	}
	paths, complete := enumPathsAt(verify.Blocks[0], 0, isInteresting, nil, nil, 500)
	bad := ""
	for _, pa := range paths {
		if pa.endWhy != "return" {
			continue
		}
		aborted, set, next := false, false, false
		var parseCall *ssa.Call
		for _, in := range pa.seen {
			if st, ok := abortCall(in); ok {
				if st == 401 || st == 500 {
					aborted = true
				} else {
					bad = fmt.Sprintf("a rejection path aborts with status %d instead of 401/500", st)
				}
				continue
			}
			cl := in.(*ssa.Call)
			n := commonName(&cl.Call)
			switch {
			case cl.Call.StaticCallee() == parse:
				parseCall = cl
			case strings.HasSuffix(n, ").Set"):
				k, _ := constString(cl.Call.Args[1])
				tokOK := false
				if ex, ok := strip(cl.Call.Args[2]).(*ssa.Extract); ok && ex.Tuple == ssa.Value(vcall) && ex.Index == 0 {
					tokOK = true
				}
				if k == tokenContextKey(p) && tokOK {
					set = true
				} else if k == tokenContextKey(p) {
					bad = "the token stored in the request context is not the one returned by this request's verifier call (cached or substituted token)"
				}
			case strings.HasSuffix(n, ").Next"):
				next = true
			}
		}
		errNil := anyFact(pa.facts, func(f Fact) bool {
			return cmpFact(f, token.EQL, func(v ssa.Value) bool {
				ex, ok := v.(*ssa.Extract)
				return ok && ex.Tuple == ssa.Value(vcall) && ex.Index == 1
			}, isNilConst)
		})
		parseFailed := parseCall != nil && anyFact(pa.facts, func(f Fact) bool {
			ex, ok := f.V.(*ssa.Extract)
			return ok && ex.Tuple == ssa.Value(parseCall) && ex.Index == 1 && !f.T
		})
		switch {
		case aborted && !next:
		case parseFailed && parseOK && !next:
		case set && next && errNil && !aborted:
		default:
			if bad == "" {
				bad = fmt.Sprintf("a path to %s neither aborts the request nor passes a successfully verified token on (aborted=%v set=%v next=%v err==nil=%v): in gin a middleware that merely returns lets the route run; facts %s", p.pos(pa.end.Pos()), aborted, set, next, errNil, factStrings(pa.facts))
			}
		}
	}
	c.check(complete && bad == "", rule, fnName(verify)+"/abort-or-verified", verify.Pos(), fmt.Sprintf("all %d paths abort (401/500) or store this request's verified token under err == nil and continue", len(paths)), bad)
	// the context key is set nowhere else
	for _, fn := range p.ModFuncs {
		if isTestFile(p.Fset, fn.Pos()) {
			continue
		}
		allInstrs(fn, func(i ssa.Instruction) {
			cl, ok := i.(*ssa.Call)
			if !ok || !strings.HasSuffix(commonName(&cl.Call), "gin.Context).Set") {
				return
			}
			if k, ok := constString(cl.Call.Args[1]); ok && k == tokenContextKey(p) {
				c.check(fn == verify, rule, "token-context-writer/"+fnName(fn), cl.Pos(), "only Auth.Verify publishes a token to the request context", "the token context key is written outside Auth.Verify: a handler can be handed an unverified token")
			}
		})
	}
}

func tokenContextKey(p *Prog) string {
	if sp := p.Pkg(mwPkg); sp != nil {
		if k := sp.Const("TokenContextKey"); k != nil {
			if s, ok := constString(k.Value); ok {
				return s
			}
		}
	}
	return "_piko_token"
}

func c09R3(c *Ctx) {
	p := c.P
	c.floor("C09.R3", 5)
	fn := p.Func(authPkg, "JWTVerifier.Verify")
	if fn == nil {
		c.fail("C09.R3", "anchor/JWTVerifier.Verify", token.NoPos, "not found")
		return
	}
	c.analysed(fnName(fn))
	fs := computeFacts(fn)
	var parse *ssa.Call
	allInstrs(fn, func(i ssa.Instruction) {
		if cl, ok := i.(*ssa.Call); ok && strings.HasSuffix(commonName(&cl.Call), "jwt/v5.ParseWithClaims") {
			parse = cl
		}
	})
	if parse == nil {
		c.fail("C09.R3", fnName(fn)+"/parse", fn.Pos(), "the verifier does not parse with jwt.ParseWithClaims")
		return
	}
	// returns of a non-nil token
	for k, r := range returnsOf(fn) {
		rv := returnValues(r)
		if isNilConst(rv[0]) {
			continue
		}
		facts := fs.At(r.Block())
		errNil := anyFact(facts, func(f Fact) bool {
			return cmpFact(f, token.EQL, func(v ssa.Value) bool {
				ex, ok := v.(*ssa.Extract)
				return ok && ex.Tuple == ssa.Value(parse) && ex.Index == 1
			}, isNilConst)
		})
		valid := anyFact(facts, func(f Fact) bool { return f.T && strings.HasSuffix(path(f.V), ".&Valid") })
		c.check(errNil && valid && isNilConst(rv[1]), "C09.R3", fmt.Sprintf("%s/token-return[%d]", fnName(fn), k), r.Pos(), "a token is returned only when parsing returned no error and token.Valid",
			"a token can be returned although parsing failed or the token is not valid; facts "+factStrings(facts))
	}
	// options: the slice passed as opts... contains WithValidMethods(v.methods) unconditionally
	var withMethods, withAud, withIss *ssa.Call
	allInstrs(fn, func(i ssa.Instruction) {
		if cl, ok := i.(*ssa.Call); ok {
			n := commonName(&cl.Call)
			switch {
			case strings.HasSuffix(n, "jwt/v5.WithValidMethods"):
				withMethods = cl
			case strings.HasSuffix(n, "jwt/v5.WithAudience"):
				withAud = cl
			case strings.HasSuffix(n, "jwt/v5.WithIssuer"):
				withIss = cl
			}
		}
	})
	// options that weaken validation must not be handed to the parser
	weak := ""
	for _, f2 := range pkgFuncs(p, "pkg/auth") {
		allInstrs(f2, func(i ssa.Instruction) {
			if cl, ok := i.(*ssa.Call); ok {
				n := commonName(&cl.Call)
				for _, bad := range []string{"WithLeeway", "WithoutClaimsValidation", "WithTimeFunc", "WithPaddingAllowed"} {
					if strings.HasSuffix(n, "jwt/v5."+bad) {
						weak = bad + " at " + p.pos(cl.Pos())
					}
				}
			}
		})
	}
	c.check(weak == "", "C09.R3", fnName(fn)+"/no-weakening-options", parse.Pos(), "no leeway, custom clock or disabled claims validation", "the token parser is given "+weak+": tokens outside their validity window (golang-jwt applies a leeway to exp as well as nbf) or unvalidated claims are accepted")
	methodsF := p.Field(authPkg, "JWTVerifier", "methods")
	okM := false
	if withMethods != nil {
		_, isField := loadedField(withMethods.Call.Args[0], methodsF)
		okM = isField && dominatesInstr(withMethods, parse) && flowsIntoOpts(withMethods, parse)
	}
	c.check(okM, "C09.R3", fnName(fn)+"/valid-methods", parse.Pos(), "ParseWithClaims always receives WithValidMethods(v.methods)", "the parser is not restricted to the algorithms of the configured keys on every path: algorithm confusion / alg none")
	for _, o := range []struct {
		call  *ssa.Call
		field string
	}{{withAud, "audience"}, {withIss, "issuer"}} {
		fv := p.Field(authPkg, "JWTVerifier", o.field)
		good := false
		if o.call != nil && fv != nil {
			_, argOK := loadedField(o.call.Call.Args[0], fv)
			if sl, ok := o.call.Call.Args[0].(*ssa.Slice); ok { // variadic option
				if al, ok := sl.X.(*ssa.Alloc); ok {
					for _, r := range *al.Referrers() {
						if ia, ok := r.(*ssa.IndexAddr); ok {
							for _, rr := range *ia.Referrers() {
								if st, ok := rr.(*ssa.Store); ok {
									if _, ok := loadedField(st.Val, fv); ok {
										argOK = true
									}
								}
							}
						}
					}
				}
			}
			facts := fs.At(o.call.Block())
			guard := anyFact(facts, func(f Fact) bool {
				return cmpFact(f, token.NEQ, func(v ssa.Value) bool { _, ok := loadedField(v, fv); return ok }, func(v ssa.Value) bool { s, ok := constString(v); return ok && s == "" })
			})
			// only that guard
			good = argOK && guard && flowsIntoOpts(o.call, parse)
			// and the branch is taken whenever configured: the option block's only extra fact is the guard
			extra := 0
			for _, f := range facts {
				if _, x, _, ok := f.Cmp(); ok {
					if _, isF := loadedField(x, fv); isF {
						continue
					}
				}
				extra++
			}
			if extra > 0 {
				good = false
			}
		}
		c.check(good, "C09.R3", fnName(fn)+"/"+o.field+"-option", parse.Pos(), "the "+o.field+" is enforced exactly when configured", "the configured "+o.field+" is not enforced on every path on which it is set")
	}
	// forbidden parser calls anywhere in the module
	for _, f := range p.ModFuncs {
		if isTestFile(p.Fset, f.Pos()) {
			continue
		}
		allInstrs(f, func(i ssa.Instruction) {
			n := callName(i)
			for _, bad := range []string{"ParseUnverified", "WithoutClaimsValidation", "UnsafeAllowNoneSignatureType", "WithPaddingAllowed"} {
				if strings.Contains(n, "jwt") && strings.Contains(n, bad) {
					c.fail("C09.R3", "forbidden/"+fnName(f)+"/"+bad, i.Pos(), "call of "+n+": tokens are accepted without signature or claims validation")
				}
			}
			if strings.Contains(n, "UnsafeAllowNoneSignatureType") {
				c.fail("C09.R3", "forbidden/"+fnName(f)+"/none", i.Pos(), "alg none allowed")
			}
		})
	}
}

// flowsIntoOpts: the option value is stored into the slice that reaches the
// variadic argument of the parse call (through appends / phis).
func flowsIntoOpts(opt *ssa.Call, parse *ssa.Call) bool {
	target := parse.Call.Args[len(parse.Call.Args)-1]
	seen := map[ssa.Value]bool{}
	var has func(v ssa.Value) bool
	has = func(v ssa.Value) bool {
		v = strip(v)
		if seen[v] {
			return false
		}
		seen[v] = true
		switch x := v.(type) {
		case *ssa.Phi:
			// the option must be present on every incoming edge that does not itself add it
			for _, e := range x.Edges {
				if has(e) {
					return true
				}
			}
			return false
		case *ssa.Call:
			if b, ok := x.Call.Value.(*ssa.Builtin); ok && b.Name() == "append" {
				return has(x.Call.Args[0]) || has(x.Call.Args[1])
			}
		case *ssa.Slice:
			if al, ok := x.X.(*ssa.Alloc); ok {
				for _, r := range *al.Referrers() {
					if ia, ok := r.(*ssa.IndexAddr); ok {
						for _, rr := range *ia.Referrers() {
							if st, ok := rr.(*ssa.Store); ok && strip(st.Val) == ssa.Value(opt) {
								return true
							}
						}
					}
				}
			}
			return has(x.X)
		case *ssa.UnOp:
			if al, ok := x.X.(*ssa.Alloc); ok {
				for _, r := range *al.Referrers() {
					if st, ok := r.(*ssa.Store); ok && st.Addr == ssa.Value(al) && has(st.Val) {
						return true
					}
				}
			}
		}
		return false
	}
	return has(target)
}

func c09R4(c *Ctx) {
	p := c.P
	c.floor("C09.R4", 6)
	ctor := p.Func(authPkg, "NewJWTVerifier")
	verify := p.Func(authPkg, "JWTVerifier.Verify")
	if ctor == nil || verify == nil {
		c.fail("C09.R4", "anchor/NewJWTVerifier+keyfunc", token.NoPos, "constructor or key function closure not found")
		return
	}
	type family struct {
		prefix, keyField, confField, typ string
	}
	fams := []family{
		{"HS", "hmacSecretKey", "HMACSecretKey", "[]byte"},
		{"RS", "rsaPublicKey", "RSAPublicKey", "*crypto/rsa.PublicKey"},
		{"ES", "ecdsaPublicKey", "ECDSAPublicKey", "*crypto/ecdsa.PublicKey"},
	}
	methodsF := p.Field(authPkg, "JWTVerifier", "methods")
	fs := computeFacts(ctor)
	// enabled[F] = names appended under F's guard
	enabled := map[string][]string{}
	allInstrs(ctor, func(i ssa.Instruction) {
		st, ok := i.(*ssa.Store)
		if !ok {
			return
		}
		if _, ok := addrOfField(st.Addr, methodsF); !ok {
			return
		}
		ap, ok := st.Val.(*ssa.Call)
		if !ok {
			c.fail("C09.R4", fnName(ctor)+"/methods-store", st.Pos(), "v.methods is assigned something other than an append")
			return
		}
		var names []string
		if sl, ok := ap.Call.Args[1].(*ssa.Slice); ok {
			if al, ok := sl.X.(*ssa.Alloc); ok {
				for _, r := range *al.Referrers() {
					if ia, ok := r.(*ssa.IndexAddr); ok {
						for _, rr := range *ia.Referrers() {
							if s2, ok := rr.(*ssa.Store); ok {
								if s, ok := constString(s2.Val); ok {
									names = append(names, s)
								}
							}
						}
					}
				}
			}
		}
		sort.Strings(names)
		facts := fs.At(st.Block())
		for _, f := range fams {
			all := len(names) > 0
			for _, n := range names {
				if !strings.HasPrefix(n, f.prefix) {
					all = false
				}
			}
			if !all {
				continue
			}
			enabled[f.prefix] = append(enabled[f.prefix], names...)
			confF := p.Field(authPkg, "LoadedConfig", f.confField)
			var guard bool
			if f.typ == "[]byte" {
				guard = anyFact(facts, func(fc Fact) bool {
					return cmpFact(fc, token.GTR, func(v ssa.Value) bool { return lenOfField(v, confF) }, func(v ssa.Value) bool { k, ok := constInt(v); return ok && k == 0 }) ||
						cmpFact(fc, token.NEQ, func(v ssa.Value) bool { return lenOfField(v, confF) }, func(v ssa.Value) bool { k, ok := constInt(v); return ok && k == 0 })
				})
			} else {
				guard = anyFact(facts, func(fc Fact) bool {
					return cmpFact(fc, token.NEQ, func(v ssa.Value) bool { _, ok := loadedField(v, confF); return ok }, isNilConst)
				})
			}
			// the key field is set from the same config field in that block
			keyF := p.Field(authPkg, "JWTVerifier", f.keyField)
			keySet := false
			for _, in := range st.Block().Instrs {
				if s2, ok := in.(*ssa.Store); ok {
					if _, ok := addrOfField(s2.Addr, keyF); ok {
						if _, ok := loadedField(s2.Val, confF); ok {
							keySet = true
						}
					}
				}
			}
			why := "the " + f.prefix + "* algorithms are enabled without the fact that the " + f.confField + " is configured"
			if f.typ == "[]byte" {
				why += " (for the byte-slice secret this must be a length test: the loaded config always holds a non-nil, possibly empty, slice)"
			}
			c.check(guard && keySet, "C09.R4", fnName(ctor)+"/"+f.prefix+"-enabled-iff-key", st.Pos(), f.prefix+"* enabled exactly when "+f.confField+" is configured, with that key", why+"; facts "+factStrings(facts))
		}
	})
	// key function: the function value handed to ParseWithClaims (closure or bound method)
	var kf *ssa.Function
	allInstrs(verify, func(i ssa.Instruction) {
		cl, ok := i.(*ssa.Call)
		if !ok || !strings.HasSuffix(commonName(&cl.Call), "jwt/v5.ParseWithClaims") {
			return
		}
		for _, a := range cl.Call.Args {
			v := strip(a)
			if ct, ok := v.(*ssa.ChangeType); ok {
				v = ct.X
			}
			if mc, ok := v.(*ssa.MakeClosure); ok {
				kf = unwrapWrapper(mc.Fn.(*ssa.Function))
			}
		}
	})
	if kf == nil {
		c.fail("C09.R4", "anchor/key-function", verify.Pos(), "no key function passed to ParseWithClaims")
		return
	}
	c.analysed(fnName(kf))
	kfs := computeFacts(kf)
	served := map[string][]string{}
	for _, r := range returnsOf(kf) {
		rv := returnValues(r)
		var fam *family
		for k := range fams {
			if fv := p.Field(authPkg, "JWTVerifier", fams[k].keyField); fv != nil {
				if _, ok := loadedField(rv[0], fv); ok {
					fam = &fams[k]
				}
			}
		}
		if fam == nil {
			continue
		}
		for _, alt := range factAlternatives(kfs, r.Block(), 4) {
			label := ""
			for _, f := range alt {
				if _, x, y, ok := f.Cmp(); ok && f.T {
					if s, ok := constString(y); ok && strings.Contains(path(x), "Alg") {
						label = s
					}
				}
				if op, _, y, ok := f.Cmp(); ok && op == token.EQL {
					if s, ok := constString(y); ok {
						label = s
					}
				}
			}
			if label == "" {
				c.fail("C09.R4", fnName(kf)+"/"+fam.keyField+"-unlabelled", r.Pos(), "the "+fam.keyField+" can be returned without the algorithm having been matched against a "+fam.prefix+"* name")
				continue
			}
			served[fam.prefix] = append(served[fam.prefix], label)
			c.check(strings.HasPrefix(label, fam.prefix), "C09.R4", fnName(kf)+"/"+label+"-key", r.Pos(), "algorithm "+label+" is verified with the "+fam.keyField,
				"algorithm "+label+" is verified with the "+fam.keyField+": a token of one family is checked against another family's key (algorithm confusion)")
		}
	}
	for _, f := range fams {
		a, b := append([]string(nil), enabled[f.prefix]...), append([]string(nil), served[f.prefix]...)
		sort.Strings(a)
		sort.Strings(b)
		c.check(len(a) > 0 && strings.Join(a, ",") == strings.Join(b, ","), "C09.R4", "family/"+f.prefix+"/enabled-equals-served", ctor.Pos(), "enabled "+strings.Join(a, ",")+" = served "+strings.Join(b, ","),
			fmt.Sprintf("the %s* algorithms enabled (%v) differ from those the key function serves with that key (%v)", f.prefix, a, b))
		// field type
		if fv := p.Field(authPkg, "JWTVerifier", f.keyField); fv != nil {
			c.check(fv.Type().String() == f.typ, "C09.R4", "family/"+f.prefix+"/key-type", fv.Pos(), "key type "+f.typ, "the "+f.prefix+" key field has type "+fv.Type().String()+", which that family does not verify with")
		}
	}
}

// fieldRoots: the config sub-trees (conf.<A>.<B>) a value depends on.
func confRoots(v ssa.Value, conf ssa.Value, out map[string]bool, seen map[ssa.Value]bool, depth int) {
	if v == nil || seen[v] || depth > 14 {
		return
	}
	seen[v] = true
	pa := path(v)
	if strings.HasPrefix(pa, "*P:"+conf.Name()+".&") || strings.HasPrefix(pa, "P:"+conf.Name()+".&") || strings.HasPrefix(pa, "**P:") {
		parts := strings.Split(pa, ".&")
		if len(parts) >= 3 {
			leaf := parts[2]
			if i := strings.Index(leaf, "["); i >= 0 {
				leaf = leaf[:i]
			}
			out[parts[1]+"."+leaf] = true
		} else if len(parts) == 2 {
			out[parts[1]] = true
		}
	}
	switch x := v.(type) {
	case *ssa.Phi:
		for _, e := range x.Edges {
			confRoots(e, conf, out, seen, depth+1)
		}
		// control dependence: the conditions selecting the edges
		if d := x.Block().Idom(); d != nil {
			if iff, ok := d.Instrs[len(d.Instrs)-1].(*ssa.If); ok {
				confRoots(iff.Cond, conf, out, seen, depth+1)
			}
		}
	case *ssa.Call:
		for _, a := range x.Call.Args {
			confRoots(a, conf, out, seen, depth+1)
		}
		if x.Call.IsInvoke() {
			confRoots(x.Call.Value, conf, out, seen, depth+1)
		}
	case *ssa.Extract:
		confRoots(x.Tuple, conf, out, seen, depth+1)
	case *ssa.UnOp:
		confRoots(x.X, conf, out, seen, depth+1)
	case *ssa.FieldAddr:
		confRoots(x.X, conf, out, seen, depth+1)
	case *ssa.BinOp:
		confRoots(x.X, conf, out, seen, depth+1)
		confRoots(x.Y, conf, out, seen, depth+1)
	case *ssa.MakeInterface:
		confRoots(x.X, conf, out, seen, depth+1)
	case *ssa.ChangeType:
		confRoots(x.X, conf, out, seen, depth+1)
	case *ssa.MakeMap:
	case *ssa.Alloc:
		for _, r := range *x.Referrers() {
			if st, ok := r.(*ssa.Store); ok && st.Addr == ssa.Value(x) {
				confRoots(st.Val, conf, out, seen, depth+1)
			}
		}
	}
	// maps filled in loops: values stored into a map that is v
	if mm, ok := v.(*ssa.MakeMap); ok {
		for _, r := range *mm.Referrers() {
			if mu, ok := r.(*ssa.MapUpdate); ok {
				confRoots(mu.Value, conf, out, seen, depth+1)
				confRoots(mu.Key, conf, out, seen, depth+1)
			}
		}
	}
}

func c09R5(c *Ctx) {
	p := c.P
	c.floor("C09.R5", 3)
	fn := p.Func("server", "NewServer")
	if fn == nil {
		c.fail("C09.R5", "anchor/server.NewServer", token.NoPos, "not found")
		return
	}
	c.analysed(fnName(fn))
	conf := fn.Params[0]
	for _, port := range []struct {
		ctor   string
		own    []string
		others []string
	}{
		{modPath + "/server/proxy.NewServer", []string{"Proxy.Auth"}, []string{"Upstream.Auth", "Upstream.Tenants", "Admin.Auth"}},
		{modPath + "/server/upstream.NewServer", []string{"Upstream.Auth", "Upstream.Tenants"}, []string{"Proxy.Auth", "Admin.Auth"}},
		{modPath + "/server/admin.NewServer", []string{"Admin.Auth"}, []string{"Proxy.Auth", "Upstream.Auth", "Upstream.Tenants"}},
	} {
		calls := findCalls(fn, port.ctor)
		key := "wiring/" + strings.TrimPrefix(port.ctor, modPath+"/")
		if len(calls) != 1 {
			c.fail("C09.R5", key, fn.Pos(), fmt.Sprintf("expected one call of %s, found %d", port.ctor, len(calls)))
			continue
		}
		cc := callCommon(calls[0])
		var ver ssa.Value
		for _, a := range cc.Args {
			if strings.Contains(a.Type().String(), "MultiTenantVerifier") {
				ver = a
			}
		}
		if ver == nil {
			c.fail("C09.R5", key, calls[0].Pos(), "no verifier argument")
			continue
		}
		roots := map[string]bool{}
		confRoots(ver, conf, roots, map[ssa.Value]bool{}, 0)
		var got []string
		for r := range roots {
			got = append(got, r)
		}
		sort.Strings(got)
		ownOK := true
		for _, o := range port.own {
			if !roots[o] {
				ownOK = false
			}
		}
		foreign := ""
		for _, o := range port.others {
			if roots[o] {
				foreign = o
			}
		}
		// nil exactly when not enabled: phi with a nil edge
		nilWhenDisabled := false
		if ph, ok := ver.(*ssa.Phi); ok {
			for _, e := range ph.Edges {
				if isNilConst(e) {
					nilWhenDisabled = true
				}
			}
		}
		// or: built by a helper that returns nil when its configuration is not enabled
		if ex, ok := strip(ver).(*ssa.Extract); ok && ex.Index == 0 {
			if hc, ok := ex.Tuple.(*ssa.Call); ok {
				if sc := hc.Call.StaticCallee(); sc != nil && inModule(sc) && sc.Blocks != nil {
					hfs := computeFacts(sc)
					for _, r := range returnsOf(sc) {
						rv := returnValues(r)
						if len(rv) > 0 && isNilConst(rv[0]) && (len(rv) < 2 || isNilConst(rv[len(rv)-1])) {
							// a nil verifier without an error: only under `Enabled()` false of the helper's own config parameter
							if anyFact(hfs.At(r.Block()), func(f Fact) bool {
								cl, ok := f.V.(*ssa.Call)
								return ok && !f.T && strings.HasSuffix(commonName(&cl.Call), "auth.Config).Enabled")
							}) {
								nilWhenDisabled = true
							}
						}
					}
				}
			}
		}
		c.check(ownOK && foreign == "" && nilWhenDisabled, "C09.R5", key, calls[0].Pos(), "verifier derives from "+strings.Join(port.own, "+")+" only and is nil when that is disabled",
			fmt.Sprintf("the verifier handed to this port depends on %v (own config present: %v, foreign config: %q, nil when disabled: %v)", got, ownOK, foreign, nilWhenDisabled))
	}
}

func c09R6(c *Ctx) {
	p := c.P
	c.floor("C09.R6", 2)
	fn := p.Func(mwPkg, "Auth.parseToken")
	if fn == nil {
		return
	}
	fs := computeFacts(fn)
	var first, second *ssa.Call
	allInstrs(fn, func(i ssa.Instruction) {
		cl, ok := i.(*ssa.Call)
		if !ok || commonName(&cl.Call) != "(net/http.Header).Get" {
			return
		}
		k, _ := constString(cl.Call.Args[1])
		switch strings.ToLower(k) {
		case "x-piko-authorization":
			first = cl
		case "authorization":
			second = cl
		}
	})
	good := first != nil && second != nil && dominatesInstr(first, second)
	if good {
		facts := fs.At(second.Block())
		good = anyFact(facts, func(f Fact) bool {
			return cmpFact(f, token.EQL, func(v ssa.Value) bool { return v == ssa.Value(first) }, func(v ssa.Value) bool { s, ok := constString(v); return ok && s == "" })
		})
	}
	c.check(good, "C09.R6", fnName(fn)+"/header-precedence", fn.Pos(), "x-piko-authorization first; Authorization only when it is empty", "the header precedence is not x-piko-authorization before Authorization")
	scheme := false
	allInstrs(fn, func(i ssa.Instruction) {
		if bo, ok := i.(*ssa.BinOp); ok && (bo.Op == token.NEQ || bo.Op == token.EQL) {
			if s, ok := constString(bo.Y); ok && s == "Bearer" {
				scheme = true
			}
		}
	})
	c.check(scheme, "C09.R6", fnName(fn)+"/scheme", fn.Pos(), "scheme compared with Bearer", "the authorization scheme is not compared with \"Bearer\"")
}

// ---------------------------------------------------------------- C10

func runC10(c *Ctx) {
	c10R1(c)
	c10R2(c)
	c10R3(c)
	c10R4(c)
	c09R2(c, "C10.R4")
	// the endpoint that was checked stays the key of every table on the way to the upstream
	c01R1(c)
	c15R2(c, "C10.R1")
	c10R5(c)
	c10R6(c)
}

// c10R6: a tenant's verifier is built from that tenant's own loaded
// configuration and nothing else (a tenant that inherits the listener's default
// key accepts tokens that were not signed for it), and the default verifier is
// not built from tenant configuration.
func c10R6(c *Ctx) {
	p := c.P
	c.floor("C10.R6", 2)
	fn := p.Func("server", "NewServer")
	if fn == nil {
		c.fail("C10.R6", "anchor/server.NewServer", token.NoPos, "not found")
		return
	}
	conf := fn.Params[0]
	rootsOf := func(v ssa.Value) []string {
		roots := map[string]bool{}
		confRoots(v, conf, roots, map[ssa.Value]bool{}, 0)
		var got []string
		for r := range roots {
			if strings.HasSuffix(r, ".Auth") || strings.HasSuffix(r, ".Tenants") {
				got = append(got, r)
			}
		}
		sort.Strings(got)
		return got
	}
	newVerifierArg := func(v ssa.Value) (ssa.Value, bool) {
		v = strip(v)
		if mi, ok := v.(*ssa.MakeInterface); ok {
			v = strip(mi.X)
		}
		cl, ok := v.(*ssa.Call)
		if !ok || !strings.HasSuffix(commonName(&cl.Call), "pkg/auth.NewJWTVerifier") {
			return nil, false
		}
		return cl.Call.Args[0], true
	}
	nTen := 0
	allInstrs(fn, func(i ssa.Instruction) {
		switch x := i.(type) {
		case *ssa.MapUpdate:
			arg, ok := newVerifierArg(x.Value)
			if !ok {
				return
			}
			nTen++
			got := rootsOf(arg)
			good := len(got) == 1 && strings.HasSuffix(got[0], ".Tenants")
			c.check(good, "C10.R6", "wiring/tenant-verifier-config", x.Pos(), "a tenant's verifier is built from that tenant's own configuration only",
				fmt.Sprintf("a tenant's verifier is built from %v: keys or requirements of another configuration (the listener's default) are mixed into it, so tokens not signed by the tenant's key are accepted under the tenant", got))
		case *ssa.Call:
			if !strings.HasSuffix(commonName(&x.Call), "pkg/auth.NewMultiTenantVerifier") {
				return
			}
			arg, ok := newVerifierArg(x.Call.Args[0])
			if !ok {
				// the default verifier may come through a local: follow one spill
				if u, isU := strip(x.Call.Args[0]).(*ssa.UnOp); isU {
					if al, isA := u.X.(*ssa.Alloc); isA {
						if sv, _ := singleStore(al); sv != nil {
							arg, ok = newVerifierArg(sv)
						}
					}
				}
			}
			if !ok {
				return
			}
			got := rootsOf(arg)
			tenant := false
			for _, r := range got {
				if strings.HasSuffix(r, ".Tenants") {
					tenant = true
				}
			}
			c.check(!tenant && len(got) == 1, "C10.R6", "wiring/default-verifier-config["+strings.Join(got, "+")+"]", x.Pos(), "a port's default verifier is built from that port's own auth configuration only",
				fmt.Sprintf("a default verifier is built from %v", got))
		}
	})
	if nTen == 0 {
		c.fail("C10.R6", "wiring/tenant-verifier-config", fn.Pos(), "no per-tenant verifier construction found")
	}
}

// c10R5: the claims a token is built from are private to the verification
// call (a fresh allocation), so a token's endpoint list cannot be rewritten by
// a later verification.
func c10R5(c *Ctx) {
	p := c.P
	c.floor("C10.R5", 1)
	fn := p.Func(authPkg, "JWTVerifier.Verify")
	if fn == nil {
		c.fail("C10.R5", "anchor/JWTVerifier.Verify", token.NoPos, "not found")
		return
	}
	allInstrs(fn, func(i ssa.Instruction) {
		cl, ok := i.(*ssa.Call)
		if !ok || !strings.HasSuffix(commonName(&cl.Call), "jwt/v5.ParseWithClaims") {
			return
		}
		claims := strip(cl.Call.Args[1])
		al, isAlloc := claims.(*ssa.Alloc)
		fresh := isAlloc && al.Parent() == fn
		c.check(fresh, "C10.R5", fnName(fn)+"/claims-are-private", cl.Pos(), "claims are decoded into an object allocated by this call",
			"the claims object is not allocated by this call (pooled/shared): the endpoint list of a token still in use can be overwritten by the next verification")
	})
}

// tokenOf: v is (c.Get(TokenContextKey) value).(*auth.Token)
func tokenGetCall(v ssa.Value, key string) (*ssa.Call, bool) {
	ta, ok := strip(v).(*ssa.TypeAssert)
	if !ok {
		return nil, false
	}
	ex, ok := ta.X.(*ssa.Extract)
	if !ok || ex.Index != 0 {
		return nil, false
	}
	g, ok := ex.Tuple.(*ssa.Call)
	if !ok || !strings.HasSuffix(commonName(&g.Call), "gin.Context).Get") {
		return nil, false
	}
	if k, ok := constString(g.Call.Args[1]); !ok || k != key {
		return nil, false
	}
	return g, true
}

// permittedOn: facts show the request's token was absent or permitted E.
func permittedOn(p *Prog, facts []Fact, E ssa.Value, key string, depth int) bool {
	for _, f := range facts {
		// token absent
		if ex, ok := f.V.(*ssa.Extract); ok && ex.Index == 1 && !f.T {
			if g, ok := ex.Tuple.(*ssa.Call); ok && strings.HasSuffix(commonName(&g.Call), "gin.Context).Get") {
				if k, ok := constString(g.Call.Args[1]); ok && k == key {
					return true
				}
			}
		}
		cl, ok := f.V.(*ssa.Call)
		if !ok || !f.T {
			continue
		}
		n := commonName(&cl.Call)
		if strings.HasSuffix(n, "pkg/auth.Token).EndpointPermitted") {
			if _, ok := tokenGetCall(cl.Call.Args[0], key); ok && sameValue(cl.Call.Args[1], E) {
				return true
			}
			continue
		}
		// helper returning bool
		if cal := cl.Call.StaticCallee(); cal != nil && inModule(cal) && depth < 2 && len(cal.Blocks) > 0 {
			// which parameter receives E?
			idx := -1
			for k, a := range cl.Call.Args {
				if sameValue(a, E) {
					idx = k
				}
			}
			if idx < 0 || idx >= len(cal.Params) {
				continue
			}
			if helperSound(p, cal, cal.Params[idx], key, depth+1) {
				return true
			}
		}
	}
	return false
}

// helperSound: every `return true` of the helper is under "token absent or
// EndpointPermitted(param) == true".
func helperSound(p *Prog, fn *ssa.Function, param ssa.Value, key string, depth int) bool {
	fs := computeFacts(fn)
	n := 0
	for _, r := range returnsOf(fn) {
		rv := returnValues(r)
		if len(rv) == 0 {
			return false
		}
		last := rv[len(rv)-1]
		if b, ok := constBool(last); ok {
			if !b {
				continue
			}
			n++
			okAll := true
			for _, alt := range factAlternatives(fs, r.Block(), 4) {
				if !permittedOn(p, alt, param, key, depth) {
					okAll = false
				}
			}
			if !okAll {
				return false
			}
			continue
		}
		// return tok.EndpointPermitted(param) directly
		if cl, ok := last.(*ssa.Call); ok && strings.HasSuffix(commonName(&cl.Call), "pkg/auth.Token).EndpointPermitted") {
			if _, ok := tokenGetCall(cl.Call.Args[0], key); ok && sameValue(cl.Call.Args[1], param) {
				n++
				continue
			}
		}
		return false
	}
	return n > 0
}

func c10R1(c *Ctx) {
	p := c.P
	c.floor("C10.R1", 3)
	key := tokenContextKey(p)
	n := 0
	for _, fn := range p.ModFuncs {
		if isTestFile(p.Fset, fn.Pos()) || fn.Parent() != nil {
			continue
		}
		// handlers: take *gin.Context and make a routing call (below)
		isHandler := false
		for _, pa := range fn.Params {
			if strings.Contains(pa.Type().String(), "gin.Context") {
				isHandler = true
			}
		}
		if !isHandler || !strings.Contains(fn.String(), modPath+"/server/") {
			continue
		}
		// the routed endpoint value E: argument of EndpointPermitted calls (direct or via helper) — and of routing calls
		c.analysed(fnName(fn))
		// candidate E values: string-typed values passed to module functions together being the id
		var routing []ssa.Instruction
		routeArg := map[ssa.Instruction]ssa.Value{}
		allInstrs(fn, func(i ssa.Instruction) {
			cl, ok := i.(*ssa.Call)
			if !ok {
				return
			}
			nme := commonName(&cl.Call)
			if strings.HasSuffix(nme, "websocket.Upgrader).Upgrade") {
				routing = append(routing, i)
				return
			}
			cal := cl.Call.StaticCallee()
			if cal == nil || !inModule(cal) {
				return
			}
			short := cal.Name()
			if short == "ServeHTTP" || short == "ServeHTTPWithUpstream" || short == "NewConnUpstream" {
				for k, a := range cl.Call.Args {
					if b, ok := a.Type().Underlying().(*types.Basic); ok && b.Kind() == types.String && k < len(cal.Params) && strings.Contains(strings.ToLower(cal.Params[k].Name()), "endpoint") {
						routing = append(routing, i)
						routeArg[i] = a
					}
				}
			}
		})
		if len(routing) == 0 {
			continue
		}
		n++
		// E for the upgrade call of a handler = the E of its other routing call
		var anyE ssa.Value
		for _, e := range routeArg {
			anyE = e
		}
		for k, rc := range routing {
			E := routeArg[rc]
			if E == nil {
				E = anyE
			}
			okey := fmt.Sprintf("%s/routing-call[%d]", fnName(fn), k)
			if E == nil {
				c.undecided("C10.R1", okey, rc.Pos(), "cannot identify the endpoint value routed by this handler")
				continue
			}
			paths, complete := enumPathsAt(fn.Blocks[0], 0, func(i ssa.Instruction) bool { return i == rc }, nil, func(pa *fpath) bool { return len(pa.seen) > 0 }, 3000)
			bad := ""
			reached := 0
			for _, pa := range paths {
				if len(pa.seen) == 0 {
					continue
				}
				reached++
				if !permittedOn(p, pa.facts, E, key, 0) {
					bad = "a path reaches this routing call with a token present but without EndpointPermitted(<the routed endpoint>) having returned true on it; facts " + factStrings(pa.facts)
				}
			}
			if reached == 0 {
				bad = "routing call unreachable?"
			}
			c.check(complete && bad == "", "C10.R1", okey, rc.Pos(), fmt.Sprintf("all %d paths to the routing call are unauthenticated-port paths or passed EndpointPermitted(%s) == true", reached, posRe.ReplaceAllString(path(E), "")), bad)
		}
	}
	if n < 3 {
		c.fail("C10.R1", "handlers", token.NoPos, fmt.Sprintf("found %d token-reading handlers with routing calls, expected 3 (HTTP proxy, TCP proxy, upstream)", n))
	}
}

// c10ListVerbatim (C10.R7): the permitted-endpoints list of a Token is the
// token's claim, unmodified. Any rewriting (trimming, dropping blanks,
// de-duplicating, lower-casing) can turn a non-empty restriction into the empty
// list - which means "every endpoint" - or make a near-miss name match.
func c10ListVerbatim(c *Ctx) {
	p := c.P
	endF := p.Field(authPkg, "Token", "Endpoints")
	if endF == nil {
		c.fail("C10.anchor", "Token.Endpoints", token.NoPos, "not found")
		return
	}
	n := 0
	for _, st := range p.storesToField(endF, false) {
		n++
		s2, ok := st.Instr.(*ssa.Store)
		good := false
		src := "?"
		if ok {
			src = path(s2.Val)
			isClaimLoad := func(v ssa.Value) bool {
				if u, isLoad := strip(v).(*ssa.UnOp); isLoad && u.Op == token.MUL {
					if fa, isFA := u.X.(*ssa.FieldAddr); isFA {
						fv, _ := fieldVarOf(fa)
						return fv.Name() == "Endpoints" && fv != endF
					}
				}
				return false
			}
			good = isClaimLoad(s2.Val)
			// an element-for-element copy is the same list: slices.Clone(x), append([]string(nil), x...)
			if cl, isCall := strip(s2.Val).(*ssa.Call); isCall && !good {
				switch commonName(&cl.Call) {
				case "slices.Clone":
					good = isClaimLoad(cl.Call.Args[0])
				case "builtin append":
					good = len(cl.Call.Args) == 2 && isNilConst(cl.Call.Args[0]) && isClaimLoad(cl.Call.Args[1])
				}
			}
		}
		c.check(good, "C10.R7", fnName(st.Fn)+"/endpoints-list-verbatim", st.Instr.Pos(), "Token.Endpoints := the claim's endpoints field, as decoded",
			"the token's endpoint list is computed ("+src+") rather than copied from the claim: a rewritten list can become empty (= unrestricted) or match other names")
	}
	if n == 0 {
		c.fail("C10.R7", "stores", token.NoPos, "no store to Token.Endpoints found outside tests")
	}
}

func c10R2(c *Ctx) {
	c10ListVerbatim(c)
	p := c.P
	c.floor("C10.R2", 2)
	fn := p.Func(authPkg, "Token.EndpointPermitted")
	endF := p.Field(authPkg, "Token", "Endpoints")
	if fn == nil || endF == nil {
		c.fail("C10.R2", "anchor/Token.EndpointPermitted", token.NoPos, "not found")
		return
	}
	c.analysed(fnName(fn))
	fs := computeFacts(fn)
	param := ssa.Value(fn.Params[1])
	for k, r := range returnsOf(fn) {
		rv := returnValues(r)[0]
		facts := fs.At(r.Block())
		okey := fmt.Sprintf("%s/return[%d]", fnName(fn), k)
		if b, ok := constBool(rv); ok {
			emptyList := anyFact(facts, func(f Fact) bool {
				return cmpFact(f, token.EQL, func(v ssa.Value) bool { return lenOfField(v, endF) }, func(v ssa.Value) bool { n, ok := constInt(v); return ok && n == 0 })
			})
			c.check(b && emptyList, "C10.R2", okey, r.Pos(), "true for a token without an endpoint list", "a constant verdict is returned outside the empty-list case")
			continue
		}
		good := false
		if cl, ok := rv.(*ssa.Call); ok && commonName(&cl.Call) == "slices.Contains" {
			_, l := loadedField(cl.Call.Args[0], endF)
			good = l && strip(cl.Call.Args[1]) == param
		}
		c.check(good, "C10.R2", okey, r.Pos(), "exact membership: slices.Contains(t.Endpoints, endpointID)", "the verdict is not exact membership of the endpoint id in the token's list")
	}
}

func c10R3(c *Ctx) {
	p := c.P
	c.floor("C10.R3", 4)
	fn := p.Func(authPkg, "MultiTenantVerifier.Verify")
	defF := p.Field(authPkg, "MultiTenantVerifier", "defaultVerifier")
	tenF := p.Field(authPkg, "MultiTenantVerifier", "tenantVerifiers")
	if fn == nil || defF == nil || tenF == nil {
		c.fail("C10.R3", "anchor/MultiTenantVerifier", token.NoPos, "not found")
		return
	}
	c.analysed(fnName(fn))
	fs := computeFacts(fn)
	tenant := ssa.Value(fn.Params[2])
	isEmptyStr := func(v ssa.Value) bool { s, ok := constString(v); return ok && s == "" }
	var tenantCall *ssa.Call
	allInstrs(fn, func(i ssa.Instruction) {
		cl, ok := i.(*ssa.Call)
		if !ok || !cl.Call.IsInvoke() || cl.Call.Method.Name() != "Verify" {
			return
		}
		facts := fs.At(cl.Block())
		if _, ok := loadedField(cl.Call.Value, defF); ok {
			noTenant := anyFact(facts, func(f Fact) bool {
				return cmpFact(f, token.EQL, func(v ssa.Value) bool { return v == tenant }, isEmptyStr)
			})
			noneConfigured := anyFact(facts, func(f Fact) bool {
				return cmpFact(f, token.EQL, func(v ssa.Value) bool { return lenOfField(v, tenF) }, func(v ssa.Value) bool { n, ok := constInt(v); return ok && n == 0 })
			})
			if !(noTenant && noneConfigured) && onEveryFeasiblePath(fn, cl, func(f Fact) bool {
				return cmpFact(f, token.EQL, func(v ssa.Value) bool { return v == tenant }, isEmptyStr)
			}, func(f Fact) bool {
				return cmpFact(f, token.EQL, func(v ssa.Value) bool { return lenOfField(v, tenF) }, func(v ssa.Value) bool { n, ok := constInt(v); return ok && n == 0 })
			}) {
				noTenant, noneConfigured = true, true
			}
			c.check(noTenant && noneConfigured, "C10.R3", fnName(fn)+"/default-verifier", cl.Pos(), "default verifier only when no tenant is named and none are configured",
				"the default verifier can be used although a tenant was named or tenants are configured; facts "+factStrings(facts))
			return
		}
		// tenant verifier: tenantVerifiers[tenantID] under ok
		ex, ok := cl.Call.Value.(*ssa.Extract)
		good := false
		if ok && ex.Index == 0 {
			if lk, ok := ex.Tuple.(*ssa.Lookup); ok {
				if _, ok := loadedField(lk.X, tenF); ok && strip(lk.Index) == tenant {
					good = anyFact(facts, func(f Fact) bool {
						e2, ok := f.V.(*ssa.Extract)
						return ok && e2.Tuple == ssa.Value(lk) && e2.Index == 1 && f.T
					})
				}
			}
		}
		tenantCall = cl
		c.check(good, "C10.R3", fnName(fn)+"/tenant-verifier", cl.Pos(), "the verifier stored under exactly the named tenant, when present", "the verifier used is not tenantVerifiers[tenantID] of the named tenant under ok")
	})
	// TenantID stamp
	stamped := false
	allInstrs(fn, func(i ssa.Instruction) {
		st, ok := i.(*ssa.Store)
		if !ok {
			return
		}
		if fa, ok := st.Addr.(*ssa.FieldAddr); ok {
			if fv, _ := fieldVarOf(fa); fv.Name() == "TenantID" && strip(st.Val) == tenant {
				stamped = true
			}
		}
	})
	c.check(stamped, "C10.R3", fnName(fn)+"/stamps-tenant", fn.Pos(), "the accepted token carries the named tenant", "the accepted token is not stamped with the tenant it was verified under")
	// all other non-nil-error returns... returns with nil token give ErrUnknownTenant or the verifier's error
	for k, r := range returnsOf(fn) {
		rv := returnValues(r)
		if !isNilConst(rv[0]) {
			continue
		}
		e := path(rv[1])
		ok := strings.Contains(e, "ErrUnknownTenant") || (tenantCall != nil && strings.Contains(e, "#1"))
		c.check(ok, "C10.R3", fmt.Sprintf("%s/refusal[%d]", fnName(fn), k), r.Pos(), "refusals return ErrUnknownTenant or the verifier's error", "a refusal returns an unexpected error value: "+e)
	}
}

func c10R4(c *Ctx) {
	p := c.P
	c.floor("C10.R4", 3)
	// client side: pkg/websocket.Dial header.Set calls
	dial := p.Func("pkg/websocket", "Dial")
	if dial == nil {
		c.fail("C10.R4", "anchor/websocket.Dial", token.NoPos, "not found")
		return
	}
	sets := map[string]string{}
	allInstrs(dial, func(i ssa.Instruction) {
		cl, ok := i.(*ssa.Call)
		if !ok || commonName(&cl.Call) != "(net/http.Header).Set" {
			return
		}
		k, _ := constString(cl.Call.Args[1])
		v := ""
		if bo, ok := cl.Call.Args[2].(*ssa.BinOp); ok {
			v, _ = constString(bo.X)
		}
		sets[strings.ToLower(k)] = v
	})
	gets := map[string]bool{}
	for _, fn := range methodsOf(p, mwPkg, "Auth") {
		allInstrs(fn, func(i ssa.Instruction) {
			if cl, ok := i.(*ssa.Call); ok && commonName(&cl.Call) == "(net/http.Header).Get" {
				k, _ := constString(cl.Call.Args[1])
				gets[strings.ToLower(k)] = true
			}
		})
	}
	c.check(gets["authorization"] && sets["authorization"] == "Bearer ", "C10.R4", "plumbing/authorization", dial.Pos(), "client sends `Authorization: Bearer <token>`, middleware reads Authorization", "client and middleware disagree on the Authorization header or scheme")
	_, sent := sets["x-piko-tenant-id"]
	c.check(gets["x-piko-tenant-id"] && sent, "C10.R4", "plumbing/tenant-header", dial.Pos(), "client sends and middleware reads x-piko-tenant-id", "client and middleware disagree on the tenant header name")
	// tenant id passed to the verifier is that header
	if v := p.Func(mwPkg, "Auth.Verify"); v != nil {
		good := false
		allInstrs(v, func(i ssa.Instruction) {
			if cl, ok := i.(*ssa.Call); ok && strings.HasSuffix(commonName(&cl.Call), "MultiTenantVerifier).Verify") {
				if tc, ok := strip(cl.Call.Args[2]).(*ssa.Call); ok {
					isTenantHeader := func(hc *ssa.Call) bool {
						if commonName(&hc.Call) != "(net/http.Header).Get" {
							return false
						}
						k, ok := constString(hc.Call.Args[1])
						return ok && strings.EqualFold(k, "x-piko-tenant-id") && strings.HasSuffix(path(hc.Call.Args[0]), ".&Header")
					}
					if isTenantHeader(tc) {
						good = true
					} else if cal := tc.Call.StaticCallee(); cal != nil && inModule(cal) && cal.Blocks != nil {
						// a helper all of whose returns are that header
						all := true
						for _, r := range returnsOf(cal) {
							rv := returnValues(r)
							hc, ok := strip(rv[0]).(*ssa.Call)
							if len(rv) != 1 || !ok || !isTenantHeader(hc) {
								all = false
							}
						}
						good = all && len(returnsOf(cal)) > 0
					}
				}
			}
		})
		c.check(good, "C10.R4", fnName(v)+"/tenant-from-header", v.Pos(), "the tenant handed to the verifier is the request's tenant header", "the tenant handed to the verifier is not read from the request")
	}
}
