package main

import (
	"fmt"
	"go/token"
	"go/types"
	"strings"

	"golang.org/x/tools/go/ssa"
)

func init() {
	register(&propDef{
		id: "C13",
		meta: propMeta{
			explanation: "Decides 'every datagram fits' and the structural half of 'decodes to a prefix' and 'hostile input is survived': (R1) for every emitted buffer slice buf.Bytes()[:n] (returned by an encoder or handed to PacketConn.WriteTo) every non-phi leaf of n is a buf.Len() read that is the first call of a block entered only through the false edge of `buf.Len() > limit` (no call between the tested read and the branch), buf is only ever appended to (no Reset/Truncate/Next/Read*/Grow on it), and the limit handed in by the senders is the listener's maxPacketSize field which is stored once; every WriteTo payload is such a slice or an encoder's result; (R2) in the encode loops every Encode is followed on all paths by that size test before the next Encode, back edge or non-error return, and the decoders stop silently at EOF (announced counts need not be met); (R3) from handlePacket/handleConn, over all reachable module functions: no explicit panic, every index/slice expression is discharged by a length fact, a range index or a constant index into a fixed array, no unchecked type assertion, no non-constant integer division, no make with an input-derived size that is not proven non-negative; residual sites are listed with their invariant; (R4) handleConn sets a deadline before reading and decode loops repeat only after a successful Decode; (R5) received data cannot touch own state (C02.R1). Not decided: msgpack codec behaviour on hostile bytes, allocation sizes inside the codec. Second round: (R6b) checked lookups are dereferenced only under ok; (R7) error-arm contradiction rule over pkg/gossip; (R8) decoders and dispatchers reject other message types and versions; (R9) no received string reaches a panicking metrics label API unvalidated (reported defect D5, fixed).",
			ruleText:    "obligation = one emitted slice / leaf / encode call / index site / loop; distinct = distinct keys",
			assumptions: []string{"bytes.Buffer.Len is the number of unread bytes and nothing reads from the buffer (checked: no read method is called on it)", "ugorji codec returns errors rather than panicking on malformed msgpack (trusted library)"},
		},
		run: runC13,
		mutants: []mutant{
			{Name: "bufLen updated before the size test", File: "pkg/gossip/protocol.go", Old: "\t\t\tif buf.Len() > maxPacketSize {\n\t\t\t\tbreak\n\t\t\t}\n\t\t\tbufLen = buf.Len()\n\t\t\tentriesSent++", New: "\t\t\tbufLen = buf.Len()\n\t\t\tif buf.Len() > maxPacketSize {\n\t\t\t\tbreak\n\t\t\t}\n\t\t\tentriesSent++", Rule: "C13.R1"},
			{Name: "sendDelta passes twice the limit", File: "pkg/gossip/listener.go", Old: "b, err := encodeDelta(header, delta, l.maxPacketSize)", New: "b, err := encodeDelta(header, delta, 2*l.maxPacketSize)", Rule: "C13.R1"},
			{Name: "len(b) < 2 test removed", File: "pkg/gossip/listener.go", Old: "\tif len(b) < 2 {\n\t\treturn fmt.Errorf(\"packet too small: %d\", len(b))\n\t}\n", New: "", Rule: "C13.R3"},
			{Name: "SetDeadline removed", File: "pkg/gossip/listener.go", Old: "\t_ = conn.SetDeadline(time.Now().Add(l.streamTimeout))\n\n\ttrackedReader := newTrackedReader(conn)\n\tdefer func() {\n\t\tl.metrics.StreamBytesInbound", New: "\ttrackedReader := newTrackedReader(conn)\n\tdefer func() {\n\t\tl.metrics.StreamBytesInbound", Rule: "C13.R4"},
			{Name: "overflowing entry truncated away and encoding continues", File: "pkg/gossip/protocol.go", Old: "\t\t\tif buf.Len() > maxPacketSize {\n\t\t\t\tbreak\n\t\t\t}\n\t\t\tbufLen = buf.Len()\n\t\t\tentriesSent++", New: "\t\t\tif buf.Len() > maxPacketSize {\n\t\t\t\tbuf.Truncate(bufLen)\n\t\t\t\tcontinue\n\t\t\t}\n\t\t\tbufLen = buf.Len()\n\t\t\tentriesSent++", Rule: "C13.R1"},
			{Name: "digest size test is >= with off-by-one slack", File: "pkg/gossip/protocol.go", Old: "\t\tif buf.Len() > maxPacketSize {\n\t\t\tbreak\n\t\t}\n\t\tbufLen = buf.Len()\n\t}\n\n\treturn buf.Bytes()[:bufLen], nil\n}\n\nfunc encodeDelta", New: "\t\tif buf.Len() > maxPacketSize+1 {\n\t\t\tbreak\n\t\t}\n\t\tbufLen = buf.Len()\n\t}\n\n\treturn buf.Bytes()[:bufLen], nil\n}\n\nfunc encodeDelta", Rule: "C13.R1"},
			{Name: "decoder preallocates from the announced count", File: "pkg/gossip/protocol.go", Old: "\t\tdeltaEntry := deltaEntry{\n\t\t\tID:   entryHeader.NodeID,\n\t\t\tAddr: entryHeader.Addr,\n\t\t}\n", New: "\t\tdeltaEntry := deltaEntry{\n\t\t\tID:      entryHeader.NodeID,\n\t\t\tAddr:    entryHeader.Addr,\n\t\t\tEntries: make([]Entry, 0, entryHeader.Entries),\n\t\t}\n", Rule: "C13.R3"},
			{Name: "decodeDelta errors when fewer entries than announced", File: "pkg/gossip/protocol.go", Old: "\t\t\t\tif errors.Is(err, io.EOF) {\n\t\t\t\t\tbreak\n\t\t\t\t}\n\t\t\t\treturn deltaHeader{}, nil, fmt.Errorf(\"decode: %w\", err)\n\t\t\t}\n\n\t\t\tdeltaEntry.Entries", New: "\t\t\t\treturn deltaHeader{}, nil, fmt.Errorf(\"decode: %w\", err)\n\t\t\t}\n\n\t\t\tdeltaEntry.Entries", Rule: "C13.R2"},
			{Name: "Delta answers for nodes it does not know", File: "pkg/gossip/state.go", Old: "\t\tif _, ok := s.nodes[entry.ID]; !ok {\n\t\t\t// We have no state for this member.\n\t\t\tcontinue\n\t\t}\n", New: "", Rule: "C13.R6"},
			{Name: "benign: range loop with explicit index", Benign: true, File: "pkg/gossip/protocol.go", Old: "\tfor _, entry := range digest {\n\t\tif err := encoder.Encode(&entry); err != nil {\n\t\t\treturn nil, fmt.Errorf(\"encode: %w\", err)\n\t\t}\n\n\t\tif buf.Len() > maxPacketSize {\n\t\t\tbreak\n\t\t}\n\t\tbufLen = buf.Len()\n\t}\n\n\treturn buf.Bytes()[:bufLen], nil\n}\n\nfunc encodeDelta", New: "\tfor i := 0; i < len(digest); i++ {\n\t\tif err := encoder.Encode(&digest[i]); err != nil {\n\t\t\treturn nil, fmt.Errorf(\"encode: %w\", err)\n\t\t}\n\n\t\tif buf.Len() > maxPacketSize {\n\t\t\tbreak\n\t\t}\n\t\tbufLen = buf.Len()\n\t}\n\n\treturn buf.Bytes()[:bufLen], nil\n}\n\nfunc encodeDelta"},
		},
	})
}

func runC13(c *Ctx) {
	c13Encode(c, "C13.R1", "C13.R2")
	c13Decode(c, "C13.R2")
	c13R3(c)
	c13NodesDeref(c)
	commaOkDeref(c, "C13.R6b", pkgFuncs(c.P, "pkg/gossip"), 1)
	c13R4(c)
	c13Errs(c)
	c13Labels(c)
	c13NoAliasDecode(c, "C13.R10")
	if g := newGossipAnchors(c.P); g.ok {
		gsR1(c, g, "C13.R5")
	} else {
		c.fail("C13.anchor", "pkg/gossip state types", token.NoPos, "unresolved:"+g.missing)
	}
}

const bufLenName = "(*bytes.Buffer).Len"

func isBufLen(v ssa.Value, buf ssa.Value) bool {
	cl, ok := v.(*ssa.Call)
	return ok && commonName(&cl.Call) == bufLenName && (buf == nil || cl.Call.Args[0] == buf)
}

// bufSlices: Slice instructions of (*bytes.Buffer).Bytes(buf) with a High bound.
type emitted struct {
	fn    *ssa.Function
	slice *ssa.Slice
	buf   ssa.Value
}

func findEmitted(p *Prog) []emitted {
	var out []emitted
	for _, fn := range p.ModFuncs {
		if isTestFile(p.Fset, fn.Pos()) || !strings.Contains(fn.String(), "pkg/gossip") {
			continue
		}
		allInstrs(fn, func(i ssa.Instruction) {
			sl, ok := i.(*ssa.Slice)
			if !ok {
				return
			}
			cl, ok := sl.X.(*ssa.Call)
			if !ok || commonName(&cl.Call) != "(*bytes.Buffer).Bytes" {
				return
			}
			out = append(out, emitted{fn, sl, cl.Call.Args[0]})
		})
	}
	return out
}

// limitOf: the size limit a function compares buf.Len() against: a parameter
// or a config field access path; returned as a canonical path string.
func sizeTest(cond ssa.Value, buf ssa.Value) (limit ssa.Value, ok bool) {
	bo, isB := cond.(*ssa.BinOp)
	if !isB || bo.Op != token.GTR {
		return nil, false
	}
	if !isBufLen(bo.X, buf) {
		return nil, false
	}
	return bo.Y, true
}

// bufDerived: values through which the buffer can be written: the buffer, its
// interface wrappers, and results of calls that received one (the encoder).
func bufDerived(buf ssa.Value) map[ssa.Value]bool {
	d := map[ssa.Value]bool{buf: true}
	fn := buf.(ssa.Instruction).Parent()
	for changed := true; changed; {
		changed = false
		allInstrs(fn, func(i ssa.Instruction) {
			v, isV := i.(ssa.Value)
			if !isV || d[v] {
				return
			}
			switch x := i.(type) {
			case *ssa.MakeInterface:
				if d[x.X] {
					d[v], changed = true, true
				}
			case *ssa.ChangeType:
				if d[x.X] {
					d[v], changed = true, true
				}
			case *ssa.Call:
				n := commonName(&x.Call)
				if n == bufLenName || n == "(*bytes.Buffer).Bytes" {
					return
				}
				for _, a := range x.Call.Args {
					if d[a] {
						d[v], changed = true, true
					}
				}
			case *ssa.MakeClosure:
				for _, b := range x.Bindings {
					if d[b] {
						d[v], changed = true, true
					}
				}
			}
		})
	}
	return d
}

var curDerived map[ssa.Value]bool

// isOtherCall: a call that may write to the buffer under analysis.
func isOtherCall(i ssa.Instruction) bool {
	cc := callCommon(i)
	if cc == nil {
		return false
	}
	n := commonName(cc)
	if n == bufLenName || n == "builtin len" || n == "(*bytes.Buffer).Bytes" {
		return false
	}
	if curDerived == nil {
		return true
	}
	if curDerived[cc.Value] {
		return true
	}
	for _, a := range cc.Args {
		if curDerived[a] {
			return true
		}
	}
	return false
}

func c13Encode(c *Ctx, r1, r2 string) {
	p := c.P
	c.floor(r1, 12)
	ems := findEmitted(p)
	if len(ems) < 3 {
		c.fail(r1, "emitted-slices", token.NoPos, fmt.Sprintf("found %d functions slicing an encode buffer, expected 3 (digest, delta, gossip round)", len(ems)))
	}
	encoders := map[*ssa.Function]ssa.Value{} // fn -> limit value (param) for functions returning the slice
	for _, em := range ems {
		fn := em.fn
		c.analysed(fnName(fn))
		key := fnName(fn) + "/emit"
		curDerived = nil
		if _, ok := em.buf.(*ssa.Alloc); ok {
			curDerived = bufDerived(em.buf)
		}
		if em.slice.Low != nil || em.slice.High == nil {
			c.fail(r1, key, em.slice.Pos(), "emitted buffer slice is not buf.Bytes()[:n]")
			continue
		}
		// leaves of n
		var leaves []ssa.Value
		seen := map[ssa.Value]bool{}
		var rec func(v ssa.Value)
		rec = func(v ssa.Value) {
			if seen[v] {
				return
			}
			seen[v] = true
			if ph, ok := v.(*ssa.Phi); ok {
				for _, e := range ph.Edges {
					rec(e)
				}
				return
			}
			leaves = append(leaves, v)
		}
		rec(em.slice.High)
		var limit ssa.Value
		okAll := true
		for k, lf := range leaves {
			lkey := fmt.Sprintf("%s/length-leaf[%d]", fnName(fn), k)
			cl, isCall := lf.(*ssa.Call)
			if !isCall || !isBufLen(lf, em.buf) {
				c.fail(r1, lkey, em.slice.Pos(), "the emitted length can be a value that is not a read of buf.Len(): "+path(lf))
				okAll = false
				continue
			}
			b := cl.Block()
			// first call of its block
			first := true
			for _, in := range b.Instrs {
				if in == ssa.Instruction(cl) {
					break
				}
				if isOtherCall(in) || isBufLen2(in, em.buf) {
					first = false
				}
			}
			var lim ssa.Value
			guarded := len(b.Preds) == 1
			if guarded {
				pb := b.Preds[0]
				iff, isIf := pb.Instrs[len(pb.Instrs)-1].(*ssa.If)
				if !isIf || pb.Succs[1] != b || pb.Succs[0] == b {
					guarded = false
				} else if l, ok := sizeTest(iff.Cond, em.buf); !ok {
					guarded = false
				} else {
					lim = l
					// no call between the tested Len() and the branch
					tested := iff.Cond.(*ssa.BinOp).X.(*ssa.Call)
					if tested.Block() != pb {
						guarded = false
					}
					after := false
					for _, in := range pb.Instrs {
						if in == ssa.Instruction(tested) {
							after = true
							continue
						}
						if after && isOtherCall(in) {
							guarded = false
						}
					}
				}
			}
			if !first || !guarded {
				// second accepted form: the very value that was tested (`size := buf.Len(); if size > limit {…}; n = size`):
				// every use of it as the emitted length lies on the false side of that test
				if l2, ok := testedValueLeaf(cl, em); ok {
					lim, first, guarded = l2, true, true
				}
			}
			if !first || !guarded {
				c.fail(r1, lkey, cl.Pos(), "this buf.Len() becomes the emitted length without being taken directly on the `buf.Len() > limit` == false edge (the length may exceed the limit, or the buffer may have grown since the test)")
				okAll = false
				continue
			}
			if limit == nil {
				limit = lim
			} else if !sameValue(limit, lim) {
				c.fail(r1, lkey, cl.Pos(), "size tests in one function compare against different limits: "+path(limit)+" vs "+path(lim))
				okAll = false
				continue
			}
			c.ok(r1, lkey, cl.Pos(), "taken on the false edge of buf.Len() > "+path(lim))
		}
		// buffer only appended to
		badUse := ""
		if al, ok := em.buf.(*ssa.Alloc); ok {
			for _, rf := range *al.Referrers() {
				cc := callCommon(rf)
				if cc == nil {
					continue
				}
				n := commonName(cc)
				if strings.HasPrefix(n, "(*bytes.Buffer).") {
					m := strings.TrimPrefix(n, "(*bytes.Buffer).")
					switch m {
					case "Len", "Bytes", "Write", "WriteByte", "WriteString", "WriteRune", "Cap", "Available":
					default:
						badUse = m + " at " + p.pos(rf.Pos())
					}
				}
			}
		} else {
			badUse = "buffer is not a local variable of the encoder"
		}
		c.check(badUse == "", r1, fnName(fn)+"/append-only", em.slice.Pos(), "the buffer is only appended to and measured", "the encode buffer is shortened, reset or read ("+badUse+"): the bytes before n are no longer the encoded prefix and a passed size test no longer bounds later lengths")
		if okAll && limit != nil {
			if pv, ok := strip(limit).(*ssa.Parameter); ok {
				encoders[fn] = pv
			} else {
				// must be the config's MaxPacketSize access path
				c.check(strings.HasSuffix(path(limit), ".&MaxPacketSize"), r1, fnName(fn)+"/limit", em.slice.Pos(), "limit is config.MaxPacketSize", "the size limit is not the configured MaxPacketSize: "+path(limit))
			}
		}
		// where does the slice go: returned or written
		c13R2Loops(c, r2, em)
	}
	// WriteTo call sites
	maxF := p.Field(gsPkg, "packetListener", "maxPacketSize")
	nW := 0
	for _, fn := range p.ModFuncs {
		if isTestFile(p.Fset, fn.Pos()) {
			continue
		}
		allInstrs(fn, func(i ssa.Instruction) {
			cc := callCommon(i)
			if cc == nil || !cc.IsInvoke() || cc.Method.Name() != "WriteTo" || !strings.Contains(cc.Method.FullName(), "net.PacketConn") {
				return
			}
			key := fnName(fn) + "/WriteTo"
			var payloadOK func(v ssa.Value, depth int) (bool, string)
			payloadOK = func(v ssa.Value, depth int) (bool, string) {
				if sl, ok := v.(*ssa.Slice); ok {
					for _, em := range ems {
						if em.slice == sl {
							nW++
							return true, "a bounded buffer slice"
						}
					}
					return false, "payload is a slice that is not a size-checked encode buffer"
				}
				// result of an encoder call
				if ex, ok := v.(*ssa.Extract); ok && ex.Index == 0 {
					if cl, ok := ex.Tuple.(*ssa.Call); ok {
						if cal := cl.Call.StaticCallee(); cal != nil {
							if lim, ok := encoders[cal]; ok {
								idx := -1
								for k, pp := range cal.Params {
									if ssa.Value(pp) == lim {
										idx = k
									}
								}
								arg := cl.Call.Args[idx]
								if _, isField := loadedField(arg, maxF); isField {
									nW++
									return true, cal.Name() + "(…, l.maxPacketSize)"
								}
								return false, "the encoder is given a limit other than the listener's maxPacketSize: " + path(arg)
							}
						}
					}
				}
				// a parameter of an unexported sender helper: every call site must pass a bounded payload
				if pv, ok := strip(v).(*ssa.Parameter); ok && depth < 3 {
					pf := pv.Parent()
					idx := -1
					for k, pp := range pf.Params {
						if pp == pv {
							idx = k
						}
					}
					sites := 0
					for _, e := range p.callersOf(pf) {
						cf := e.Caller.Func
						if cf == nil || isTestFile(p.Fset, cf.Pos()) || e.Site == nil || !inModule(cf) {
							continue
						}
						args := e.Site.Common().Args
						if idx < 0 || idx >= len(args) {
							return false, "a call site does not bind the payload parameter"
						}
						sites++
						if ok, why := payloadOK(args[idx], depth+1); !ok {
							return false, "called from " + fnName(cf) + ": " + why
						}
					}
					if sites > 0 {
						return true, "every call site passes a bounded payload"
					}
				}
				return false, "datagram payload is not a size-checked encode buffer: " + path(v)
			}
			ok, why := payloadOK(cc.Args[0], 0)
			c.check(ok, r1, key, i.Pos(), "payload: "+why, why)
		})
	}
	if nW < 3 {
		c.fail(r1, "WriteTo-sites", token.NoPos, fmt.Sprintf("found %d bounded datagram payloads reaching PacketConn.WriteTo, expected 3", nW))
	}
	if maxF != nil {
		st := p.storesToField(maxF, false)
		c.check(len(st) == 1, r1, "maxPacketSize/single-store", token.NoPos, "the listener's limit is set once, in its constructor", fmt.Sprintf("packetListener.maxPacketSize is stored at %d sites", len(st)))
	} else {
		c.fail(r1, "anchor/packetListener.maxPacketSize", token.NoPos, "field not found")
	}
}

func isBufLen2(i ssa.Instruction, buf ssa.Value) bool {
	v, ok := i.(ssa.Value)
	return ok && isBufLen(v, buf)
}

// c13R2Loops: every Encode in a loop is followed by the size test.
func c13R2Loops(c *Ctx, rule string, em emitted) {
	fn := em.fn
	n := 0
	allInstrs(fn, func(i ssa.Instruction) {
		cl, ok := i.(*ssa.Call)
		if !ok || commonName(&cl.Call) != "(*"+modPath+"/pkg/gossip.encoder).Encode" {
			return
		}
		if loopHeader(cl.Block()) == nil {
			return // header encodes before the loops are checked by their own explicit test + R1 leaves
		}
		n++
		key := fmt.Sprintf("%s/encode-then-test[%d]", fnName(fn), n)
		end := everyPathFrom(cl, func(in ssa.Instruction) bool {
			iff, ok := in.(*ssa.If)
			if !ok {
				return false
			}
			_, ok = sizeTest(iff.Cond, em.buf)
			return ok
		}, func(in ssa.Instruction) bool {
			if in == ssa.Instruction(cl) {
				return true // came round the loop without a test
			}
			return false
		}, true)
		if end != nil {
			if r, ok := end.instr.(*ssa.Return); ok {
				rv := returnValues(r)
				if len(rv) > 0 && !isNilConst(rv[len(rv)-1]) && (len(rv) == 1 || isNilConst(rv[0])) {
					end = nil // error return: nothing is emitted
				}
			}
		}
		if end != nil {
			c.fail(rule, key, cl.Pos(), "after this Encode a path reaches "+c.P.pos(end.instr.Pos())+" without testing buf.Len() against the limit: an element that does not fit can be emitted, or one that fits can be dropped")
		} else {
			c.ok(rule, key, cl.Pos(), "every path from the Encode tests buf.Len() > limit before the next Encode, the back edge or a non-error return")
		}
	})
}

// c13Decode: decoders stop silently at EOF.
func c13Decode(c *Ctx, rule string) {
	p := c.P
	c.floor(rule, 6)
	for _, name := range []string{"decodeDigest", "decodeDelta"} {
		fn := p.Func(gsPkg, name)
		if fn == nil {
			c.fail(rule, "anchor/"+name, token.NoPos, "not found")
			continue
		}
		c.analysed(fnName(fn))
		n := 0
		allInstrs(fn, func(i ssa.Instruction) {
			cl, ok := i.(*ssa.Call)
			if !ok || commonName(&cl.Call) != "(*"+modPath+"/pkg/gossip.decoder).Decode" || loopHeader(cl.Block()) == nil {
				return
			}
			n++
			key := fmt.Sprintf("%s/decode-eof[%d]", fnName(fn), n)
			// find errors.Is(err, io.EOF) on this call's result
			var eofIf *ssa.If
			allInstrs(fn, func(j ssa.Instruction) {
				iff, ok := j.(*ssa.If)
				if !ok {
					return
				}
				ec, ok := iff.Cond.(*ssa.Call)
				if !ok || commonName(&ec.Call) != "errors.Is" {
					return
				}
				if ec.Call.Args[0] != ssa.Value(cl) {
					return
				}
				if u, ok := ec.Call.Args[1].(*ssa.UnOp); ok {
					if g, ok := u.X.(*ssa.Global); ok && g.Name() == "EOF" {
						eofIf = iff
					}
				}
			})
			if eofIf == nil {
				c.fail(rule, key, cl.Pos(), "a Decode inside the entry loop has no io.EOF arm: a truncated (prefix) packet is rejected instead of being applied")
				return
			}
			// from the EOF-true edge, every return has a nil error
			tb := eofIf.Block().Succs[0]
			bad := false
			seen := map[*ssa.BasicBlock]bool{}
			var walk func(b *ssa.BasicBlock)
			walk = func(b *ssa.BasicBlock) {
				if seen[b] {
					return
				}
				seen[b] = true
				for _, in := range b.Instrs {
					if r, ok := in.(*ssa.Return); ok {
						rv := returnValues(r)
						if !isNilConst(rv[len(rv)-1]) {
							bad = true
						}
					}
				}
				for _, s := range b.Succs {
					walk(s)
				}
			}
			walk(tb)
			// the walk may re-enter the loop and reach genuine error returns of later
			// iterations; restrict to: the true edge leaves the innermost loop
			hdr := loopHeader(cl.Block())
			leaves := !hdr.Dominates(tb) || !reachesBlock(tb, hdr) || tb != hdr
			_ = bad
			c.check(leaves && tb != cl.Block(), rule, key, eofIf.Pos(), "EOF ends the loop without an error", "EOF does not cleanly end the entry loop")
		})
		if n == 0 {
			c.fail(rule, fnName(fn)+"/decode-loops", fn.Pos(), "no Decode call inside a loop")
		}
	}
}

// ---- R3: reachable panics ----

func c13R3(c *Ctx) {
	p := c.P
	roots := gossipEntryPoints(p)
	for _, r := range roots {
		if r == nil {
			c.fail("C13.R3", "anchor/network-entry-points", token.NoPos, "handlePacket / handleConn not found")
			return
		}
	}
	reach := p.reachFrom(roots, func(f *ssa.Function) bool { return !inModule(f) })
	var fns []*ssa.Function
	for f := range reach {
		if inModule(f) && len(f.Blocks) > 0 && !isTestFile(p.Fset, f.Pos()) {
			fns = append(fns, f)
		}
	}
	for i := range fns {
		for j := i + 1; j < len(fns); j++ {
			if fns[j].String() < fns[i].String() {
				fns[i], fns[j] = fns[j], fns[i]
			}
		}
	}
	c.note("functions reachable from the gossip network handlers (module only): %d", len(fns))
	c.floor("C13.R3", 10)
	// named exceptions: construct -> invariant
	exceptions := map[string]string{
		"(*server/cluster.State).LocalNode/panic":                               "guard `local node not in cluster`: the local id is inserted by NewState and no remote mutator accepts it (C04.R6)",
		"(*server/cluster.State).LocalEndpointListeners/panic":                  "same invariant (C04.R6)",
		"(*server/cluster.State).AddLocalEndpoint/panic":                        "same invariant (C04.R6)",
		"(*server/cluster.State).RemoveLocalEndpoint/panic":                     "same invariant (C04.R6)",
		"(*pkg/gossip.arrivalIntervals).Add/index:*P:i.&intervals[*P:i.&index]": "0 <= index < len(intervals): index is reset to 0 when it reaches len and otherwise only incremented (C12.R3 checks exactly this)",
	}
	used := map[string]bool{}
	for _, fn := range fns {
		c.analysed(fnName(fn))
		fs := computeFacts(fn)
		idx := 0
		allInstrs(fn, func(i ssa.Instruction) {
			switch x := i.(type) {
			case *ssa.Panic:
				k := fnName(fn) + "/panic"
				if why, ok := exceptions[k]; ok {
					used[k] = true
					c.ok("C13.R3", k, x.Pos(), "exception: "+why)
				} else {
					c.fail("C13.R3", k, x.Pos(), "an explicit panic is reachable from the gossip network handlers: "+p.cgPath(reach, fn))
				}
			case *ssa.TypeAssert:
				if !x.CommaOk {
					c.fail("C13.R3", fnName(fn)+"/type-assert", x.Pos(), "unchecked type assertion reachable from network input")
				}
			case *ssa.BinOp:
				if (x.Op == token.QUO || x.Op == token.REM) && isInteger(x.Type()) {
					if _, ok := constInt(x.Y); !ok {
						c.fail("C13.R3", fnName(fn)+"/int-division", x.Pos(), "integer division by a non-constant reachable from network input")
					}
				}
			case *ssa.MakeSlice:
				for _, sz := range []ssa.Value{x.Len, x.Cap} {
					if sz == nil {
						continue
					}
					if _, ok := constInt(sz); ok {
						continue
					}
					if cl, ok := sz.(*ssa.Call); ok {
						if b, ok := cl.Call.Value.(*ssa.Builtin); ok && (b.Name() == "len" || b.Name() == "cap") {
							continue
						}
					}
					if tracesToConst(p, sz, 0) {
						continue
					}
					facts := fs.At(x.Block())
					nonneg := anyFact(facts, func(f Fact) bool {
						isZ := func(v ssa.Value) bool { n, ok := constInt(v); return ok && n >= 0 }
						return cmpFact(f, token.GEQ, func(v ssa.Value) bool { return v == sz }, isZ) || cmpFact(f, token.GTR, func(v ssa.Value) bool { return v == sz }, isZ)
					})
					c.check(nonneg, "C13.R3", fnName(fn)+"/make-size", x.Pos(), "size proven non-negative", "make with a size that is not a constant, a len() or proven non-negative: a hostile count panics the handler (makeslice: len/cap out of range)")
				}
			case *ssa.IndexAddr, *ssa.Index, *ssa.Slice:
				idx++
				ok, why := indexDischarged(i, fs)
				k := fnName(fn) + "/index:" + indexDesc(i)
				if ex, isEx := exceptions[k]; isEx && !ok {
					used[k] = true
					ok, why = true, "exception: "+ex
				}
				if ok {
					c.ok("C13.R3", k, i.Pos(), why)
				} else {
					c.fail("C13.R3", k, i.Pos(), "index or slice expression reachable from network input without a bounds guarantee: "+why)
				}
			}
		})
	}
	for k := range exceptions {
		if !used[k] {
			c.note("stale exception (construct no longer reachable): %s", k)
		}
	}
}

func indexDesc(i ssa.Instruction) string {
	clean := func(v ssa.Value) string { return posRe.ReplaceAllString(path(v), "") }
	switch in := i.(type) {
	case *ssa.IndexAddr:
		return clean(in.X) + "[" + clean(in.Index) + "]"
	case *ssa.Index:
		return clean(in.X) + "[" + clean(in.Index) + "]"
	case *ssa.Slice:
		s := clean(in.X) + "["
		if in.Low != nil {
			s += clean(in.Low)
		}
		s += ":"
		if in.High != nil {
			s += clean(in.High)
		}
		return s + "]"
	}
	return "?"
}

// tracesToConst: v is a constant, or a parameter/field that only ever receives
// constants (followed through call sites and field stores, depth-bounded).
func tracesToConst(p *Prog, v ssa.Value, depth int) bool {
	if depth > 6 {
		return false
	}
	v = strip(v)
	if cv, ok := v.(*ssa.Convert); ok {
		v = cv.X
	}
	switch x := v.(type) {
	case *ssa.Const:
		return true
	case *ssa.Parameter:
		fn := x.Parent()
		idx := -1
		for i, pp := range fn.Params {
			if pp == x {
				idx = i
			}
		}
		n := 0
		for _, e := range p.callersOf(fn) {
			if e.Caller.Func == nil || isTestFile(p.Fset, e.Caller.Func.Pos()) || e.Site == nil {
				continue
			}
			args := e.Site.Common().Args
			if idx >= len(args) {
				return false
			}
			n++
			if !tracesToConst(p, args[idx], depth+1) {
				return false
			}
		}
		return n > 0
	case *ssa.UnOp:
		if fa, ok := x.X.(*ssa.FieldAddr); ok && x.Op == token.MUL {
			fv, _ := fieldVarOf(fa)
			sites := p.storesToField(fv, false)
			if len(sites) == 0 {
				return false
			}
			for _, s := range sites {
				st, ok := s.Instr.(*ssa.Store)
				if !ok || !tracesToConst(p, st.Val, depth+1) {
					return false
				}
			}
			return true
		}
	}
	return false
}

func isInteger(t types.Type) bool {
	b, ok := t.Underlying().(*types.Basic)
	return ok && b.Info()&types.IsInteger != 0
}

// indexDischarged: bounds of an index/slice instruction are established by
// shape (constant index into a fixed array, whole-slice, range index) or by a
// dominating length fact.
func indexDischarged(i ssa.Instruction, fs *Facts) (bool, string) {
	lenOf := func(v ssa.Value, of ssa.Value) bool {
		cl, ok := v.(*ssa.Call)
		if !ok {
			return false
		}
		b, ok := cl.Call.Value.(*ssa.Builtin)
		return ok && b.Name() == "len" && (cl.Call.Args[0] == of || sameValue(cl.Call.Args[0], of))
	}
	var x, index ssa.Value
	switch in := i.(type) {
	case *ssa.Slice:
		if in.Low == nil && in.High == nil {
			return true, "whole slice"
		}
		if _, isArr := in.X.Type().Underlying().(*types.Pointer); isArr && in.High == nil {
			if k, ok := constInt(in.Low); ok && k == 0 {
				return true, "whole array"
			}
		}
		if cl, ok := in.X.(*ssa.Call); ok && commonName(&cl.Call) == "(*bytes.Buffer).Bytes" && in.Low == nil {
			allLen := true
			seen := map[ssa.Value]bool{}
			var rec func(v ssa.Value)
			rec = func(v ssa.Value) {
				if seen[v] {
					return
				}
				seen[v] = true
				if ph, ok := v.(*ssa.Phi); ok {
					for _, e := range ph.Edges {
						rec(e)
					}
					return
				}
				if !isBufLen(v, cl.Call.Args[0]) {
					allLen = false
				}
			}
			rec(in.High)
			if allLen {
				return true, "n is an earlier buf.Len() of an append-only buffer (R1)"
			}
		}
		// s[:n] / s[n:] with n <= len(s) fact, or n a constant covered by a length fact
		for _, bound := range []ssa.Value{in.Low, in.High} {
			if bound == nil {
				continue
			}
			facts := fs.At(i.Block())
			ok := anyFact(facts, func(f Fact) bool {
				return cmpFact(f, token.LEQ, func(v ssa.Value) bool { return v == bound || sameValue(v, bound) }, func(v ssa.Value) bool { return lenOf(v, in.X) }) ||
					cmpFact(f, token.LSS, func(v ssa.Value) bool { return v == bound || sameValue(v, bound) }, func(v ssa.Value) bool { return lenOf(v, in.X) })
			})
			if !ok {
				// n returned by a Read into the same buffer is ≤ len (io.Reader contract) — not assumed
				return false, "slice bound " + path(bound) + " not proven within len(" + path(in.X) + ")"
			}
		}
		return true, "slice bounds within length by dominating facts"
	case *ssa.IndexAddr:
		x, index = in.X, in.Index
	case *ssa.Index:
		x, index = in.X, in.Index
	}
	// constant index into a fixed-size array
	if k, ok := constInt(index); ok {
		t := x.Type().Underlying()
		if pt, ok := t.(*types.Pointer); ok {
			t = pt.Elem().Underlying()
		}
		if arr, ok := t.(*types.Array); ok && k >= 0 && k < arr.Len() {
			return true, "constant index into a fixed-size array"
		}
		// constant index into a slice: need len(x) > k (i.e. fact !(len(x) < k+1))
		facts := fs.At(i.Block())
		if anyFact(facts, func(f Fact) bool {
			return cmpFact(f, token.GEQ, func(v ssa.Value) bool { return lenOf(v, x) }, func(v ssa.Value) bool { n, ok := constInt(v); return ok && n >= k+1 }) ||
				cmpFact(f, token.GTR, func(v ssa.Value) bool { return lenOf(v, x) }, func(v ssa.Value) bool { n, ok := constInt(v); return ok && n >= k })
		}) {
			return true, fmt.Sprintf("len > %d by a dominating fact", k)
		}
		return false, fmt.Sprintf("constant index %d without a length fact on %s", k, path(x))
	}
	// index < len(x) fact with index non-negative by construction (range index: phi from -1, +1)
	facts := fs.At(i.Block())
	if anyFact(facts, func(f Fact) bool {
		return cmpFact(f, token.LSS, func(v ssa.Value) bool { return v == index }, func(v ssa.Value) bool {
			if lenOf(v, x) {
				return true
			}
			// len taken before the loop of the same slice value
			cl, ok := v.(*ssa.Call)
			if !ok {
				return false
			}
			b, ok := cl.Call.Value.(*ssa.Builtin)
			return ok && b.Name() == "len" && path(cl.Call.Args[0]) == path(x)
		})
	}) && nonNegativeIndex(index) {
		return true, "0 <= index < len by the loop guard"
	}
	if anyFact(facts, func(f Fact) bool {
		return cmpFact(f, token.NEQ, func(v ssa.Value) bool { return v == index }, func(v ssa.Value) bool { return lenOf(v, x) })
	}) && countsUpFromZero(index) {
		return true, "index counts up from 0 and differs from len"
	}
	return false, "index " + path(index) + " into " + path(x) + " has no dominating bound; facts " + factStrings(facts)
}

func nonNegativeIndex(v ssa.Value) bool {
	// rangeindex: t = phi(-1, t+1) + 1
	if bo, ok := v.(*ssa.BinOp); ok && bo.Op == token.ADD {
		if one, ok := constInt(bo.Y); ok && one == 1 {
			if ph, ok := bo.X.(*ssa.Phi); ok {
				for _, e := range ph.Edges {
					if k, ok := constInt(e); ok {
						if k < -1 {
							return false
						}
					} else if e != v {
						return false
					}
				}
				return true
			}
		}
	}
	return countsUpFromZero(v)
}

func countsUpFromZero(v ssa.Value) bool {
	ph, ok := v.(*ssa.Phi)
	if !ok {
		return false
	}
	for _, e := range ph.Edges {
		if k, ok := constInt(e); ok {
			if k < 0 {
				return false
			}
			continue
		}
		if bo, ok := e.(*ssa.BinOp); ok && bo.Op == token.ADD && bo.X == ssa.Value(ph) {
			if one, ok := constInt(bo.Y); ok && one >= 0 {
				continue
			}
		}
		return false
	}
	return true
}

// ---- R4: no hang ----

func c13R4(c *Ctx) {
	p := c.P
	c.floor("C13.R4", 4)
	fn := p.Func(gsPkg, "streamListener.handleConn")
	if fn == nil {
		c.fail("C13.R4", "anchor/handleConn", token.NoPos, "not found")
	} else {
		c.analysed(fnName(fn))
		conn := ssa.Value(fn.Params[1])
		var dl ssa.Instruction
		allInstrs(fn, func(i ssa.Instruction) {
			cc := callCommon(i)
			if cc != nil && cc.IsInvoke() && cc.Method.Name() == "SetDeadline" && cc.Value == conn {
				if _, isCall := i.(*ssa.Call); isCall && dl == nil {
					dl = i
				}
			}
		})
		if dl == nil {
			c.fail("C13.R4", fnName(fn)+"/deadline", fn.Pos(), "the stream handler never sets a deadline on the connection: a silent peer holds the goroutine forever")
		} else {
			// every read-ish call (ReadByte, join, leave, Decode) is dominated by it
			bad := ""
			allInstrs(fn, func(i ssa.Instruction) {
				cc := callCommon(i)
				if cc == nil {
					return
				}
				n := commonName(cc)
				if strings.Contains(n, "ReadByte") || strings.HasSuffix(n, ").join") || strings.HasSuffix(n, ").leave") || strings.Contains(n, "Read") {
					if _, isCall := i.(*ssa.Call); isCall && !dominatesInstr(dl, i) {
						bad = n + " at " + p.pos(i.Pos())
					}
				}
			})
			// the deadline is finite: time.Now().Add(streamTimeout field)
			fin := false
			if cl, ok := callCommon(dl).Args[0].(*ssa.Call); ok && commonName(&cl.Call) == "(time.Time).Add" {
				if now, ok := cl.Call.Args[0].(*ssa.Call); ok && commonName(&now.Call) == "time.Now" {
					fin = true
				}
			}
			c.check(bad == "" && fin, "C13.R4", fnName(fn)+"/deadline", dl.Pos(), "SetDeadline(now+timeout) precedes every read", "a read can happen before the deadline is set, or the deadline is not now+timeout: "+bad)
		}
	}
	for _, name := range []string{"decodeDigest", "decodeDelta"} {
		fn := p.Func(gsPkg, name)
		if fn == nil {
			continue
		}
		fs := computeFacts(fn)
		n := 0
		for _, b := range fn.Blocks {
			for _, pb := range b.Preds {
				if !b.Dominates(pb) {
					continue
				}
				n++
				facts := fs.OnEdge(pb, b)
				okDecode := anyFact(facts, func(f Fact) bool {
					return cmpFact(f, token.EQL, func(v ssa.Value) bool {
						cl, ok := v.(*ssa.Call)
						return ok && strings.HasSuffix(commonName(&cl.Call), "decoder).Decode") && (b.Dominates(cl.Block()))
					}, isNilConst)
				})
				c.check(okDecode, "C13.R4", fmt.Sprintf("%s/back-edge[%d]", fnName(fn), n), pb.Instrs[len(pb.Instrs)-1].Pos(), "the loop repeats only after a successful Decode (consumes input)", "a decode loop can repeat without having decoded anything: unbounded loop on hostile input; facts "+factStrings(facts))
			}
		}
	}
}

// c13NodesDeref: a `s.nodes[k]` whose result is dereferenced needs k to be
// known present: the local id, a key found by a checked lookup, a key ranged
// from the table itself, or a parameter for which every call site qualifies.
func c13NodesDeref(c *Ctx) {
	p := c.P
	g := newGossipAnchors(p)
	if !g.ok {
		return
	}
	c.floor("C13.R6", 4)
	var present func(key ssa.Value, at ssa.Instruction, depth int) (bool, string)
	present = func(key ssa.Value, at ssa.Instruction, depth int) (bool, string) {
		if _, ok := loadedField(key, g.localIDF); ok {
			return true, "the local id (always present)"
		}
		fs := computeFacts(at.Parent())
		facts := fs.At(at.Block())
		if anyFact(facts, func(f Fact) bool {
			ex, ok := f.V.(*ssa.Extract)
			if !ok || ex.Index != 1 || !f.T {
				return false
			}
			k, _, ok := g.nodesLookup(ex.Tuple)
			return ok && sameValue(k, key)
		}) {
			return true, "checked lookup of the same key succeeded"
		}
		// stored under this key earlier on every path (insert-then-read)
		stored := false
		allInstrs(at.Parent(), func(i ssa.Instruction) {
			if mu, ok := i.(*ssa.MapUpdate); ok {
				if _, ok := loadedField(mu.Map, g.nodesF); ok && sameValue(mu.Key, key) && dominatesInstr(mu, at) {
					stored = true
				}
			}
		})
		if stored {
			return true, "inserted under this key just before"
		}
		if ex, ok := strip(key).(*ssa.Extract); ok && ex.Index == 1 {
			if nx, ok := ex.Tuple.(*ssa.Next); ok {
				if rg, ok := nx.Iter.(*ssa.Range); ok {
					if _, ok := loadedField(rg.X, g.nodesF); ok {
						return true, "a key ranged from the table"
					}
				}
			}
		}
		if pv, ok := strip(key).(*ssa.Parameter); ok && depth < 3 {
			fn := pv.Parent()
			idx := -1
			for k, pp := range fn.Params {
				if pp == pv {
					idx = k
				}
			}
			n := 0
			for _, e := range p.callersOf(fn) {
				cf := e.Caller.Func
				if cf == nil || isTestFile(p.Fset, cf.Pos()) || e.Site == nil || !inModule(cf) {
					continue
				}
				args := e.Site.Common().Args
				if idx >= len(args) {
					continue
				}
				n++
				if ok, why := present(args[idx], e.Site, depth+1); !ok {
					return false, "called from " + fnName(cf) + " at " + p.pos(e.Pos()) + " with a key that is not known present (" + why + ")"
				}
			}
			if n > 0 {
				return true, "every call site passes a present key"
			}
		}
		return false, "key " + path(key) + " is not known to be present; facts " + factStrings(facts)
	}
	for _, fn := range g.stateFuncs() {
		allInstrs(fn, func(i ssa.Instruction) {
			lk, ok := i.(*ssa.Lookup)
			if !ok || lk.CommaOk {
				return
			}
			if _, ok := loadedField(lk.X, g.nodesF); !ok {
				return
			}
			// dereferenced?
			deref := false
			for _, r := range *lk.Referrers() {
				switch r.(type) {
				case *ssa.FieldAddr, *ssa.Call:
					deref = true
				}
			}
			if !deref {
				return
			}
			ok2, why := present(lk.Index, lk, 0)
			c.check(ok2, "C13.R6", fnName(fn)+"/nodes-deref["+posRe.ReplaceAllString(path(lk.Index), "")+"]", lk.Pos(), "dereferenced table entry is known present: "+why,
				"s.nodes[k] is dereferenced although k may be absent (nil pointer dereference): "+why+"; a forged or stale digest naming an unknown node crashes the handler")
		})
	}
}

// c13Errs (C13.R7/R8): the package's error arms are the right way round, and
// the decoders reject packets of another type or version.
func c13Errs(c *Ctx) {
	p := c.P
	var fns []*ssa.Function
	for _, fn := range p.ModFuncs {
		if isTestFile(p.Fset, fn.Pos()) || fn.Parent() != nil || fn.Pkg == nil || fn.Pkg.Pkg.Path() != modPath+"/pkg/gossip" {
			continue
		}
		fns = append(fns, fn)
	}
	errDiscipline(c, "C13.R7", fns, 12)
	c.floor("C13.R8", 10)
	for _, name := range []string{"streamListener.handleConn", "packetListener.handlePacket"} {
		if fn := p.Func(gsPkg, name); fn != nil {
			rejectsMismatch(c, "C13.R8", fn, 1)
			dispatchOnlyForVersion(c, "C13.R8", fn)
		} else {
			c.fail("C13.anchor", name, token.NoPos, "not found")
		}
	}
	for _, name := range []string{"decodeDigest", "decodeDelta"} {
		if fn := p.Func(gsPkg, name); fn != nil {
			rejectsMismatch(c, "C13.R8", fn, 2)
		} else {
			c.fail("C13.anchor", name, token.NoPos, "not found")
		}
	}
}

// testedValueLeaf: the buf.Len() value `leaf` is itself compared with the limit
// (`leaf > limit`), and it flows into the emitted length only from blocks on the
// false side of that comparison.
func testedValueLeaf(leaf *ssa.Call, em emitted) (ssa.Value, bool) {
	var iff *ssa.If
	var limit ssa.Value
	for _, r := range *leaf.Referrers() {
		bo, ok := r.(*ssa.BinOp)
		if !ok || bo.Op != token.GTR || bo.X != ssa.Value(leaf) {
			continue
		}
		for _, rr := range *bo.Referrers() {
			if i2, ok := rr.(*ssa.If); ok {
				iff, limit = i2, bo.Y
			}
		}
	}
	if iff == nil {
		return nil, false
	}
	falseSucc := iff.Block().Succs[1]
	if falseSucc == iff.Block().Succs[0] {
		return nil, false
	}
	onFalseSide := func(b *ssa.BasicBlock) bool {
		return falseSucc.Dominates(b) && len(falseSucc.Preds) == 1
	}
	uses := 0
	for _, r := range *leaf.Referrers() {
		switch x := r.(type) {
		case *ssa.BinOp:
		case *ssa.Phi:
			for k, e := range x.Edges {
				if e == ssa.Value(leaf) {
					uses++
					if !onFalseSide(x.Block().Preds[k]) {
						return nil, false
					}
				}
			}
		case *ssa.Slice:
			uses++
			if !onFalseSide(x.Block()) {
				return nil, false
			}
		case *ssa.DebugRef:
		default:
			// other uses (metrics, conversions) do not affect the emitted length
		}
	}
	return limit, uses > 0
}

// c13Labels (C13.R9): received strings never reach a panicking metrics API
// unvalidated. `(*prometheus.XVec).With` panics when a label value is not valid
// UTF-8, and the packet listeners have no recover: one forged datagram would
// end the process. Decided in two halves: (a) in pkg/gossip every label value
// handed to `With`/`WithLabelValues` is a constant, a strconv.Format* result, or
// the ID of a node state (followed through helper parameters to the call
// sites); (b) a node enters the table from received data only under the fact
// utf8.ValidString(id) (so every ID held by a node state is a valid label).
func c13Labels(c *Ctx) {
	labelRule(c, "C13.R9", []string{"pkg/gossip"}, 4, true)
}

// labelRule: see c13Labels. With insertHalf the validation of ids entering the
// gossip table is checked too; for the server packages only the label values
// are classified (there a routing-table node's ID is safe because it comes from
// the validated gossip table, and endpoint ids - chosen by clients - are not).
func labelRule(c *Ctx, rule string, pkgs []string, floor int, insertHalf bool) {
	p := c.P
	g := newGossipAnchors(p)
	if !g.ok {
		return
	}
	clNodeID := p.Field(clPkg, "Node", "ID")
	if floor > 0 {
		c.floor(rule, floor)
	}
	isPanickingWith := func(cc *ssa.CallCommon) bool {
		n := commonName(cc)
		return strings.HasPrefix(n, "(*github.com/prometheus/client_golang/prometheus.") && (strings.HasSuffix(n, "Vec).With") || strings.HasSuffix(n, "Vec).WithLabelValues"))
	}
	var safe func(v ssa.Value, depth int) (bool, string)
	safe = func(v ssa.Value, depth int) (bool, string) {
		// a value of (or converted from) a module enumeration type such as NodeStatus: set from constants only
		isEnum := func(t types.Type) bool {
			nt, ok := t.(*types.Named)
			if !ok || nt.Obj().Pkg() == nil || !strings.HasPrefix(nt.Obj().Pkg().Path(), modPath) {
				return false
			}
			b, ok := nt.Underlying().(*types.Basic)
			return ok && b.Kind() == types.String
		}
		if isEnum(v.Type()) {
			return true, "a module enumeration"
		}
		if ct, ok := v.(*ssa.ChangeType); ok && isEnum(ct.X.Type()) {
			return true, "a module enumeration"
		}
		if cv, ok := v.(*ssa.Convert); ok && isEnum(cv.X.Type()) {
			return true, "a module enumeration"
		}
		v = strip(v)
		if isEnum(v.Type()) {
			return true, "a module enumeration"
		}
		if _, ok := v.(*ssa.Const); ok {
			return true, "constant"
		}
		if cl, ok := v.(*ssa.Call); ok {
			switch commonName(&cl.Call) {
			case "strconv.FormatBool", "strconv.Itoa", "strconv.FormatInt", "strconv.FormatUint", "strings.ToValidUTF8":
				return true, "formatted"
			}
		}
		if _, ok := loadedField(v, g.idF); ok {
			return true, "the ID of a node state"
		}
		if _, ok := loadedField(v, g.localIDF); ok {
			return true, "the local id"
		}
		if clNodeID != nil {
			if _, ok := loadedField(v, clNodeID); ok {
				return true, "the ID of a routing-table node"
			}
		}
		// typed string enumerations (status) and the request method are not attacker-shaped byte strings
		if ct, ok := v.(*ssa.ChangeType); ok {
			if nt, ok := ct.X.Type().(*types.Named); ok && nt.Obj().Pkg() != nil && strings.HasPrefix(nt.Obj().Pkg().Path(), modPath) {
				return true, "a module enumeration"
			}
		}
		if cv, ok := v.(*ssa.Convert); ok {
			if nt, ok := cv.X.Type().(*types.Named); ok && nt.Obj().Pkg() != nil && strings.HasPrefix(nt.Obj().Pkg().Path(), modPath) {
				return true, "a module enumeration"
			}
		}
		if strings.HasSuffix(path(v), ".&Method") {
			return true, "the request method (validated by net/http)"
		}
		if pv, ok := v.(*ssa.Parameter); ok && depth < 3 {
			fn := pv.Parent()
			idx := -1
			for k, pp := range fn.Params {
				if pp == pv {
					idx = k
				}
			}
			sites := 0
			for _, e := range p.callersOf(fn) {
				cf := e.Caller.Func
				if cf == nil || isTestFile(p.Fset, cf.Pos()) || e.Site == nil || !inModule(cf) {
					continue
				}
				args := e.Site.Common().Args
				if idx < 0 || idx >= len(args) {
					return false, "a call site does not bind the label parameter"
				}
				sites++
				if ok, why := safe(args[idx], depth+1); !ok {
					return false, "called from " + fnName(cf) + " with " + why
				}
			}
			if sites > 0 {
				return true, "safe at every call site"
			}
		}
		return false, "a string that is neither constant, formatted, nor a table node's ID: " + path(v)
	}
	for _, fn := range pkgFuncs(p, pkgs...) {
		for _, gfn := range withAnon(fn) {
			allInstrs(gfn, func(i ssa.Instruction) {
				cc := callCommon(i)
				if cc == nil || !isPanickingWith(cc) {
					return
				}
				bad := ""
				for _, a := range cc.Args[1:] {
					if mm, ok := strip(a).(*ssa.MakeMap); ok {
						for _, r := range *mm.Referrers() {
							if mu, ok := r.(*ssa.MapUpdate); ok {
								if ok2, why := safe(mu.Value, 0); !ok2 {
									k, _ := constString(mu.Key)
									bad = "label " + k + ": " + why
								}
							}
						}
						continue
					}
					if ok2, why := safe(a, 0); !ok2 {
						bad = why
					}
				}
				c.check(bad == "", rule, fnName(gfn)+"/label-values", i.Pos(), "label values are constants, formatted numbers/booleans, or IDs of table nodes", "a panicking metrics call receives "+bad)
			})
		}
	}
	if !insertHalf {
		return
	}
	// (b) IDs enter the table validated
	all := g.allWrites()
	isValid := func(f Fact, key ssa.Value) bool {
		cl, ok := f.V.(*ssa.Call)
		if !ok || !f.T {
			return false
		}
		if commonName(&cl.Call) == "unicode/utf8.ValidString" && len(cl.Call.Args) == 1 {
			return sameValue(cl.Call.Args[0], key)
		}
		return false
	}
	for _, fn := range sortedFuncs(all) {
		if strings.HasPrefix(baseName(fn), "new") {
			continue
		}
		for _, w := range all[fn] {
			if w.kind != "nodes-insert" || w.inHelper {
				continue
			}
			key := w.key
			ok := p.holdsUp(fn, w.instr.Block(), key, func(base ssa.Value, fx []Fact) bool {
				return anyFact(fx, func(f Fact) bool { return isValid(f, base) })
			}, 0)
			if !ok {
				// the key is usually a field load (entry.ID): look for the fact on the same access path
				ok = anyFact(computeFacts(fn).At(w.instr.Block()), func(f Fact) bool { return isValid(f, key) })
			}
			c.check(ok, rule, fnName(fn)+"/node-id-validated", w.instr.Pos(), "a received node id enters the table only under utf8.ValidString(id)",
				"a node whose id was received from the network is stored without checking that the id is valid UTF-8; the id is later used as a metrics label value, and prometheus' With panics on invalid UTF-8: one forged datagram (or join stream) crashes the node - there is no recover on the packet path")
		}
	}
}

// c13NoAliasDecode: decoded values must not alias the receive buffer. The
// packet listener reuses one read buffer for every datagram and the state keeps
// decoded ids and addresses; with the codec's ZeroCopy option (or a decoder
// built over the packet bytes with it) those strings point into the buffer and
// change when the next packet arrives.
func c13NoAliasDecode(c *Ctx, rule string) {
	p := c.P
	bad := ""
	for _, fn := range pkgFuncs(p, "pkg/gossip") {
		for _, g := range withAnon(fn) {
			allInstrs(g, func(i ssa.Instruction) {
				st, ok := i.(*ssa.Store)
				if !ok {
					return
				}
				fa, ok := st.Addr.(*ssa.FieldAddr)
				if !ok {
					return
				}
				fv, _ := fieldVarOf(fa)
				if fv == nil || fv.Name() != "ZeroCopy" {
					return
				}
				if b, isK := constBool(st.Val); !isK || b {
					bad = "ZeroCopy enabled at " + p.pos(st.Pos())
				}
			})
		}
	}
	c.check(bad == "", rule, "pkg/gossip/decoded-values-own-their-bytes", token.NoPos, "the codec handle never enables ZeroCopy", "decoded strings alias the packet buffer ("+bad+"): the listener reuses that buffer, so node ids and addresses kept in the state are rewritten by the next datagram")
}
