package main

import (
	"fmt"
	"go/token"
	"go/types"
	"regexp"
	"strings"

	"golang.org/x/tools/go/ssa"
)

const (
	upPkg      = "server/upstream"
	clPkg      = "server/cluster"
	fnAddLocal = "(*" + modPath + "/server/cluster.State).AddLocalEndpoint"
	fnRemLocal = "(*" + modPath + "/server/cluster.State).RemoveLocalEndpoint"
	fnLBAdd    = "(*" + modPath + "/server/upstream.loadBalancer).Add"
	fnLBRemove = "(*" + modPath + "/server/upstream.loadBalancer).Remove"
	fnLBNext   = "(*" + modPath + "/server/upstream.loadBalancer).Next"
)

var posRe = regexp.MustCompile(`@[^ →]*`)

func init() {
	register(&propDef{
		id: "C05",
		meta: propMeta{
			explanation: "Decides the structural content of 'advertised count = registered count': (R1) every path class of every LoadBalancedManager method changes len(balancer.upstreams) and the cluster count by the same amount (effect summaries over SSA, callee classes inlined, classes pruned only by a caller membership fact or a constant callee result); (R1b) a new balancer is always entered in the table; (R2) Add/RemoveLocalEndpoint are exact +1/-1 primitives that notify subscribers on and only on mutation; (R3) the subscriber publishes count>0 as upsert else delete for the same endpoint; (R4) balancer, table and cluster updates happen with the manager mutex held; (R5) only the manager calls the primitives. Together: equality at quiescence by induction from the empty state, for every call history and schedule. Not decided: nothing about gossip delivery (C02-C04). Second round: (R1d) a balancer is stored only over nothing or itself; (R2c) the count map is allocated only when nil and subscribers are recorded; (R3b) the Gossip upsert/delete facades forward their arguments; the C17 rule set runs with this check.",
			ruleText:    "obligation = one rule instance (path class, store, call site, caller); non-trivial = its construct set is non-empty; distinct = distinct obligation keys",
			assumptions: []string{"RemoveLocalEndpoint's not-found arm is unreachable when R1 holds (induction)", "loadBalancer objects are reachable only through LoadBalancedManager.localUpstreams (R5 + C20.L3)"},
		},
		run: runC05,
		mutants: []mutant{
			{Name: "drop membership guard in RemoveConn (re-introduces D1)", File: "server/upstream/manager.go", Old: "\tif !slices.Contains(lb.upstreams, u) {\n", New: "\tif !slices.Contains(lb.upstreams, u) && len(lb.upstreams) == 0 {\n", Rule: "C05.R1"},
			{Name: "AddConn skips AddLocalEndpoint for a new balancer", File: "server/upstream/manager.go", Old: "\tm.cluster.AddLocalEndpoint(u.EndpointID())\n", New: "\tif ok {\n\t\tm.cluster.AddLocalEndpoint(u.EndpointID())\n\t}\n", Rule: "C05.R1"},
			{Name: "new balancer never stored in the table", File: "server/upstream/manager.go", Old: "\tm.localUpstreams[u.EndpointID()] = lb\n", New: "\tif ok {\n\t\tm.localUpstreams[u.EndpointID()] = lb\n\t}\n", Rule: "C05.R1b"},
			{Name: "RemoveLocalEndpoint decrements only above 2", File: "server/cluster/state.go", Old: "\tif listeners > 1 {\n\t\tnode.Endpoints[endpointID] = listeners - 1", New: "\tif listeners > 2 {\n\t\tnode.Endpoints[endpointID] = listeners - 1", Rule: "C05.R2"},
			{Name: "AddLocalEndpoint notifies nobody on first listener", File: "server/cluster/state.go", Old: "\tnode.Endpoints[endpointID] = node.Endpoints[endpointID] + 1\n", New: "\tnode.Endpoints[endpointID] = node.Endpoints[endpointID] + 1\n\tif node.Endpoints[endpointID] == 1 {\n\t\ts.mu.Unlock()\n\t\treturn\n\t}\n", Rule: "C05.R2"},
			{Name: "publisher treats one listener as none", File: "server/gossip/syncer.go", Old: "\tif listeners > 0 {\n\t\ts.gossiper.UpsertLocal(key, strconv.Itoa(listeners))", New: "\tif listeners > 1 {\n\t\ts.gossiper.UpsertLocal(key, strconv.Itoa(listeners))", Rule: "C05.R3"},
			{Name: "cluster call after unlock in RemoveConn", File: "server/upstream/manager.go", Old: "func (m *LoadBalancedManager) RemoveConn(u Upstream) {\n\tm.mu.Lock()\n\tdefer m.mu.Unlock()\n", New: "func (m *LoadBalancedManager) RemoveConn(u Upstream) {\n\tm.mu.Lock()\n\tdefer m.cluster.RemoveLocalEndpoint(\"\")\n\tdefer m.mu.Unlock()\n", Rule: "C05.R"},
			{Name: "second caller of RemoveLocalEndpoint outside the manager", File: "server/upstream/server.go", Old: "func (s *Server) removeSession(sess *yamux.Session) {\n", New: "func (s *Server) removeSession(sess *yamux.Session) {\n\ts.cluster.RemoveLocalEndpoint(\"x\")\n", Rule: "C05.R5"},
			{Name: "benign: explicit unlocks instead of defer in AddConn", Benign: true, File: "server/upstream/manager.go", Old: "func (m *LoadBalancedManager) AddConn(u Upstream) {\n\tm.mu.Lock()\n\tdefer m.mu.Unlock()\n", New: "func (m *LoadBalancedManager) AddConn(u Upstream) {\n\tm.mu.Lock()\n\tdefer func() { m.mu.Unlock() }()\n"},
			{Name: "benign: endpoint id bound to a local", Benign: true, File: "server/upstream/manager.go", Old: "\tlb.Add(u)\n\tm.localUpstreams[u.EndpointID()] = lb\n", New: "\tid := u.EndpointID()\n\tlb.Add(u)\n\tm.localUpstreams[id] = lb\n"},
		},
	})
}

func runC05(c *Ctx) {
	facadeRule(c, "C05.R3b", []facadeSpec{
		{gsPkg, "Gossip.UpsertLocal", "clusterState).UpsertLocal", "", false},
		{gsPkg, "Gossip.DeleteLocal", "clusterState).DeleteLocal", "", false},
	})
	p := c.P
	upstreams := p.Field(upPkg, "loadBalancer", "upstreams")
	localUp := p.Field(upPkg, "LoadBalancedManager", "localUpstreams")
	muF := p.Field(upPkg, "LoadBalancedManager", "mu")
	mgr := p.NamedType(upPkg, "LoadBalancedManager")
	if upstreams == nil || localUp == nil || muF == nil || mgr == nil {
		c.fail("C05.anchor", "upstream types", token.NoPos, "loadBalancer.upstreams / LoadBalancedManager.{localUpstreams,mu} did not resolve")
		return
	}
	c05R1(c, upstreams, localUp, mgr)
	c05R2(c)
	c05R3(c, "C05.R3")
	c05R4(c, upstreams, localUp, muF, mgr)
	c05R5(c, upstreams, localUp)
	// both counts are kept under the same key: the upstream's endpoint id, unchanged
	c01R1(c)
}

func methodsOf(p *Prog, rel, typ string) []*ssa.Function {
	var out []*ssa.Function
	n := p.NamedType(rel, typ)
	if n == nil {
		return nil
	}
	for _, f := range p.ModFuncs {
		if f.Synthetic != "" || f.Parent() != nil || f.Signature.Recv() == nil {
			continue
		}
		rt := f.Signature.Recv().Type()
		if pt, ok := rt.(*types.Pointer); ok {
			rt = pt.Elem()
		}
		if types.Identical(rt, n) && !isTestFile(p.Fset, f.Pos()) {
			out = append(out, f)
		}
	}
	return out
}

func c05R1(c *Ctx, upstreams, localUp *types.Var, mgr *types.Named) {
	p := c.P
	spec := effSpec{
		regField: upstreams,
		advCalls: map[string]int{fnAddLocal: +1, fnRemLocal: -1},
		inline:   map[string]bool{fnLBAdd: true, fnLBRemove: true},
	}
	eng := newEffEngine(p, spec)
	c.floor("C05.R1", 5)
	for _, m := range methodsOf(p, upPkg, "LoadBalancedManager") {
		c.analysed(fnName(m))
		cls, err := eng.classes(m, 0)
		if err != "" {
			c.undecided("C05.R1", fnName(m)+"/paths", m.Pos(), "path classes could not be enumerated: "+err)
			continue
		}
		for _, cl := range cls {
			key := fnName(m) + "/path:" + posRe.ReplaceAllString(strings.Join(cl.trace, ">"), "")
			switch {
			case cl.unknown != "":
				c.undecided("C05.R1", key, m.Pos(), cl.unknown)
			case cl.dReg != cl.dAdv:
				c.fail("C05.R1", key, m.Pos(), "registered and advertised counts change by different amounts on this path: "+cl.String())
			default:
				c.ok("C05.R1", key, m.Pos(), cl.String())
			}
		}
	}
	// the scan in the summarised remover must be complete for the membership
	// fact to exclude its miss class
	if rem := p.Func(upPkg, "loadBalancer.Remove"); rem != nil {
		c.analysed(fnName(rem))
		ok, why := scanComplete(rem, upstreams)
		c.check(ok, "C05.R1c", fnName(rem)+"/scan-complete", rem.Pos(), "scan visits indices 0,1,.. up to len(upstreams) comparing each element with the argument; a miss implies the element is absent", why)
	} else {
		c.fail("C05.anchor", "loadBalancer.Remove", token.NoPos, "not found")
	}
	// R1d: a balancer is stored into the table only where the table has none for that endpoint
	for _, f := range methodsOf(p, upPkg, "LoadBalancedManager") {
		fsx := computeFacts(f)
		allInstrs(f, func(i ssa.Instruction) {
			mu, ok := i.(*ssa.MapUpdate)
			if !ok {
				return
			}
			if _, ok := loadedField(mu.Map, localUp); !ok {
				return
			}
			isMiss := func(facts []Fact) bool {
				return anyFact(facts, func(ft Fact) bool {
					ex, ok := ft.V.(*ssa.Extract)
					if !ok || ex.Index != 1 || ft.T {
						return false
					}
					lk, ok := ex.Tuple.(*ssa.Lookup)
					if !ok {
						return false
					}
					_, isTab := loadedField(lk.X, localUp)
					return isTab && sameValue(lk.Index, mu.Key)
				})
			}
			facts := fsx.At(mu.Block())
			// the value stored is what the table already holds for the key, or an object created where the table has none
			seen := map[ssa.Value]bool{}
			var okVal func(v ssa.Value) bool
			okVal = func(v ssa.Value) bool {
				v = strip(v)
				if seen[v] {
					return true
				}
				seen[v] = true
				switch x := v.(type) {
				case *ssa.Phi:
					for _, e := range x.Edges {
						if !okVal(e) {
							return false
						}
					}
					return true
				case *ssa.Extract:
					lk, ok := x.Tuple.(*ssa.Lookup)
					if !ok || x.Index != 0 {
						return false
					}
					_, isTab := loadedField(lk.X, localUp)
					return isTab && sameValue(lk.Index, mu.Key)
				case *ssa.Lookup:
					_, isTab := loadedField(x.X, localUp)
					return isTab && sameValue(x.Index, mu.Key)
				case ssa.Instruction:
					return isMiss(fsx.At(x.Block()))
				}
				return false
			}
			miss := isMiss(facts) || okVal(mu.Value)
			c.check(miss, "C05.R1d", fnName(f)+"/balancer-stored-only-on-miss", mu.Pos(), "localUpstreams[id] = lb only under `_, ok := localUpstreams[id]; !ok`",
				"a balancer is stored over an existing one (guard missing or inverted): the upstreams registered for the endpoint are dropped while still advertised; facts "+factStrings(facts))
		})
	}
	c.floor("C05.R1d", 1)
	// R1b: a freshly created balancer is entered in the table on every path
	c.floor("C05.R1b", 1)
	lbT := p.NamedType(upPkg, "loadBalancer")
	for _, f := range p.ModFuncs {
		if isTestFile(p.Fset, f.Pos()) {
			continue
		}
		allInstrs(f, func(i ssa.Instruction) {
			al, ok := i.(*ssa.Alloc)
			if !ok || !al.Heap {
				return
			}
			if pt, ok := al.Type().(*types.Pointer); !ok || !types.Identical(pt.Elem(), lbT) {
				return
			}
			key := fnName(f) + "/new-balancer"
			end := everyPathFrom(al, func(in ssa.Instruction) bool {
				mu, ok := in.(*ssa.MapUpdate)
				if !ok {
					return false
				}
				if _, ok := loadedField(mu.Map, localUp); !ok {
					return false
				}
				return flowsFrom(mu.Value, al)
			}, nil, true)
			if end != nil {
				c.fail("C05.R1b", key, al.Pos(), "a balancer created here can reach "+p.pos(end.instr.Pos())+" without being stored in localUpstreams: upstreams added to it are registered nowhere")
			} else {
				c.ok("C05.R1b", key, al.Pos(), "every path from the allocation stores it into localUpstreams")
			}
		})
	}
}

// flowsFrom: v is src, possibly through phi nodes.
func flowsFrom(v ssa.Value, src ssa.Value) bool {
	seen := map[ssa.Value]bool{}
	var rec func(v ssa.Value) bool
	rec = func(v ssa.Value) bool {
		v = strip(v)
		if v == src {
			return true
		}
		if seen[v] {
			return false
		}
		seen[v] = true
		if ph, ok := v.(*ssa.Phi); ok {
			for _, e := range ph.Edges {
				if rec(e) {
					return true
				}
			}
		}
		return false
	}
	return rec(v)
}

// scanComplete verifies the linear scan in a remover: index φ(0, i+1), loop
// exit only under i == len(S) (or i >= len(S)), continue only under S[i] != arg.
func scanComplete(fn *ssa.Function, field *types.Var) (bool, string) {
	var phi *ssa.Phi
	allInstrs(fn, func(i ssa.Instruction) {
		if ph, ok := i.(*ssa.Phi); ok && phi == nil {
			if len(ph.Edges) == 2 {
				var init, step ssa.Value
				for _, e := range ph.Edges {
					if k, ok := constInt(e); ok && k == 0 {
						init = e
					} else if bo, ok := e.(*ssa.BinOp); ok && bo.Op == token.ADD && bo.X == ssa.Value(ph) {
						if one, ok := constInt(bo.Y); ok && one == 1 {
							step = e
						}
					}
				}
				if init != nil && step != nil {
					phi = ph
				}
			}
		}
	})
	if phi == nil {
		// library form: i := slices.Index(S, u); miss exactly when i == -1
		var idx *ssa.Call
		allInstrs(fn, func(i ssa.Instruction) {
			if cl, ok := i.(*ssa.Call); ok && commonName(&cl.Call) == "slices.Index" && len(cl.Call.Args) == 2 {
				if _, ok := loadedField(cl.Call.Args[0], field); ok {
					if _, isP := strip(cl.Call.Args[1]).(*ssa.Parameter); isP {
						idx = cl
					}
				}
			}
		})
		if idx == nil {
			return false, "no index variable of the form i := 0; i++ (or slices.Index) found"
		}
		fs := computeFacts(fn)
		isIdx := func(v ssa.Value) bool { return v == ssa.Value(idx) }
		neg := func(v ssa.Value) bool { k, ok := constInt(v); return ok && k == -1 }
		zero := func(v ssa.Value) bool { k, ok := constInt(v); return ok && k == 0 }
		found := func(facts []Fact) bool {
			return anyFact(facts, func(f Fact) bool {
				return cmpFact(f, token.NEQ, isIdx, neg) || cmpFact(f, token.GEQ, isIdx, zero) || cmpFact(f, token.GTR, isIdx, neg)
			})
		}
		missing := func(facts []Fact) bool {
			return anyFact(facts, func(f Fact) bool { return cmpFact(f, token.EQL, isIdx, neg) || cmpFact(f, token.LSS, isIdx, zero) })
		}
		okAll := true
		why := ""
		allInstrs(fn, func(i ssa.Instruction) {
			st, ok := i.(*ssa.Store)
			if !ok {
				return
			}
			if _, ok := addrOfField(st.Addr, field); ok && !found(fs.At(st.Block())) {
				okAll, why = false, "the element is removed without the fact that slices.Index found it"
			}
		})
		var shrinks []ssa.Instruction
		allInstrs(fn, func(i ssa.Instruction) {
			if st, ok := i.(*ssa.Store); ok {
				if _, ok := addrOfField(st.Addr, field); ok {
					shrinks = append(shrinks, i)
				}
			}
		})
		for _, r := range returnsOf(fn) {
			if blockReachesAvoiding(fn.Blocks[0], r, shrinks) && !missing(fs.At(r.Block())) {
				okAll, why = false, "a return that removed nothing is not under slices.Index(...) == -1"
			}
		}
		return okAll, why
	}
	isLen := func(v ssa.Value) bool {
		c, ok := v.(*ssa.Call)
		if !ok {
			return false
		}
		b, ok := c.Call.Value.(*ssa.Builtin)
		if !ok || b.Name() != "len" {
			return false
		}
		_, ok = loadedField(c.Call.Args[0], field)
		return ok
	}
	isPhi := func(v ssa.Value) bool { return v == ssa.Value(phi) }
	// header: block of phi ends in If comparing i with len(S)
	hb := phi.Block()
	iff, ok := hb.Instrs[len(hb.Instrs)-1].(*ssa.If)
	if !ok {
		return false, "loop header does not end in a bound test"
	}
	exitOK := false
	for k, s := range hb.Succs {
		f := mkFact(iff.Cond, k == 0)
		if reachesBlock(s, hb) {
			continue // the edge into the body
		}
		if cmpFact(f, token.EQL, isPhi, isLen) || cmpFact(f, token.GEQ, isPhi, isLen) {
			exitOK = true
		}
	}
	if !exitOK {
		return false, "loop does not exit exactly when the index reaches len(" + field.Name() + ")"
	}
	// the step edge must be under S[i] != arg
	fs := computeFacts(fn)
	var stepV *ssa.BinOp
	for _, e := range phi.Edges {
		if bo, ok := e.(*ssa.BinOp); ok {
			stepV = bo
		}
	}
	elemNE := func(f Fact) bool {
		isElem := func(v ssa.Value) bool {
			u, ok := v.(*ssa.UnOp)
			if !ok || u.Op != token.MUL {
				return false
			}
			ia, ok := u.X.(*ssa.IndexAddr)
			if !ok || ia.Index != ssa.Value(phi) {
				return false
			}
			_, ok = loadedField(ia.X, field)
			return ok
		}
		isParam := func(v ssa.Value) bool { _, ok := v.(*ssa.Parameter); return ok }
		return cmpFact(f, token.NEQ, isElem, isParam)
	}
	if !anyFact(fs.At(stepV.Block()), elemNE) {
		return false, "the index advances on a path that did not compare " + field.Name() + "[i] with the argument"
	}
	return true, ""
}

// ---- R2: count primitives ----

func c05R2(c *Ctx) {
	p := c.P
	endpoints := p.Field(clPkg, "Node", "Endpoints")
	subs := p.Field(clPkg, "State", "localEndpointSubscribers")
	add := p.Func(clPkg, "State.AddLocalEndpoint")
	rem := p.Func(clPkg, "State.RemoveLocalEndpoint")
	if endpoints == nil || subs == nil || add == nil || rem == nil {
		c.fail("C05.anchor", "cluster.State primitives", token.NoPos, "Add/RemoveLocalEndpoint, Node.Endpoints or localEndpointSubscribers did not resolve")
		return
	}
	c.floor("C05.R2", 6)
	c.analysed(fnName(add))
	c.analysed(fnName(rem))
	// the count map is (re)allocated only where it is nil: anywhere else it wipes every count
	c.floor("C05.R2c", 2)
	for _, fn := range methodsOf(p, clPkg, "State") {
		fsx := computeFacts(fn)
		allInstrs(fn, func(i ssa.Instruction) {
			st, ok := i.(*ssa.Store)
			if !ok {
				return
			}
			if _, ok := addrOfField(st.Addr, endpoints); !ok {
				return
			}
			if _, fresh := strip(st.Val).(*ssa.MakeMap); !fresh {
				return
			}
			isNil := anyFact(fsx.At(st.Block()), func(f Fact) bool {
				return cmpFact(f, token.EQL, func(v ssa.Value) bool { _, ok := loadedField(v, endpoints); return ok }, isNilConst)
			})
			c.check(isNil, "C05.R2c", fnName(fn)+"/allocates-counts-only-when-nil", st.Pos(), "Endpoints = make(...) only under Endpoints == nil",
				"the endpoint count map is replaced by an empty one although it may hold counts (guard missing or inverted): every advertised count is reset; facts "+factStrings(fsx.At(st.Block())))
		})
	}
	// subscribers are recorded where they register
	for _, sp := range []struct{ fn, field string }{{"State.OnLocalEndpointUpdate", "localEndpointSubscribers"}, {"State.OnRemoteEndpointUpdate", "remoteEndpointSubscribers"}} {
		fn, fv := p.Func(clPkg, sp.fn), p.Field(clPkg, "State", sp.field)
		if fn == nil || fv == nil {
			c.fail("C05.anchor", sp.fn, token.NoPos, "not found")
			continue
		}
		isReg := func(i ssa.Instruction) bool {
			st, ok := i.(*ssa.Store)
			if !ok {
				return false
			}
			if _, ok := addrOfField(st.Addr, fv); !ok {
				return false
			}
			ap, ok := strip(st.Val).(*ssa.Call)
			if !ok {
				return false
			}
			b, ok := ap.Call.Value.(*ssa.Builtin)
			if !ok || b.Name() != "append" {
				return false
			}
			_, ok = loadedField(ap.Call.Args[0], fv)
			return ok
		}
		end := everyPathEntry(fn, isReg, nil, true)
		c.check(end == nil, "C05.R2c", fnName(fn)+"/records-subscriber", fn.Pos(), sp.field+" = append("+sp.field+", f) on every path", "a registering subscriber is not recorded: endpoint changes are never published to it")
	}
	isParam := func(fn *ssa.Function, v ssa.Value) bool {
		pv, ok := strip(v).(*ssa.Parameter)
		return ok && len(fn.Params) >= 2 && pv == fn.Params[1]
	}
	// --- Add ---
	var addMut []ssa.Instruction
	allInstrs(add, func(i ssa.Instruction) {
		switch x := i.(type) {
		case *ssa.MapUpdate:
			if _, ok := loadedField(x.Map, endpoints); ok {
				addMut = append(addMut, i)
				good := false
				if bo, ok := x.Value.(*ssa.BinOp); ok && bo.Op == token.ADD {
					if one, ok := constInt(bo.Y); ok && one == 1 {
						if lk, ok := bo.X.(*ssa.Lookup); ok && !lk.CommaOk {
							if _, ok := loadedField(lk.X, endpoints); ok && isParam(add, lk.Index) {
								good = true
							}
						}
					}
				}
				c.check(good && isParam(add, x.Key), "C05.R2", fnName(add)+"/store", x.Pos(),
					"Endpoints[endpointID] = Endpoints[endpointID] + 1 for the parameter key",
					"the count store is not Endpoints[param] = Endpoints[param] + 1")
			}
		case *ssa.Call:
			if b, ok := x.Call.Value.(*ssa.Builtin); ok && b.Name() == "delete" {
				if _, ok := loadedField(x.Call.Args[0], endpoints); ok {
					c.fail("C05.R2", fnName(add)+"/delete", x.Pos(), "AddLocalEndpoint deletes from Endpoints")
				}
			}
		}
	})
	c.check(len(addMut) == 1, "C05.R2", fnName(add)+"/one-mutation", add.Pos(), "exactly one count mutation", fmt.Sprintf("%d count mutations", len(addMut)))
	for _, m := range addMut {
		notifyRule(c, add, m, subs, "C05.R2")
	}
	// --- Remove ---
	fs := computeFacts(rem)
	var listeners, okv ssa.Value
	allInstrs(rem, func(i ssa.Instruction) {
		if lk, ok := i.(*ssa.Lookup); ok && lk.CommaOk {
			if _, ok := loadedField(lk.X, endpoints); ok && isParam(rem, lk.Index) {
				for _, r := range *lk.Referrers() {
					if ex, ok := r.(*ssa.Extract); ok {
						if ex.Index == 0 {
							listeners = ex
						} else {
							okv = ex
						}
					}
				}
			}
		}
	})
	if listeners == nil || okv == nil {
		c.fail("C05.R2", fnName(rem)+"/lookup", rem.Pos(), "no `listeners, ok := Endpoints[endpointID]` lookup on the parameter key")
		return
	}
	isL := func(v ssa.Value) bool { return v == listeners }
	isK := func(k int64) func(ssa.Value) bool {
		return func(v ssa.Value) bool { n, ok := constInt(v); return ok && n == k }
	}
	present := func(facts []Fact) bool {
		okT := anyFact(facts, func(f Fact) bool { return f.V == okv && f.T })
		nz := anyFact(facts, func(f Fact) bool {
			return cmpFact(f, token.NEQ, isL, isK(0)) || cmpFact(f, token.GTR, isL, isK(0)) || cmpFact(f, token.GTR, isL, isK(1)) || cmpFact(f, token.GEQ, isL, isK(1))
		})
		return okT && nz
	}
	var remMut []ssa.Instruction
	allInstrs(rem, func(i ssa.Instruction) {
		switch x := i.(type) {
		case *ssa.MapUpdate:
			if _, ok := loadedField(x.Map, endpoints); ok {
				remMut = append(remMut, i)
				facts := fs.At(x.Block())
				good := false
				if bo, ok := x.Value.(*ssa.BinOp); ok && bo.Op == token.SUB && bo.X == listeners {
					if one, ok := constInt(bo.Y); ok && one == 1 {
						good = true
					}
				}
				gt1 := anyFact(facts, func(f Fact) bool {
					return cmpFact(f, token.GTR, isL, isK(1)) || cmpFact(f, token.GEQ, isL, isK(2))
				})
				c.check(good && isParam(rem, x.Key) && gt1 && present(facts), "C05.R2", fnName(rem)+"/decrement", x.Pos(),
					"Endpoints[endpointID] = listeners - 1 under listeners > 1 for an existing non-zero entry",
					"decrement is not `listeners - 1` of the looked-up count under listeners > 1; facts "+factStrings(facts))
			}
		case *ssa.Call:
			if b, ok := x.Call.Value.(*ssa.Builtin); ok && b.Name() == "delete" {
				if _, ok := loadedField(x.Call.Args[0], endpoints); ok {
					remMut = append(remMut, i)
					facts := fs.At(x.Block())
					le1 := anyFact(facts, func(f Fact) bool {
						return cmpFact(f, token.LEQ, isL, isK(1)) || cmpFact(f, token.LSS, isL, isK(2)) || cmpFact(f, token.EQL, isL, isK(1))
					})
					c.check(le1 && present(facts) && isParam(rem, x.Call.Args[1]), "C05.R2", fnName(rem)+"/delete", x.Pos(),
						"delete(Endpoints, endpointID) exactly when the last listener goes (ok, listeners != 0, listeners <= 1)",
						"delete of the endpoint entry is not guarded by {ok, listeners != 0, listeners <= 1}; facts "+factStrings(facts))
				}
			}
		}
	})
	c.check(len(remMut) == 2, "C05.R2", fnName(rem)+"/mutations", rem.Pos(), "one decrement and one delete", fmt.Sprintf("%d count mutations, expected a decrement and a delete", len(remMut)))
	// a return that is reachable without a mutation must be under !ok or listeners == 0
	for _, r := range returnsOf(rem) {
		reachableWithout := blockReachesAvoiding(rem.Blocks[0], r, remMut)
		if !reachableWithout {
			continue
		}
		alts := factAlternatives(fs, r.Block(), 3)
		good := true
		for _, a := range alts {
			absent := anyFact(a, func(f Fact) bool { return f.V == okv && !f.T }) ||
				anyFact(a, func(f Fact) bool {
					return cmpFact(f, token.EQL, isL, isK(0)) || cmpFact(f, token.LEQ, isL, isK(0)) || cmpFact(f, token.LSS, isL, isK(1))
				})
			if !absent {
				good = false
			}
		}
		c.check(good, "C05.R2", fnName(rem)+"/noop-return", r.Pos(), "returns without mutation only under !ok or listeners == 0",
			"a path returns without decrementing although the endpoint may be present with a non-zero count")
	}
	for _, m := range remMut {
		notifyRule(c, rem, m, subs, "C05.R2")
	}
}

// blockReachesAvoiding: `to` reachable from start of block a without executing any of avoid.
func blockReachesAvoiding(a *ssa.BasicBlock, to ssa.Instruction, avoid []ssa.Instruction) bool {
	av := map[ssa.Instruction]bool{}
	for _, i := range avoid {
		av[i] = true
	}
	return blockReaches(a, to, func(i ssa.Instruction) bool { return av[i] })
}

// factAlternatives: the fact sets under which block b can be entered, one per
// incoming edge, expanded through predecessors up to depth levels when a
// predecessor is itself a pure merge point.
func factAlternatives(fs *Facts, b *ssa.BasicBlock, depth int) [][]Fact {
	if len(b.Preds) <= 1 || depth == 0 {
		return [][]Fact{fs.At(b)}
	}
	var out [][]Fact
	for _, p := range b.Preds {
		if len(p.Instrs) == 1 { // pure jump block: look further back
			if _, ok := p.Instrs[0].(*ssa.Jump); ok && len(p.Preds) > 1 {
				for _, a := range factAlternatives(fs, p, depth-1) {
					out = append(out, a)
				}
				continue
			}
		}
		out = append(out, fs.OnEdge(p, b))
	}
	return out
}

// notifyRule: after mutation m every path to return runs the subscriber loop
// with the endpoint parameter, and the loop is not entered without a mutation.
func notifyRule(c *Ctx, fn *ssa.Function, m ssa.Instruction, subs *types.Var, rule string) {
	p := c.P
	// dynamic calls whose callee derives from the subscribers field
	var calls []*ssa.Call
	allInstrs(fn, func(i ssa.Instruction) {
		cl, ok := i.(*ssa.Call)
		if !ok || cl.Call.IsInvoke() || cl.Call.StaticCallee() != nil {
			return
		}
		if _, isB := cl.Call.Value.(*ssa.Builtin); isB {
			return
		}
		if derivesFromField(cl.Call.Value, subs, 0) {
			calls = append(calls, cl)
		}
	})
	key := fnName(fn) + "/notify-after-" + kindOf(m)
	if len(calls) == 0 {
		c.fail(rule, key, m.Pos(), "no call through localEndpointSubscribers in this function: the change is never published")
		return
	}
	call := calls[0]
	argOK := len(call.Call.Args) >= 1 && len(fn.Params) >= 2 && strip(call.Call.Args[0]) == ssa.Value(fn.Params[1])
	// loop header: nearest dominator of the call block that has a back edge
	hdr := loopHeader(call.Block())
	if hdr == nil {
		c.fail(rule, key, call.Pos(), "subscriber call is not inside a loop over all subscribers")
		return
	}
	end := everyPathFrom(m, func(in ssa.Instruction) bool { return in.Block() == hdr }, nil, true)
	dom := dominatesInstr(m, hdr.Instrs[0]) || onlyReachableVia(fn, hdr, func(i ssa.Instruction) bool {
		return isEndpointMutation(i, m)
	})
	switch {
	case !argOK:
		c.fail(rule, key, call.Pos(), "subscribers are not called with the endpoint parameter")
	case end != nil:
		c.fail(rule, key, m.Pos(), "after this mutation a path reaches "+p.pos(end.instr.Pos())+" without notifying the subscribers")
	case !dom:
		c.fail(rule, key, hdr.Instrs[0].Pos(), "subscribers can be notified on a path that did not mutate the count")
	default:
		c.ok(rule, key, m.Pos(), "mutation is followed on every path by the subscriber loop (header block "+fmt.Sprint(hdr.Index)+") called with the endpoint parameter")
	}
}

func kindOf(i ssa.Instruction) string {
	switch i.(type) {
	case *ssa.MapUpdate:
		return "store"
	case *ssa.Call:
		return "delete"
	}
	return "mutation"
}

func isEndpointMutation(i, like ssa.Instruction) bool {
	switch x := i.(type) {
	case *ssa.MapUpdate:
		if l, ok := like.(*ssa.MapUpdate); ok {
			return path(x.Map) == path(l.Map)
		}
		if l, ok := like.(*ssa.Call); ok {
			return path(x.Map) == path(l.Call.Args[0])
		}
	case *ssa.Call:
		if b, ok := x.Call.Value.(*ssa.Builtin); ok && b.Name() == "delete" {
			if l, ok := like.(*ssa.MapUpdate); ok {
				return path(x.Call.Args[0]) == path(l.Map)
			}
			if l, ok := like.(*ssa.Call); ok {
				return path(x.Call.Args[0]) == path(l.Call.Args[0])
			}
		}
	}
	return false
}

// onlyReachableVia: every path from entry to block b executes an instruction
// satisfying via.
func onlyReachableVia(fn *ssa.Function, b *ssa.BasicBlock, via func(ssa.Instruction) bool) bool {
	return !blockReaches(fn.Blocks[0], b.Instrs[0], via)
}

func loopHeader(b *ssa.BasicBlock) *ssa.BasicBlock {
	for d := b; d != nil; d = d.Idom() {
		for _, p := range d.Preds {
			if d.Dominates(p) && (p == b || b.Dominates(p) || reachesBlock(b, p)) {
				return d
			}
		}
	}
	return nil
}

func reachesBlock(a, b *ssa.BasicBlock) bool {
	seen := map[*ssa.BasicBlock]bool{}
	var rec func(x *ssa.BasicBlock) bool
	rec = func(x *ssa.BasicBlock) bool {
		if x == b {
			return true
		}
		if seen[x] {
			return false
		}
		seen[x] = true
		for _, s := range x.Succs {
			if rec(s) {
				return true
			}
		}
		return false
	}
	return rec(a)
}

func derivesFromField(v ssa.Value, f *types.Var, d int) bool {
	if d > 10 {
		return false
	}
	v = strip(v)
	if _, ok := loadedField(v, f); ok {
		return true
	}
	switch x := v.(type) {
	case *ssa.UnOp:
		return derivesFromField(x.X, f, d+1)
	case *ssa.IndexAddr:
		return derivesFromField(x.X, f, d+1)
	case *ssa.Index:
		return derivesFromField(x.X, f, d+1)
	case *ssa.Slice:
		return derivesFromField(x.X, f, d+1)
	case *ssa.Phi:
		for _, e := range x.Edges {
			if derivesFromField(e, f, d+1) {
				return true
			}
		}
	case *ssa.Extract:
		return derivesFromField(x.Tuple, f, d+1)
	case *ssa.Next:
		return derivesFromField(x.Iter, f, d+1)
	case *ssa.Range:
		return derivesFromField(x.X, f, d+1)
	case *ssa.Call:
		if b, ok := x.Call.Value.(*ssa.Builtin); ok && b.Name() == "append" {
			for _, a := range x.Call.Args {
				if derivesFromField(a, f, d+1) {
					return true
				}
			}
		}
		// a module helper returning (a copy of) the field
		if cal := x.Call.StaticCallee(); cal != nil && inModule(cal) && len(cal.Blocks) > 0 {
			for _, r := range returnsOf(cal) {
				for _, rv := range returnValues(r) {
					if derivesFromField(rv, f, d+2) {
						return true
					}
				}
			}
		}
	case *ssa.Alloc:
		for _, r := range *x.Referrers() {
			if st, ok := r.(*ssa.Store); ok && st.Addr == ssa.Value(x) && derivesFromField(st.Val, f, d+1) {
				return true
			}
		}
	}
	return false
}

// ---- R3: the subscriber publishes exactly the current count ----

func c05R3(c *Ctx, rule string) {
	p := c.P
	fn := p.Func("server/gossip", "syncer.onLocalEndpointUpdate")
	if fn == nil {
		// role fallback: the function subscribed through OnLocalEndpointUpdate
		c.fail(rule, "anchor/syncer.onLocalEndpointUpdate", token.NoPos, "publisher of local endpoint counts not found")
		return
	}
	c.analysed(fnName(fn))
	c.floor(rule, 3)
	fs := computeFacts(fn)
	param := ssa.Value(fn.Params[1])
	var listeners *ssa.Call
	allInstrs(fn, func(i ssa.Instruction) {
		if cl, ok := i.(*ssa.Call); ok && commonName(&cl.Call) == "(*"+modPath+"/server/cluster.State).LocalEndpointListeners" {
			if len(cl.Call.Args) == 2 && strip(cl.Call.Args[1]) == param {
				listeners = cl
			}
		}
	})
	if listeners == nil {
		c.fail(rule, fnName(fn)+"/count-source", fn.Pos(), "the published count is not LocalEndpointListeners(endpointID) of the notified endpoint")
		return
	}
	c.ok(rule, fnName(fn)+"/count-source", listeners.Pos(), "count = clusterState.LocalEndpointListeners(endpointID)")
	isL := func(v ssa.Value) bool { return v == ssa.Value(listeners) }
	isK := func(k int64) func(ssa.Value) bool {
		return func(v ssa.Value) bool { n, ok := constInt(v); return ok && n == k }
	}
	keyOK := func(v ssa.Value) bool {
		bo, ok := strip(v).(*ssa.BinOp)
		if !ok || bo.Op != token.ADD {
			return false
		}
		s, ok := constString(bo.X)
		return ok && s == "endpoint:" && strip(bo.Y) == param
	}
	ups, dels := 0, 0
	allInstrs(fn, func(i ssa.Instruction) {
		cl, ok := i.(*ssa.Call)
		if !ok || !cl.Call.IsInvoke() {
			return
		}
		facts := fs.At(cl.Block())
		pos := anyFact(facts, func(f Fact) bool {
			return cmpFact(f, token.GTR, isL, isK(0)) || cmpFact(f, token.GEQ, isL, isK(1)) || cmpFact(f, token.NEQ, isL, isK(0))
		})
		nonpos := anyFact(facts, func(f Fact) bool {
			return cmpFact(f, token.LEQ, isL, isK(0)) || cmpFact(f, token.LSS, isL, isK(1)) || cmpFact(f, token.EQL, isL, isK(0))
		})
		switch cl.Call.Method.Name() {
		case "UpsertLocal":
			ups++
			valOK := false
			if vc, ok := cl.Call.Args[1].(*ssa.Call); ok && commonName(&vc.Call) == "strconv.Itoa" && vc.Call.Args[0] == ssa.Value(listeners) {
				valOK = true
			}
			c.check(pos && keyOK(cl.Call.Args[0]) && valOK, rule, fnName(fn)+"/upsert", cl.Pos(),
				`UpsertLocal("endpoint:"+id, Itoa(count)) under count > 0`,
				"upsert is not of key endpoint:<id> with Itoa(count) under count > 0; facts "+factStrings(facts))
		case "DeleteLocal":
			dels++
			c.check(nonpos && keyOK(cl.Call.Args[0]), rule, fnName(fn)+"/delete", cl.Pos(),
				`DeleteLocal("endpoint:"+id) under count <= 0`,
				"delete is not of key endpoint:<id> under count <= 0; facts "+factStrings(facts))
		}
	})
	if ups != 1 || dels != 1 {
		c.fail(rule, fnName(fn)+"/arms", fn.Pos(), fmt.Sprintf("expected one upsert arm and one delete arm, found %d/%d", ups, dels))
	}
	// every path publishes one or the other
	end := everyPathFrom(listeners, func(in ssa.Instruction) bool {
		cl, ok := in.(*ssa.Call)
		return ok && cl.Call.IsInvoke() && (cl.Call.Method.Name() == "UpsertLocal" || cl.Call.Method.Name() == "DeleteLocal")
	}, nil, true)
	c.check(end == nil, rule, fnName(fn)+"/always-publishes", fn.Pos(), "every path publishes an upsert or a delete", "a path returns without publishing the new count")
	// the publisher is what the cluster state is subscribed with
	subscribed := false
	for _, f := range p.ModFuncs {
		if isTestFile(p.Fset, f.Pos()) {
			continue
		}
		for _, call := range findCalls(f, "(*"+modPath+"/server/cluster.State).OnLocalEndpointUpdate") {
			cc := callCommon(call)
			if mc, ok := cc.Args[1].(*ssa.MakeClosure); ok {
				if unwrapWrapper(mc.Fn.(*ssa.Function)) == fn {
					subscribed = true
					// the initial snapshot is taken after subscribing: a change that lands between a
					// snapshot and a later subscription is counted locally and never published
					for _, snap := range findCalls(f, "(*"+modPath+"/server/cluster.State).LocalNode", "(*"+modPath+"/server/cluster.State).Nodes") {
						c.check(dominatesInstr(call, snap), rule, fnName(f)+"/subscribed-before-snapshot", snap.Pos(), "the subscription precedes the snapshot of the local node that is published initially",
							"the local node is snapshotted at "+p.pos(snap.Pos())+" before the subscription at "+p.pos(call.Pos())+": an upstream that connects or disconnects in between is never advertised (or stays advertised)")
					}
				}
			}
		}
	}
	c.check(subscribed, rule, fnName(fn)+"/subscribed", fn.Pos(), "registered through State.OnLocalEndpointUpdate", "the publisher is never subscribed to local endpoint updates")
}

// ---- R4: atomicity ----

func c05R4(c *Ctx, upstreams, localUp, muF *types.Var, mgr *types.Named) {
	p := c.P
	li := computeLocks(p)
	c.floor("C05.R4", 8)
	for _, m := range methodsOf(p, upPkg, "LoadBalancedManager") {
		allInstrs(m, func(i ssa.Instruction) {
			what := ""
			switch x := i.(type) {
			case *ssa.FieldAddr:
				if fv, _ := fieldVarOf(x); fv == localUp {
					what = "access to localUpstreams"
				}
			case *ssa.Call:
				n := commonName(&x.Call)
				if n == fnLBAdd || n == fnLBRemove || n == fnLBNext || n == fnAddLocal || n == fnRemLocal {
					what = "call " + shortName(n)
				}
			case *ssa.Defer:
				n := commonName(&x.Call)
				if n == fnLBAdd || n == fnLBRemove || n == fnAddLocal || n == fnRemLocal {
					c.fail("C05.R4", fnName(m)+"/deferred "+shortName(n), x.Pos(), "registry/cluster update is deferred: it runs at function exit, outside the critical section ordering")
				}
			}
			if what == "" {
				return
			}
			if m.Name() == "NewLoadBalancedManager" {
				return
			}
			c.check(li.must[i][muF], "C05.R4", fnName(m)+"/"+what, i.Pos(),
				"LoadBalancedManager.mu is held", "LoadBalancedManager.mu is not held on every path here (held: "+li.must[i].names()+")")
		})
	}
}

// ---- R5: ownership ----

func c05R5(c *Ctx, upstreams, localUp *types.Var) {
	p := c.P
	c.floor("C05.R5", 6)
	isMgr := func(f *ssa.Function) bool {
		f = topFn(f)
		if f.Signature.Recv() == nil {
			return false
		}
		return strings.Contains(f.Signature.Recv().Type().String(), "server/upstream.LoadBalancedManager")
	}
	isLB := func(f *ssa.Function) bool {
		f = topFn(f)
		if f.Signature.Recv() == nil {
			return false
		}
		return strings.Contains(f.Signature.Recv().Type().String(), "server/upstream.loadBalancer")
	}
	for _, target := range []struct {
		name  string
		allow func(*ssa.Function) bool
		who   string
	}{
		{fnAddLocal, isMgr, "LoadBalancedManager methods"},
		{fnRemLocal, isMgr, "LoadBalancedManager methods"},
		{fnLBAdd, isMgr, "LoadBalancedManager methods"},
		{fnLBRemove, isMgr, "LoadBalancedManager methods"},
	} {
		n := 0
		for _, f := range p.ModFuncs {
			if isTestFile(p.Fset, f.Pos()) {
				continue
			}
			for _, call := range findCalls(f, target.name) {
				n++
				c.check(target.allow(f), "C05.R5", "caller-of "+shortName(target.name)+"/"+fnName(f), call.Pos(),
					"called from "+target.who, "called from outside "+target.who+": the registered/advertised equation is bypassed")
			}
		}
		if n == 0 {
			c.fail("C05.R5", "caller-of "+shortName(target.name), token.NoPos, "no caller found (anchor moved?)")
		}
	}
	for _, s := range p.storesToField(upstreams, false) {
		c.check(isLB(s.Fn), "C05.R5", "writer-of loadBalancer.upstreams/"+fnName(s.Fn), s.Instr.Pos(), "written by a loadBalancer method", "written outside loadBalancer methods")
	}
	for _, s := range p.storesToField(localUp, false) {
		ok := isMgr(s.Fn) || s.Fn.Name() == "NewLoadBalancedManager"
		c.check(ok, "C05.R5", "writer-of localUpstreams/"+fnName(s.Fn), s.Instr.Pos(), "written by the manager", "written outside LoadBalancedManager")
	}
}
