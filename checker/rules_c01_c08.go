package main

import (
	"fmt"
	"go/token"
	"go/types"
	"sort"
	"strings"

	"golang.org/x/tools/go/ssa"
)

const pxPkg = "server/proxy"

func init() {
	register(&propDef{
		id: "C01",
		meta: propMeta{
			explanation: "Decides the shape-visible clause of 'requests reach only upstreams of the addressed endpoint': the endpoint identifier is threaded unchanged from the request to every table indexed by it, on the registering and the routing side, locally and across the inter-node hop. (R1) value identity of the key along the chain: route handlers pass EndpointIDFromRequest(c.Request) / c.Param(<the pattern's parameter>) to the proxy; HTTPProxy/TCPProxy pass their parameter to Select and on; the manager indexes localUpstreams and calls LookupEndpoint/NewNodeUpstream/Add/RemoveLocalEndpoint with the parameter resp. u.EndpointID(); EndpointID() returns a constructor-set field with no other store; the per-request context carries the selected upstream to the dial hook and the endpoint to the Director under matching keys; (R2) the gin route patterns equal the URL literals the client builds, and each handler reads the parameter its pattern declares; (R3) EndpointIDFromRequest returns the header value when non-empty, else the first label of a non-IP dotted host, else empty; (R4) the hop dials exactly the selected node's proxy address and the Director changes only scheme and host; NodeUpstream/ConnUpstream/AddConn are constructed/called only by Select resp. the upstream handler; (R5) the gossip key schema round-trips (C04.R2); (R6) the inter-node transport never reuses connections (DisableKeepAlives), since its dial hook picks the upstream per request and pooling is keyed by endpoint id only; (R7) what is gossiped is a version-ordered complete suffix (C02.R3), so settled routing information is complete. Not decided: 'once settled every node serves E' as a liveness statement (C03/C04), churn with in-flight requests. Second round: (R7) every path on which Select returned an upstream dials it or hands it to the reverse-proxy hop.",
			ruleText:    "obligation = one call argument / table key / return / pattern / store; distinct = distinct keys",
			assumptions: []string{"net/http.Transport pools idle connections per scheme+host (URL.Host = endpoint id here) unless DisableKeepAlives is set"},
		},
		run: runC01,
		mutants: []mutant{
			{Name: "Select indexes the lower-cased id", File: "server/upstream/manager.go", Old: "\tlb, ok := m.localUpstreams[endpointID]\n\tif ok {", New: "\tlb, ok := m.localUpstreams[string([]byte(endpointID)[:len(endpointID)])]\n\tif ok {", Rule: "C01.R1"},
			{Name: "NodeUpstream.Dial dials the admin address", File: "server/upstream/upstream.go", Old: "\treturn net.Dial(\"tcp\", u.node.ProxyAddr)\n", New: "\treturn net.Dial(\"tcp\", u.node.AdminAddr)\n", Rule: "C01.R4"},
			{Name: "upstream handler registers under the Host header", File: "server/upstream/server.go", Old: "\tupstream := NewConnUpstream(endpointID, sess)\n", New: "\tupstream := NewConnUpstream(c.Request.Host, sess)\n", Rule: "C01.R1"},
			{Name: "Director also rewrites req.Host", File: "server/proxy/httpproxy.go", Old: "\t\t\treq.URL.Host = req.Context().Value(endpointContextKey).(string)\n", New: "\t\t\treq.URL.Host = req.Context().Value(endpointContextKey).(string)\n\t\t\treq.Host = req.URL.Host\n", Rule: "C01.R4"},
			{Name: "TCP proxy selects by the first path segment", File: "server/proxy/tcpproxy.go", Old: "\tu, ok := p.upstreams.Select(endpointID, !forwarded)\n", New: "\tu, ok := p.upstreams.Select(r.URL.Query().Get(\"endpoint\")+endpointID, !forwarded)\n", Rule: "C01.R1"},
			{Name: "client dials /_piko/v1/tcp but server registers /_piko/v1/conn", File: "server/proxy/server.go", Old: "\tv1.GET(\"/tcp/:endpointID\", s.proxyTCPRoute)\n", New: "\tv1.GET(\"/conn/:endpointID\", s.proxyTCPRoute)\n", Rule: "C01.R2"},
			{Name: "host label taken from the last label", File: "server/proxy/server.go", Old: "\t\treturn strings.Split(host, \".\")[0]\n", New: "\t\tparts := strings.Split(host, \".\")\n\t\treturn parts[len(parts)-1]\n", Rule: "C01.R3"},
			{Name: "keep-alives enabled on the inter-node transport", File: "server/proxy/httpproxy.go", Old: "\t\t\tDisableKeepAlives: true,\n", New: "\t\t\tMaxIdleConnsPerHost: 8,\n", Rule: "C01.R6"},
			{Name: "IP hosts accepted as endpoint ids", File: "server/proxy/server.go", Old: "\tif net.ParseIP(host) != nil {\n\t\t// Ignore IP addresses.\n\t\treturn \"\"\n\t}\n", New: "", Rule: "C01.R3"},
			{Name: "RemoveConn removes by the node id", File: "server/upstream/manager.go", Old: "\tm.cluster.RemoveLocalEndpoint(u.EndpointID())\n", New: "\tm.cluster.RemoveLocalEndpoint(m.cluster.LocalID())\n", Rule: "C01.R1"},
			{Name: "benign: id aliased before use", Benign: true, File: "server/proxy/tcpproxy.go", Old: "\tu, ok := p.upstreams.Select(endpointID, !forwarded)\n", New: "\tid := endpointID\n\tu, ok := p.upstreams.Select(id, !forwarded)\n"},
		},
	})
	register(&propDef{
		id: "C08",
		meta: propMeta{
			explanation: "Decides the structural clauses of 'HTTP proxying is transparent; gateway failures map to 400/502/504': (R1) the proxy's httputil.ReverseProxy runs in Director mode (not Rewrite, which cleans the query and drops X-Forwarded-*/Forwarded), its Director stores only URL.Scheme and URL.Host, and no ModifyResponse is installed; (R2) piko code on the proxy and agent handler chains does not edit live request/response header maps - every Header.Set/Add/Del or map write on a header value is on a Clone/fresh map, is the forward marker (C06.R2), or is piko's own error response; a header map parameter is classified at every call site (this rule found defect T1); (R3) the error handlers answer 504 exactly under errors.Is(err, context.DeadlineExceeded) and 502 otherwise, once per path, and the three sibling handlers agree; a failed Select answers 502 and returns before any proxying; a missing endpoint answers 400 and returns; (R4) the request handed to the reverse proxy carries context.WithTimeout(r.Context(), p.timeout) with its cancel deferred exactly when a timeout is configured and the request is not a WebSocket upgrade, and the agent's reverse proxy agrees. Not decided: what net/http/httputil does with a request (trusted), bodies, timing. Second round: the proxy's errorResponse writes the status it is given before the body; (R5) error-arm contradiction rule over server/proxy; the C15 rule set runs with this check.",
			ruleText:    "obligation = one store / header write site / return / phi operand; distinct = distinct keys",
			assumptions: []string{"httputil.ReverseProxy in Rewrite mode rewrites RawQuery and strips forwarding headers (net/http/httputil source)"},
		},
		run: runC08,
		mutants: []mutant{
			{Name: "502/504 swapped", File: "server/proxy/httpproxy.go", Old: "\t\t_ = errorResponse(w, http.StatusGatewayTimeout, \"upstream timeout\")\n\t\treturn\n\t}\n\t_ = errorResponse(w, http.StatusBadGateway, \"upstream unreachable\")", New: "\t\t_ = errorResponse(w, http.StatusBadGateway, \"upstream timeout\")\n\t\treturn\n\t}\n\t_ = errorResponse(w, http.StatusGatewayTimeout, \"upstream unreachable\")", Rule: "C08.R3"},
			{Name: "missing return after the 502 of no upstream", File: "server/proxy/httpproxy.go", Old: "\t\t_ = errorResponse(w, http.StatusBadGateway, \"no available upstreams\")\n\t\treturn\n\t}\n\n\tp.ServeHTTPWithUpstream", New: "\t\t_ = errorResponse(w, http.StatusBadGateway, \"no available upstreams\")\n\t}\n\n\tp.ServeHTTPWithUpstream", Rule: "C08.R3"},
			{Name: "timeout also on websocket upgrades", File: "server/proxy/httpproxy.go", Old: "\tif p.timeout != 0 && r.Header.Get(\"upgrade\") != \"websocket\" {", New: "\tif p.timeout != 0 {", Rule: "C08.R4"},
			{Name: "Authorization header deleted before proxying", File: "server/proxy/httpproxy.go", Old: "\tr.Header.Set(\"x-piko-forward\", \"true\")\n", New: "\tr.Header.Set(\"x-piko-forward\", \"true\")\n\tr.Header.Del(\"x-piko-authorization\")\n", Rule: "C08.R2"},
			{Name: "access log filters the live headers again (T1)", File: "pkg/middleware/logger.go", Old: "responseHeaderFilter.Filter(c.Writer.Header().Clone())", New: "responseHeaderFilter.Filter(c.Writer.Header())", Rule: "C08.R2"},
			{Name: "Director mode replaced by Rewrite", File: "server/proxy/httpproxy.go", Old: "\t\tDirector: func(req *http.Request) {\n\t\t\treq.URL.Scheme = \"http\"\n\t\t\treq.URL.Host = req.Context().Value(endpointContextKey).(string)\n\t\t},", New: "\t\tRewrite: func(pr *httputil.ProxyRequest) {\n\t\t\tpr.Out.URL.Scheme = \"http\"\n\t\t\tpr.Out.URL.Host = pr.In.Context().Value(endpointContextKey).(string)\n\t\t},", Rule: "C08.R1"},
			{Name: "timeout moved to the transport's ResponseHeaderTimeout", File: "server/proxy/httpproxy.go", Old: "\tif p.timeout != 0 && r.Header.Get(\"upgrade\") != \"websocket\" {\n\t\tctx, cancel := context.WithTimeout(r.Context(), p.timeout)\n\t\tdefer cancel()\n\n\t\tr = r.WithContext(ctx)\n\t}\n", New: "", Rule: "C08.R4"},
			{Name: "missing endpoint answered 404", File: "server/proxy/server.go", Old: "\t\t\thttp.StatusBadRequest,\n\t\t\tgin.H{\"error\": \"missing endpoint id\"},", New: "\t\t\thttp.StatusNotFound,\n\t\t\tgin.H{\"error\": \"missing endpoint id\"},", Rule: "C08.R3"},
			{Name: "agent error handler always 502", File: "agent/reverseproxy/reverseproxy.go", Old: "\tif errors.Is(err, context.DeadlineExceeded) {\n\t\t_ = errorResponse(w, http.StatusGatewayTimeout, \"upstream timeout\")\n\t\treturn\n\t}\n", New: "\tif errors.Is(err, context.DeadlineExceeded) && false {\n\t\t_ = errorResponse(w, http.StatusGatewayTimeout, \"upstream timeout\")\n\t\treturn\n\t}\n", Rule: "C08.R3"},
			{Name: "benign: error handler as a switch", Benign: true, File: "server/proxy/httpproxy.go", Old: "\tif errors.Is(err, context.DeadlineExceeded) {\n\t\t_ = errorResponse(w, http.StatusGatewayTimeout, \"upstream timeout\")\n\t\treturn\n\t}\n\t_ = errorResponse(w, http.StatusBadGateway, \"upstream unreachable\")\n", New: "\tswitch {\n\tcase errors.Is(err, context.DeadlineExceeded):\n\t\t_ = errorResponse(w, http.StatusGatewayTimeout, \"upstream timeout\")\n\tdefault:\n\t\t_ = errorResponse(w, http.StatusBadGateway, \"upstream unreachable\")\n\t}\n"},
		},
	})
}

// ---------------------------------------------------------------- C01

func isParamValue(v ssa.Value, fn *ssa.Function, name string) bool {
	pv, ok := strip(v).(*ssa.Parameter)
	return ok && pv.Parent() == fn && (name == "" || pv.Name() == name)
}

func runC01(c *Ctx) {
	c01R1(c)
	c01R2(c)
	c01R3(c)
	c01R4(c)
	c04R2(c)
	c01R6(c, "C01.R6")
	c01Served(c)
	c01HostSelection(c)
	if g := newGossipAnchors(c.P); g.ok {
		c02R3(c, g)
	}
	c15R2(c, "C01.R1")
	// what a node advertises is what it has registered (settled routing information is right at the source)
	p := c.P
	upstreams := p.Field(upPkg, "loadBalancer", "upstreams")
	localUp := p.Field(upPkg, "LoadBalancedManager", "localUpstreams")
	muF := p.Field(upPkg, "LoadBalancedManager", "mu")
	mgr := p.NamedType(upPkg, "LoadBalancedManager")
	if upstreams != nil && localUp != nil && muF != nil && mgr != nil {
		c05R1(c, upstreams, localUp, mgr)
		c05R4(c, upstreams, localUp, muF, mgr)
	}
}

func c01R1(c *Ctx) {
	p := c.P
	c.floor("C01.R1", 14)
	// (a) route handlers: the value routed is derived from the request
	for _, h := range []struct {
		fn, source string
	}{
		{"Server.proxyHTTPRoute", "EndpointIDFromRequest"},
		{"Server.proxyTCPRoute", "Param"},
	} {
		fn := p.Func(pxPkg, h.fn)
		if fn == nil {
			c.fail("C01.R1", "anchor/"+h.fn, token.NoPos, "handler not found")
			continue
		}
		c.analysed(fnName(fn))
		allInstrs(fn, func(i ssa.Instruction) {
			cl, ok := i.(*ssa.Call)
			if !ok {
				return
			}
			cal := cl.Call.StaticCallee()
			if cal == nil || cal.Name() != "ServeHTTP" || !inModule(cal) {
				return
			}
			arg := cl.Call.Args[len(cl.Call.Args)-1]
			src, ok := strip(arg).(*ssa.Call)
			good := false
			if ok {
				n := commonName(&src.Call)
				switch h.source {
				case "EndpointIDFromRequest":
					good = strings.HasSuffix(n, "server/proxy.EndpointIDFromRequest") && strings.HasSuffix(path(src.Call.Args[0]), ".&Request")
				case "Param":
					good = strings.HasSuffix(n, "gin.Context).Param")
				}
			}
			c.check(good, "C01.R1", fnName(fn)+"/routes-request-endpoint", cl.Pos(), "the id routed is "+h.source+"(request)", "the endpoint id handed to the proxy is not derived from the request by "+h.source+": "+path(arg))
		})
	}
	if fn := p.Func(upPkg, "Server.upstreamRoute"); fn != nil {
		c.analysed(fnName(fn))
		for _, call := range findCalls(fn, modPath+"/server/upstream.NewConnUpstream") {
			arg := callCommon(call).Args[0]
			src, ok := strip(arg).(*ssa.Call)
			c.check(ok && strings.HasSuffix(commonName(&src.Call), "gin.Context).Param"), "C01.R1", fnName(fn)+"/registers-path-endpoint", call.Pos(), "the upstream is registered under the endpoint id of the URL path", "the upstream is registered under something other than the URL path's endpoint id: "+path(arg))
		}
	}
	// (b) proxies thread their parameter
	for _, name := range []string{"HTTPProxy.ServeHTTP", "TCPProxy.ServeHTTP"} {
		fn := p.Func(pxPkg, name)
		if fn == nil {
			c.fail("C01.R1", "anchor/"+name, token.NoPos, "not found")
			continue
		}
		c.analysed(fnName(fn))
		allInstrs(fn, func(i ssa.Instruction) {
			cc := callCommon(i)
			if cc == nil {
				return
			}
			var arg ssa.Value
			what := ""
			switch {
			case cc.IsInvoke() && cc.Method.Name() == "Select":
				arg, what = cc.Args[0], "Select"
			case cc.StaticCallee() != nil && cc.StaticCallee().Name() == "ServeHTTPWithUpstream":
				arg, what = cc.Args[3], "ServeHTTPWithUpstream"
			default:
				return
			}
			c.check(isParamValue(arg, fn, "endpointID"), "C01.R1", fnName(fn)+"/"+what+"-key", i.Pos(), what+" receives the endpoint parameter unchanged", what+" is given "+path(arg)+" instead of the requested endpoint id")
		})
	}
	// (c) manager: every key into localUpstreams and every cluster call in Add/RemoveConn is u.EndpointID()
	localUp := p.Field(upPkg, "LoadBalancedManager", "localUpstreams")
	for _, name := range []string{"LoadBalancedManager.AddConn", "LoadBalancedManager.RemoveConn"} {
		fn := p.Func(upPkg, name)
		if fn == nil {
			c.fail("C01.R1", "anchor/"+name, token.NoPos, "not found")
			continue
		}
		c.analysed(fnName(fn))
		u := fn.Params[1]
		isID := func(v ssa.Value) bool {
			cl, ok := strip(v).(*ssa.Call)
			return ok && cl.Call.IsInvoke() && cl.Call.Method.Name() == "EndpointID" && cl.Call.Value == ssa.Value(u)
		}
		n := 0
		allInstrs(fn, func(i ssa.Instruction) {
			var key ssa.Value
			what := ""
			switch x := i.(type) {
			case *ssa.Lookup:
				if _, ok := loadedField(x.X, localUp); ok {
					key, what = x.Index, "lookup"
				}
			case *ssa.MapUpdate:
				if _, ok := loadedField(x.Map, localUp); ok {
					key, what = x.Key, "store"
				}
			case *ssa.Call:
				if b, ok := x.Call.Value.(*ssa.Builtin); ok && b.Name() == "delete" {
					if _, ok := loadedField(x.Call.Args[0], localUp); ok {
						key, what = x.Call.Args[1], "delete"
					}
				}
				nme := commonName(&x.Call)
				if nme == fnAddLocal || nme == fnRemLocal {
					key, what = x.Call.Args[1], shortName(nme)
				}
			}
			if what == "" {
				return
			}
			n++
			c.check(isID(key), "C01.R1", fnName(fn)+"/"+what+"-key", i.Pos(), "keyed by u.EndpointID()", "the registry/cluster is keyed by "+path(key)+" instead of the upstream's endpoint id")
		})
		if n < 3 {
			c.fail("C01.R1", fnName(fn)+"/keys", fn.Pos(), "expected table lookups and a cluster call")
		}
	}
	// (d) EndpointID() returns a constructor-set field
	for _, t := range []string{"ConnUpstream", "NodeUpstream"} {
		fn := p.Func(upPkg, t+".EndpointID")
		fv := p.Field(upPkg, t, "endpointID")
		if fn == nil || fv == nil {
			c.fail("C01.R1", "anchor/"+t+".EndpointID", token.NoPos, "not found")
			continue
		}
		good := true
		for _, r := range returnsOf(fn) {
			if _, ok := loadedField(returnValues(r)[0], fv); !ok {
				good = false
			}
		}
		stores := p.storesToField(fv, false)
		ctorOnly := len(stores) == 1 && strings.HasPrefix(stores[0].Fn.Name(), "New")
		if ctorOnly {
			st := stores[0].Instr.(*ssa.Store)
			ctorOnly = isParamValue(st.Val, stores[0].Fn, "")
		}
		c.check(good && ctorOnly, "C01.R1", fnName(fn)+"/pure-accessor", fn.Pos(), "returns the field set once from the constructor's parameter", "EndpointID() is not a pure accessor of a constructor-set field: the id an upstream is registered under can differ from the one it reports")
	}
	// (e) context plumbing in ServeHTTPWithUpstream / Director / dial hook
	if fn := p.Func(pxPkg, "HTTPProxy.ServeHTTPWithUpstream"); fn != nil {
		c.analysed(fnName(fn))
		keys := map[string]ssa.Value{}
		allInstrs(fn, func(i ssa.Instruction) {
			cl, ok := i.(*ssa.Call)
			if !ok || commonName(&cl.Call) != "context.WithValue" {
				return
			}
			keys[path(cl.Call.Args[1])] = cl.Call.Args[2]
		})
		epKey, upKey := "", ""
		for k, v := range keys {
			if isParamValue(v, fn, "endpointID") {
				epKey = k
			}
			if isParamValue(v, fn, "upstream") {
				upKey = k
			}
		}
		c.check(epKey != "" && upKey != "" && epKey != upKey, "C01.R1", fnName(fn)+"/context-values", fn.Pos(), "the endpoint and the selected upstream are attached to the request context under distinct keys", "the request context does not carry the endpoint parameter and the selected upstream under distinct keys")
		// readers
		readKey := func(f *ssa.Function) string {
			k := ""
			allInstrs(f, func(i ssa.Instruction) {
				cl, ok := i.(*ssa.Call)
				if ok && cl.Call.IsInvoke() && cl.Call.Method.Name() == "Value" {
					k = path(cl.Call.Args[0])
				}
			})
			return k
		}
		if dh := p.Func(pxPkg, "HTTPProxy.dialUpstream"); dh != nil {
			c.check(readKey(dh) == upKey && upKey != "", "C01.R1", fnName(dh)+"/dials-selected-upstream", dh.Pos(), "the dial hook dials the upstream attached to this request", "the dial hook reads a different context key than the one the selected upstream is stored under")
		}
		if ctor := p.Func(pxPkg, "NewHTTPProxy"); ctor != nil {
			for _, a := range ctor.AnonFuncs {
				if k := readKey(a); k != "" {
					c.check(k == epKey, "C01.R1", fnName(a)+"/director-host-is-endpoint", a.Pos(), "the Director's host is the endpoint attached to this request", "the Director reads a different context key than the one the endpoint is stored under")
				}
			}
		}
	}
}

// ginPatterns: full route patterns registered in fn with their handler functions.
func ginPatterns(p *Prog, fn *ssa.Function) map[string]*ssa.Function {
	out := map[string]*ssa.Function{}
	prefix := map[ssa.Value]string{}
	var full func(v ssa.Value) string
	full = func(v ssa.Value) string {
		v = strip(v)
		if s, ok := prefix[v]; ok {
			return s
		}
		if fa, ok := v.(*ssa.FieldAddr); ok { // &engine.RouterGroup
			return full(fa.X)
		}
		return ""
	}
	allInstrs(fn, func(i ssa.Instruction) {
		cl, ok := i.(*ssa.Call)
		if !ok {
			return
		}
		n := commonName(&cl.Call)
		if !strings.Contains(n, "gin.RouterGroup).") {
			return
		}
		m := n[strings.LastIndex(n, ".")+1:]
		if len(cl.Call.Args) < 2 {
			return
		}
		seg, ok := constString(cl.Call.Args[1])
		if !ok {
			return
		}
		base := full(cl.Call.Args[0])
		if m == "Group" {
			prefix[cl] = base + seg
			return
		}
		if !ginRegister[m] {
			return
		}
		// handler: last variadic element
		var h *ssa.Function
		if sl, ok := cl.Call.Args[len(cl.Call.Args)-1].(*ssa.Slice); ok {
			if al, ok := sl.X.(*ssa.Alloc); ok {
				for _, r := range *al.Referrers() {
					if ia, ok := r.(*ssa.IndexAddr); ok {
						for _, rr := range *ia.Referrers() {
							if st, ok := rr.(*ssa.Store); ok {
								if mc, ok := strip(st.Val).(*ssa.MakeClosure); ok {
									h = unwrapWrapper(mc.Fn.(*ssa.Function))
								}
							}
						}
					}
				}
			}
		}
		out[base+seg] = h
	})
	return out
}

func c01R2(c *Ctx) {
	p := c.P
	c.floor("C01.R2", 4)
	for _, pair := range []struct {
		rel, reg, clientFn, role string
	}{
		{pxPkg, "Server.registerRoutes", "Dialer.dialURL", "tcp"},
		{upPkg, "Server.registerRoutes", "Upstream.listenURL", "upstream"},
	} {
		reg := p.Func(pair.rel, pair.reg)
		cl := p.Func("client", pair.clientFn)
		if reg == nil || cl == nil {
			c.fail("C01.R2", "anchor/"+pair.role, token.NoPos, "route registration or client URL builder not found")
			continue
		}
		c.analysed(fnName(reg))
		c.analysed(fnName(cl))
		pats := ginPatterns(p, reg)
		// client literal: const prefix + endpointID
		lit := ""
		allInstrs(cl, func(i ssa.Instruction) {
			bo, ok := i.(*ssa.BinOp)
			if !ok || bo.Op != token.ADD {
				return
			}
			if s, ok := constString(bo.X); ok && strings.HasPrefix(s, "/") && isParamValue(bo.Y, cl, "endpointID") {
				lit = s
			}
		})
		var match string
		var handler *ssa.Function
		for pat, h := range pats {
			if i := strings.Index(pat, ":"); i > 0 && pat[:i] == lit {
				match, handler = pat, h
			}
		}
		var keys []string
		for k := range pats {
			keys = append(keys, k)
		}
		sort.Strings(keys)
		c.check(match != "" && lit != "", "C01.R2", pair.role+"/client-path-equals-route", cl.Pos(), "client builds "+lit+"<id>, server registers "+match, fmt.Sprintf("the client builds %q+<id> but the server registers %v: the endpoint id is not where the server reads it", lit, keys))
		if match == "" || handler == nil {
			continue
		}
		pname := match[strings.Index(match, ":")+1:]
		read := false
		allInstrs(handler, func(i ssa.Instruction) {
			if hc, ok := i.(*ssa.Call); ok && strings.HasSuffix(commonName(&hc.Call), "gin.Context).Param") {
				if s, ok := constString(hc.Call.Args[1]); ok && s == pname {
					read = true
				}
			}
		})
		c.check(read, "C01.R2", pair.role+"/handler-reads-declared-param", handler.Pos(), "the handler reads :"+pname, "the handler registered for "+match+" does not read the parameter :"+pname)
	}
}

func c01R3(c *Ctx) {
	p := c.P
	c.floor("C01.R3", 3)
	fn := p.Func(pxPkg, "EndpointIDFromRequest")
	if fn == nil {
		c.fail("C01.R3", "anchor/EndpointIDFromRequest", token.NoPos, "not found")
		return
	}
	c.analysed(fnName(fn))
	fs := computeFacts(fn)
	isEmptyStr := func(v ssa.Value) bool { s, ok := constString(v); return ok && s == "" }
	for k, r := range returnsOf(fn) {
		rv := returnValues(r)[0]
		key := fmt.Sprintf("%s/return[%d]", fnName(fn), k)
		facts := fs.At(r.Block())
		if isEmptyStr(rv) {
			c.ok("C01.R3", key, r.Pos(), "no endpoint")
			continue
		}
		if cl, ok := rv.(*ssa.Call); ok && commonName(&cl.Call) == "(net/http.Header).Get" {
			k2, _ := constString(cl.Call.Args[1])
			nonEmpty := anyFact(facts, func(f Fact) bool { return cmpFact(f, token.NEQ, func(v ssa.Value) bool { return v == rv }, isEmptyStr) })
			c.check(strings.EqualFold(k2, "x-piko-endpoint") && nonEmpty, "C01.R3", key, r.Pos(), "the x-piko-endpoint header when non-empty", "the header branch does not return the non-empty x-piko-endpoint header")
			continue
		}
		// strings.Split(host, ".")[0] under host != "", ParseIP(host) == nil, Contains(host, ".")
		good := false
		var host ssa.Value
		if u, ok := rv.(*ssa.UnOp); ok {
			if ia, ok := u.X.(*ssa.IndexAddr); ok {
				if k0, ok := constInt(ia.Index); ok && k0 == 0 {
					if sp, ok := ia.X.(*ssa.Call); ok && commonName(&sp.Call) == "strings.Split" {
						if sep, ok := constString(sp.Call.Args[1]); ok && sep == "." {
							host, good = sp.Call.Args[0], true
						}
					}
				}
			}
		}
		if good {
			notEmpty := anyFact(facts, func(f Fact) bool {
				return cmpFact(f, token.NEQ, func(v ssa.Value) bool { return v == host }, isEmptyStr)
			})
			notIP := anyFact(facts, func(f Fact) bool {
				return cmpFact(f, token.EQL, func(v ssa.Value) bool {
					cl, ok := v.(*ssa.Call)
					return ok && commonName(&cl.Call) == "net.ParseIP" && cl.Call.Args[0] == host
				}, isNilConst)
			})
			dotted := anyFact(facts, func(f Fact) bool {
				cl, ok := f.V.(*ssa.Call)
				if !ok || !f.T || commonName(&cl.Call) != "strings.Contains" || cl.Call.Args[0] != host {
					return false
				}
				s, ok := constString(cl.Call.Args[1])
				return ok && s == "."
			})
			good = notEmpty && notIP && dotted
		}
		c.check(good, "C01.R3", key, r.Pos(), "the first label of a non-empty, non-IP, dotted host", "the host branch does not return strings.Split(host, \".\")[0] under {host != \"\", not an IP, contains a dot}; facts "+factStrings(facts))
	}
}

func c01R4(c *Ctx) {
	p := c.P
	c.floor("C01.R4", 5)
	c08Director(c, "C01.R4")
	// NodeUpstream.Dial dials u.node.ProxyAddr
	if fn := p.Func(upPkg, "NodeUpstream.Dial"); fn != nil {
		c.analysed(fnName(fn))
		n := 0
		allInstrs(fn, func(i ssa.Instruction) {
			cl, ok := i.(*ssa.Call)
			if !ok {
				return
			}
			nme := commonName(&cl.Call)
			if nme != "net.Dial" && nme != "crypto/tls.Dial" {
				return
			}
			n++
			addr := cl.Call.Args[1]
			c.check(strings.HasSuffix(path(addr), ".&node.&ProxyAddr") && strings.HasPrefix(path(addr), "**P:u"), "C01.R4", fnName(fn)+"/"+nme, cl.Pos(), "dials the selected node's proxy address", "the inter-node hop dials "+path(addr)+" instead of the selected node's ProxyAddr")
		})
		if n == 0 {
			c.fail("C01.R4", fnName(fn)+"/dial", fn.Pos(), "no dial call found")
		}
	}
	// who-may-construct / who-may-call
	for _, w := range []struct {
		callee string
		allow  func(*ssa.Function) bool
		who    string
	}{
		{modPath + "/server/upstream.NewNodeUpstream", func(f *ssa.Function) bool { return strings.HasSuffix(topFn(f).String(), "LoadBalancedManager).Select") }, "LoadBalancedManager.Select"},
		{modPath + "/server/upstream.NewConnUpstream", func(f *ssa.Function) bool {
			return strings.HasSuffix(topFn(f).String(), "upstream.Server).upstreamRoute")
		}, "the upstream handler"},
	} {
		n := 0
		for _, f := range p.ModFuncs {
			if isTestFile(p.Fset, f.Pos()) {
				continue
			}
			for _, call := range findCalls(f, w.callee) {
				n++
				c.check(w.allow(f), "C01.R4", "constructs "+shortName(w.callee)+"/"+fnName(f), call.Pos(), "constructed only by "+w.who, "constructed outside "+w.who+": an upstream can be created for an endpoint id that was not the one selected/registered")
			}
		}
		if n == 0 {
			c.fail("C01.R4", "constructs "+shortName(w.callee), token.NoPos, "no construction site found")
		}
	}
	for _, f := range p.ModFuncs {
		if isTestFile(p.Fset, f.Pos()) {
			continue
		}
		allInstrs(f, func(i ssa.Instruction) {
			cc := callCommon(i)
			if cc != nil && cc.IsInvoke() && cc.Method.Name() == "AddConn" && strings.Contains(cc.Method.FullName(), "server/upstream.Manager") {
				c.check(strings.HasSuffix(topFn(f).String(), "upstream.Server).upstreamRoute"), "C01.R4", "calls Manager.AddConn/"+fnName(f), i.Pos(), "only the upstream handler registers connections", "connections are registered outside the upstream handler")
			}
		})
	}
}

// c01R6: the transport carrying the upstream dial hook never reuses connections.
func c01R6(c *Ctx, rule string) {
	p := c.P
	c.floor(rule, 1)
	dial := p.Func(pxPkg, "HTTPProxy.dialUpstream")
	n := 0
	for _, fn := range p.ModFuncs {
		if isTestFile(p.Fset, fn.Pos()) {
			continue
		}
		allInstrs(fn, func(i ssa.Instruction) {
			st, ok := i.(*ssa.Store)
			if !ok {
				return
			}
			fa, ok := st.Addr.(*ssa.FieldAddr)
			if !ok {
				return
			}
			fv, tr := fieldVarOf(fa)
			if fv.Name() != "DialContext" || !strings.Contains(fa.X.Type().String(), "net/http.Transport") {
				return
			}
			mc, ok := strip(st.Val).(*ssa.MakeClosure)
			if !ok || dial == nil || unwrapWrapper(mc.Fn.(*ssa.Function)) != dial {
				return
			}
			n++
			// DisableKeepAlives = true on the same transport
			okKA := false
			for _, r := range *tr.Referrers() {
				if fa2, ok := r.(*ssa.FieldAddr); ok {
					if fv2, _ := fieldVarOf(fa2); fv2.Name() == "DisableKeepAlives" {
						for _, rr := range *fa2.Referrers() {
							if s2, ok := rr.(*ssa.Store); ok {
								if b, ok := constBool(s2.Val); ok && b {
									okKA = true
								}
							}
						}
					}
				}
			}
			c.check(okKA, rule, fnName(fn)+"/per-request-connections", st.Pos(), "DisableKeepAlives: true on the transport whose dial hook selects the upstream per request",
				"the transport whose dial hook picks the upstream from the request context may reuse idle connections (pooled per URL.Host = endpoint id): a request can be sent over a connection to an upstream chosen for an earlier request")
		})
	}
	if n == 0 {
		c.fail(rule, "transport-with-dial-hook", token.NoPos, "no http.Transport using the upstream dial hook found")
	}
}

// ---------------------------------------------------------------- C08

func runC08(c *Ctx) {
	c08ErrorBody(c)
	c08NodeDial(c)
	errDiscipline(c, "C08.R5", pkgFuncs(c.P, "server/proxy"), 3)
	c08Director(c, "C08.R1")
	c08R2(c)
	c08R3(c)
	c08R4(c)
	c01R6(c, "C08.R1")
	c08AgentProxy(c)
}

// c08AgentProxy (C08.R7): the agent's HTTP reverse proxy is the library's
// single-host proxy. Its director keeps URL.Path and URL.RawPath consistent
// (escaped request paths reach the service as sent); a hand-written director
// or Rewrite hook in agent/reverseproxy has to redo that and is not accepted.
func c08AgentProxy(c *Ctx) {
	p := c.P
	made, custom := 0, []string{}
	var pos token.Pos
	for _, top := range pkgFuncs(p, "agent/reverseproxy") {
		for _, fn := range withAnon(top) {
			allInstrs(fn, func(i ssa.Instruction) {
				switch x := i.(type) {
				case *ssa.Call:
					if commonName(&x.Call) == "net/http/httputil.NewSingleHostReverseProxy" {
						made++
						pos = x.Pos()
					}
				case *ssa.Alloc:
					if pt, ok := x.Type().Underlying().(*types.Pointer); ok && pt.Elem().String() == "net/http/httputil.ReverseProxy" {
						custom = append(custom, "a ReverseProxy literal at "+p.pos(x.Pos()))
					}
				case *ssa.FieldAddr:
					if pt, ok := x.X.Type().Underlying().(*types.Pointer); ok && pt.Elem().String() == "net/http/httputil.ReverseProxy" {
						fv, _ := fieldVarOf(x)
						if fv.Name() == "Director" || fv.Name() == "Rewrite" {
							for _, r := range *x.Referrers() {
								if st, ok := r.(*ssa.Store); ok && st.Addr == ssa.Value(x) {
									custom = append(custom, fv.Name()+" replaced at "+p.pos(st.Pos()))
								}
							}
						}
					}
				}
			})
		}
	}
	c.check(made > 0 && len(custom) == 0, "C08.R7", "agent/reverseproxy/library-single-host-director", pos, "httputil.NewSingleHostReverseProxy with its own director",
		fmt.Sprintf("the agent's proxy does not use the library director unchanged (%d NewSingleHostReverseProxy calls; %s): escaped paths (RawPath) and query joining are the library's job", made, strings.Join(custom, "; ")))
}

// c08Director: Director mode, write set {URL.Scheme, URL.Host}.
func c08Director(c *Ctx, rule string) {
	p := c.P
	ctor := p.Func(pxPkg, "NewHTTPProxy")
	if ctor == nil {
		c.fail(rule, "anchor/NewHTTPProxy", token.NoPos, "not found")
		return
	}
	c.analysed(fnName(ctor))
	var director *ssa.Function
	set := map[string]bool{}
	allInstrs(ctor, func(i ssa.Instruction) {
		st, ok := i.(*ssa.Store)
		if !ok {
			return
		}
		fa, ok := st.Addr.(*ssa.FieldAddr)
		if !ok || !strings.Contains(fa.X.Type().String(), "httputil.ReverseProxy") {
			return
		}
		fv, _ := fieldVarOf(fa)
		set[fv.Name()] = true
		if fv.Name() == "Director" {
			if mc, ok := strip(st.Val).(*ssa.MakeClosure); ok {
				director = mc.Fn.(*ssa.Function)
			} else if f, ok := strip(st.Val).(*ssa.Function); ok {
				director = f
			}
		}
	})
	c.check(set["Director"] && !set["Rewrite"] && !set["ModifyResponse"], rule, fnName(ctor)+"/director-mode", ctor.Pos(), "ReverseProxy uses Director; no Rewrite, no ModifyResponse",
		fmt.Sprintf("the reverse proxy is configured with %v: Rewrite mode cleans the query string and drops client forwarding headers, ModifyResponse can alter responses", keysOf(set)))
	if director == nil {
		c.fail(rule, fnName(ctor)+"/director", ctor.Pos(), "no Director function")
		return
	}
	c.analysed(fnName(director))
	var writes []string
	okSet := true
	allInstrs(director, func(i ssa.Instruction) {
		switch x := i.(type) {
		case *ssa.Store:
			pa := path(x.Addr)
			writes = append(writes, pa)
			if pa != "*P:req.&URL.&Scheme" && pa != "*P:req.&URL.&Host" {
				okSet = false
			}
		case *ssa.MapUpdate:
			okSet = false
			writes = append(writes, "map:"+path(x.Map))
		case *ssa.Call:
			n := commonName(&x.Call)
			if strings.HasPrefix(n, "(net/http.Header).") && n != "(net/http.Header).Get" && n != "(net/http.Header).Values" {
				okSet = false
				writes = append(writes, n)
			}
		}
	})
	c.check(okSet && len(writes) == 2, rule, fnName(director)+"/write-set", director.Pos(), "the Director writes only URL.Scheme and URL.Host", fmt.Sprintf("the Director writes %v: method, path, query, Host and headers must reach the upstream unchanged", writes))
}

func keysOf(m map[string]bool) []string {
	var k []string
	for s := range m {
		k = append(k, s)
	}
	sort.Strings(k)
	return k
}

// headerLive classifies a header map value: "fresh" (Clone/make), "live"
// (Request.Header / Writer.Header()), "param", or "unknown".
func headerOrigin(v ssa.Value, depth int) string {
	if depth > 8 {
		return "unknown"
	}
	v = strip(v)
	switch x := v.(type) {
	case *ssa.Call:
		n := commonName(&x.Call)
		switch {
		case n == "(net/http.Header).Clone":
			return "fresh"
		case strings.HasSuffix(n, ".Header") && (x.Call.IsInvoke() || strings.Contains(n, "ResponseWriter")):
			return "live"
		case strings.HasSuffix(n, "logHeaderFilter).Filter"):
			return headerOrigin(x.Call.Args[1], depth+1)
		}
		return "unknown"
	case *ssa.MakeMap:
		return "fresh"
	case *ssa.UnOp:
		if fa, ok := x.X.(*ssa.FieldAddr); ok {
			if fv, _ := fieldVarOf(fa); fv.Name() == "Header" || fv.Name() == "Trailer" {
				return "live"
			}
		}
		return "unknown"
	case *ssa.Parameter:
		return "param"
	case *ssa.Phi:
		out := ""
		for _, e := range x.Edges {
			o := headerOrigin(e, depth+1)
			if o == "live" || o == "unknown" {
				return o
			}
			out = o
		}
		return out
	}
	return "unknown"
}

func c08R2(c *Ctx) {
	p := c.P
	c.floor("C08.R2", 5)
	scope := func(f *ssa.Function) bool {
		s := f.String()
		return strings.Contains(s, modPath+"/server/proxy") || strings.Contains(s, modPath+"/pkg/middleware") || strings.Contains(s, modPath+"/agent/reverseproxy") || strings.Contains(s, modPath+"/server/admin")
	}
	isHeaderT := func(t types.Type) bool { return t.String() == "net/http.Header" }
	for _, fn := range p.ModFuncs {
		if isTestFile(p.Fset, fn.Pos()) || !scope(fn) {
			continue
		}
		allInstrs(fn, func(i ssa.Instruction) {
			var hv ssa.Value
			what, keyName := "", ""
			switch x := i.(type) {
			case *ssa.Call:
				n := commonName(&x.Call)
				if n == "(net/http.Header).Set" || n == "(net/http.Header).Add" || n == "(net/http.Header).Del" {
					hv, what = x.Call.Args[0], n[len("(net/http.Header)."):]
					keyName, _ = constString(x.Call.Args[1])
				}
				if b, ok := x.Call.Value.(*ssa.Builtin); ok && b.Name() == "delete" && isHeaderT(x.Call.Args[0].Type()) {
					hv, what = x.Call.Args[0], "delete"
				}
			case *ssa.MapUpdate:
				if isHeaderT(x.Map.Type()) {
					hv, what = x.Map, "map-store"
				}
			}
			if what == "" {
				return
			}
			key := fnName(fn) + "/" + what
			if keyName != "" {
				key += "[" + keyName + "]"
			}
			origin := headerOrigin(hv, 0)
			switch {
			case origin == "fresh":
				c.ok("C08.R2", key, i.Pos(), "edits a fresh or cloned header map")
			case origin == "live" && strings.EqualFold(keyName, forwardHeader) && what == "Set":
				c.ok("C08.R2", key, i.Pos(), "the forward marker (C06.R2)")
			case origin == "live" && baseName(fn) == "errorResponse":
				c.ok("C08.R2", key, i.Pos(), "piko's own error response")
			case origin == "param":
				// classify every call site's argument
				pv := strip(hv).(*ssa.Parameter)
				idx := -1
				for k, pp := range fn.Params {
					if pp == pv {
						idx = k
					}
				}
				bad := ""
				n := 0
				for _, e := range p.callersOf(fn) {
					cf := e.Caller.Func
					if cf == nil || isTestFile(p.Fset, cf.Pos()) || e.Site == nil {
						continue
					}
					args := e.Site.Common().Args
					if idx >= len(args) {
						continue
					}
					n++
					if o := headerOrigin(args[idx], 0); o != "fresh" {
						bad = fmt.Sprintf("called at %s with a %s header map", p.pos(e.Pos()), o)
					}
				}
				c.check(n > 0 && bad == "", "C08.R2", key+"/live-header-edit", i.Pos(), "every caller passes a cloned header map",
					"this function edits the header map it is given and is "+bad+": request/response headers (and trailers, which are read from the same map after the handler returns) are altered on the wire")
			default:
				c.fail("C08.R2", key, i.Pos(), "a "+origin+" request/response header map is edited on the proxy path: headers must reach the upstream and the client unchanged")
			}
		})
	}
}

func errorResponseStatus(i ssa.Instruction) (int64, bool) {
	cl, ok := i.(*ssa.Call)
	if !ok {
		return 0, false
	}
	cal := cl.Call.StaticCallee()
	if cal == nil || baseName(cal) != "errorResponse" || !inModule(cal) {
		return 0, false
	}
	st, ok := constInt(cl.Call.Args[1])
	return st, ok
}

func c08R3(c *Ctx) {
	p := c.P
	c.floor("C08.R3", 6)
	// sibling error handlers
	for _, h := range []struct{ rel, name string }{{pxPkg, "HTTPProxy.errorHandler"}, {"server/admin", "ReverseProxy.errorHandler"}, {"agent/reverseproxy", "ReverseProxy.errorHandler"}} {
		fn := p.Func(h.rel, h.name)
		if fn == nil {
			c.fail("C08.R3", "anchor/"+h.rel+"."+h.name, token.NoPos, "error handler not found")
			continue
		}
		c.analysed(fnName(fn))
		errP := fn.Params[len(fn.Params)-1]
		fsH := computeFacts(fn)
		isDeadline := func(facts []Fact, want bool) bool {
			return anyFact(facts, func(f Fact) bool {
				cl, ok := f.V.(*ssa.Call)
				if !ok || commonName(&cl.Call) != "errors.Is" || strip(cl.Call.Args[0]) != ssa.Value(errP) {
					return false
				}
				return strings.Contains(path(cl.Call.Args[1]), "DeadlineExceeded") && f.T == want
			})
		}
		paths, _ := enumPathsAt(fn.Blocks[0], 0, func(i ssa.Instruction) bool {
			cl, ok := i.(*ssa.Call)
			return ok && cl.Call.StaticCallee() != nil && baseName(cl.Call.StaticCallee()) == "errorResponse" && inModule(cl.Call.StaticCallee())
		}, nil, nil, 100)
		bad := ""
		nAlt := 0
		for _, pa := range paths {
			if pa.endWhy != "return" {
				continue
			}
			if len(pa.seen) != 1 {
				bad = fmt.Sprintf("a path writes %d responses", len(pa.seen))
				continue
			}
			cl := pa.seen[0].(*ssa.Call)
			for _, alt := range valueAlternatives(cl.Call.Args[1], fsH, cl.Block()) {
				facts := alt.facts
				if _, isPhi := cl.Call.Args[1].(*ssa.Phi); !isPhi {
					facts = append(append([]Fact(nil), facts...), pa.facts...)
				}
				st, ok := constInt(alt.v)
				switch {
				case !ok:
					bad = "the status is not a constant"
				case isDeadline(facts, true) && st != 504:
					bad = fmt.Sprintf("status %d is answered when the error is a deadline (expected 504)", st)
				case isDeadline(facts, false) && st != 502:
					bad = fmt.Sprintf("status %d is answered when the error is not a deadline (expected 502)", st)
				case !isDeadline(facts, true) && !isDeadline(facts, false):
					bad = fmt.Sprintf("status %d is chosen without testing errors.Is(err, context.DeadlineExceeded)", st)
				default:
					nAlt++
				}
			}
		}
		if nAlt < 2 && bad == "" {
			bad = "the handler does not distinguish a deadline (504) from other failures (502)"
		}
		c.check(bad == "", "C08.R3", fnName(fn)+"/status-table", fn.Pos(), "504 exactly for context.DeadlineExceeded, 502 otherwise, one response per path", bad)
	}
	// no upstream -> 502 and return before proxying
	for _, name := range []string{"HTTPProxy.ServeHTTP", "TCPProxy.ServeHTTP"} {
		fn := p.Func(pxPkg, name)
		if fn == nil {
			continue
		}
		var sel *ssa.Call
		allInstrs(fn, func(i ssa.Instruction) {
			if cl, ok := i.(*ssa.Call); ok && cl.Call.IsInvoke() && cl.Call.Method.Name() == "Select" {
				sel = cl
			}
		})
		if sel == nil {
			c.fail("C08.R3", fnName(fn)+"/select", fn.Pos(), "no Select call")
			continue
		}
		isProxying := func(i ssa.Instruction) bool {
			cl, ok := i.(*ssa.Call)
			if !ok {
				return false
			}
			n := commonName(&cl.Call)
			return strings.HasSuffix(n, "ServeHTTPWithUpstream") || (cl.Call.IsInvoke() && (cl.Call.Method.Name() == "Dial" || cl.Call.Method.Name() == "Forward")) || strings.HasSuffix(n, "Upgrader).Upgrade")
		}
		paths, _ := enumPaths(sel, func(i ssa.Instruction) bool { _, ok := errorResponseStatus(i); return ok || isProxying(i) }, nil, nil, 300)
		bad := ""
		for _, pa := range paths {
			notFound := anyFact(pa.facts, func(f Fact) bool {
				ex, ok := f.V.(*ssa.Extract)
				return ok && ex.Tuple == ssa.Value(sel) && ex.Index == 1 && !f.T
			})
			if !notFound {
				continue
			}
			if len(pa.seen) != 1 {
				bad = "with no upstream available the handler does not answer exactly once and stop"
				continue
			}
			if st, ok := errorResponseStatus(pa.seen[0]); !ok || st != 502 {
				bad = fmt.Sprintf("with no upstream available the handler answers %d / proceeds to proxy instead of 502", st)
			}
		}
		c.check(bad == "", "C08.R3", fnName(fn)+"/no-upstream-502", sel.Pos(), "no upstream: 502 once, then return", bad)
	}
	// missing endpoint -> 400 and return
	if fn := p.Func(pxPkg, "Server.proxyHTTPRoute"); fn != nil {
		var idc *ssa.Call
		allInstrs(fn, func(i ssa.Instruction) {
			if cl, ok := i.(*ssa.Call); ok && strings.HasSuffix(commonName(&cl.Call), "EndpointIDFromRequest") {
				idc = cl
			}
		})
		if idc != nil {
			isJSON := func(i ssa.Instruction) bool {
				cl, ok := i.(*ssa.Call)
				return ok && strings.HasSuffix(commonName(&cl.Call), "gin.Context).JSON")
			}
			isServe := func(i ssa.Instruction) bool {
				cl, ok := i.(*ssa.Call)
				return ok && cl.Call.StaticCallee() != nil && cl.Call.StaticCallee().Name() == "ServeHTTP"
			}
			paths, _ := enumPaths(idc, func(i ssa.Instruction) bool { return isJSON(i) || isServe(i) }, nil, nil, 300)
			bad := ""
			for _, pa := range paths {
				emptyID := anyFact(pa.facts, func(f Fact) bool {
					return cmpFact(f, token.EQL, func(v ssa.Value) bool { return v == ssa.Value(idc) }, func(v ssa.Value) bool { s, ok := constString(v); return ok && s == "" })
				})
				if !emptyID {
					continue
				}
				if len(pa.seen) != 1 || !isJSON(pa.seen[0]) {
					bad = "with no endpoint id the handler does not answer exactly once and stop"
					continue
				}
				if st, ok := constInt(pa.seen[0].(*ssa.Call).Call.Args[1]); !ok || st != 400 {
					bad = fmt.Sprintf("with no endpoint id the handler answers %d instead of 400", st)
				}
			}
			c.check(bad == "", "C08.R3", fnName(fn)+"/missing-endpoint-400", idc.Pos(), "missing endpoint: 400 once, then return", bad)
		}
	}
	// status constants piko's proxy code can emit
	allowed := map[int64]bool{400: true, 401: true, 500: true, 502: true, 504: true}
	for _, fn := range p.ModFuncs {
		if isTestFile(p.Fset, fn.Pos()) || !strings.Contains(fn.String(), modPath+"/server/proxy") {
			continue
		}
		allInstrs(fn, func(i ssa.Instruction) {
			cl, ok := i.(*ssa.Call)
			if !ok {
				return
			}
			n := commonName(&cl.Call)
			var st int64 = -1
			if s, ok := errorResponseStatus(i); ok {
				st = s
			} else if strings.HasSuffix(n, "gin.Context).JSON") || strings.HasSuffix(n, "gin.Context).AbortWithStatus") || strings.HasSuffix(n, "gin.Context).Status") {
				st, _ = constInt(cl.Call.Args[1])
			}
			if st >= 0 && !allowed[st] {
				c.fail("C08.R3", fnName(fn)+"/status-"+fmt.Sprint(st), i.Pos(), fmt.Sprintf("the proxy answers with status %d, outside {400,401,500,502,504}", st))
			}
		})
	}
}

// c08R4: timeout context exactly when configured and not a websocket upgrade.
func c08R4(c *Ctx) {
	p := c.P
	c.floor("C08.R4", 2)
	for _, h := range []struct{ rel, name, proxyField string }{
		{pxPkg, "HTTPProxy.ServeHTTPWithUpstream", "proxy"},
		{"agent/reverseproxy", "ReverseProxy.ServeHTTP", "proxy"},
	} {
		fn := p.Func(h.rel, h.name)
		if fn == nil {
			c.fail("C08.R4", "anchor/"+h.rel+"."+h.name, token.NoPos, "not found")
			continue
		}
		c.analysed(fnName(fn))
		fs := computeFacts(fn)
		timeoutF := p.Field(h.rel, strings.Split(h.name, ".")[0], "timeout")
		var serves []*ssa.Call
		allInstrs(fn, func(i ssa.Instruction) {
			if cl, ok := i.(*ssa.Call); ok && commonName(&cl.Call) == "(*net/http/httputil.ReverseProxy).ServeHTTP" {
				serves = append(serves, cl)
			}
		})
		if len(serves) == 0 || timeoutF == nil {
			c.fail("C08.R4", fnName(fn)+"/serve", fn.Pos(), "no ReverseProxy.ServeHTTP call / timeout field")
			continue
		}
		serve := serves[0]
		hasTimeout := func(facts []Fact, want bool) bool {
			return anyFact(facts, func(f Fact) bool {
				op := token.NEQ
				if !want {
					op = token.EQL
				}
				return cmpFact(f, op, func(v ssa.Value) bool { _, ok := loadedField(v, timeoutF); return ok }, func(v ssa.Value) bool { k, ok := constInt(v); return ok && k == 0 })
			})
		}
		isUpgradeGet := func(v ssa.Value) bool {
			cl, ok := v.(*ssa.Call)
			if !ok || commonName(&cl.Call) != "(net/http.Header).Get" {
				return false
			}
			k, ok := constString(cl.Call.Args[1])
			return ok && strings.EqualFold(k, "upgrade")
		}
		isWS := func(v ssa.Value) bool { s, ok := constString(v); return ok && s == "websocket" }
		upgrade := func(facts []Fact, want bool) bool {
			return anyFact(facts, func(f Fact) bool {
				op := token.EQL
				if !want {
					op = token.NEQ
				}
				if cmpFact(f, op, isUpgradeGet, isWS) {
					return true
				}
				if cl, ok := f.V.(*ssa.Call); ok && commonName(&cl.Call) == "strings.EqualFold" && f.T == want {
					return (isUpgradeGet(cl.Call.Args[0]) && isWS(cl.Call.Args[1])) || (isUpgradeGet(cl.Call.Args[1]) && isWS(cl.Call.Args[0]))
				}
				return false
			})
		}
		// every request handed to the reverse proxy, with the facts under which it is handed over: the inputs
		// of a phi by edge, a direct value by the alternatives of its block (guards merged with || leave no
		// single dominating fact)
		type reqAlt struct {
			v     ssa.Value
			facts []Fact
		}
		var alts []reqAlt
		for _, sv := range serves {
			// strip WithContext(WithValue...) wrappers down to a phi or WithContext(WithTimeout)
			req := sv.Call.Args[2]
			for {
				cl, ok := req.(*ssa.Call)
				if !ok || commonName(&cl.Call) != "(*net/http.Request).WithContext" {
					break
				}
				if wv, ok := cl.Call.Args[1].(*ssa.Call); ok && commonName(&wv.Call) == "context.WithValue" {
					req = cl.Call.Args[0]
					continue
				}
				break
			}
			if ph, ok := req.(*ssa.Phi); ok {
				for k, e := range ph.Edges {
					alts = append(alts, reqAlt{e, fs.OnEdge(ph.Block().Preds[k], ph.Block())})
				}
				continue
			}
			for _, fa := range factAlternatives(fs, sv.Block(), 3) {
				alts = append(alts, reqAlt{req, fa})
			}
		}
		bad := ""
		nT := 0
		for _, ra := range alts {
			e, facts := ra.v, ra.facts
			if _, isParam := strip(e).(*ssa.Parameter); isParam {
				if !(hasTimeout(facts, false) || upgrade(facts, true)) {
					bad = "the request is proxied without a timeout although one is configured and it is not a WebSocket upgrade; facts " + factStrings(facts)
				}
				continue
			}
			wc, ok := e.(*ssa.Call)
			good := false
			if ok && commonName(&wc.Call) == "(*net/http.Request).WithContext" {
				if ex, ok := wc.Call.Args[1].(*ssa.Extract); ok && ex.Index == 0 {
					if wt, ok := ex.Tuple.(*ssa.Call); ok && commonName(&wt.Call) == "context.WithTimeout" {
						_, durOK := loadedField(wt.Call.Args[1], timeoutF)
						parentOK := false
						if cc, ok := wt.Call.Args[0].(*ssa.Call); ok && commonName(&cc.Call) == "(*net/http.Request).Context" {
							parentOK = true
						}
						cancelOK := false
						for _, r := range *wt.Referrers() {
							if ce, ok := r.(*ssa.Extract); ok && ce.Index == 1 && flowsToDefer(ce, 0) {
								cancelOK = true
							}
						}
						good = durOK && parentOK && cancelOK && hasTimeout(facts, true) && upgrade(facts, false)
					}
				}
			}
			nT++
			if !good {
				bad = "the timeout context is not WithTimeout(r.Context(), p.timeout) with deferred cancel under exactly {timeout configured, not a WebSocket upgrade}; facts " + factStrings(facts)
			}
		}
		c.check(bad == "" && nT >= 1, "C08.R4", fnName(fn)+"/timeout-selection", serve.Pos(), "timeout context exactly when configured and not a WebSocket upgrade", bad)
	}
}

// c01Served (C01.R7): an upstream that was selected is used: every path on
// which Select reported an upstream goes on to hand exactly that upstream to the
// reverse-proxy hop or to dial it. (A branch that recognises a remote node and
// then just returns answers nothing although a reachable node has the endpoint.)
func c01Served(c *Ctx) {
	p := c.P
	c.floor("C01.R7", 2)
	for _, fn := range pkgFuncs(p, "server/proxy") {
		for _, call := range findCallsSuffix(fn, ".Select") {
			cc := callCommon(call)
			if cc == nil || !cc.IsInvoke() && !strings.Contains(commonName(cc), "server/upstream") {
				continue
			}
			cv, ok := call.(ssa.Value)
			if !ok {
				continue
			}
			var u, okv ssa.Value
			for _, r := range *cv.Referrers() {
				if ex, ok := r.(*ssa.Extract); ok {
					if ex.Index == 0 {
						u = ex
					} else {
						okv = ex
					}
				}
			}
			if u == nil || okv == nil {
				c.undecided("C01.R7", fnName(fn)+"/select-result", call.Pos(), "Select's results are not both bound")
				continue
			}
			c.analysed(fnName(fn))
			serves := func(i ssa.Instruction) bool {
				sc := callCommon(i)
				if sc == nil {
					return false
				}
				if sc.IsInvoke() && sc.Method.Name() == "Dial" && strip(sc.Value) == u {
					return true
				}
				if strings.HasSuffix(commonName(sc), "HTTPProxy).ServeHTTPWithUpstream") {
					_, args := recvAndArgs(sc)
					return len(args) >= 4 && strip(args[3]) == u
				}
				return false
			}
			paths, complete := enumPaths(call, serves, nil, func(pa *fpath) bool { return len(pa.seen) > 0 }, 400)
			bad := ""
			if !complete {
				bad = "too many paths"
			}
			for _, pa := range paths {
				if len(pa.seen) > 0 {
					continue
				}
				if anyFact(pa.facts, func(f Fact) bool { return f.V == okv && !f.T }) {
					continue // nothing was selected
				}
				if pa.endWhy == "panic" {
					continue
				}
				bad = "a path on which an upstream was selected ends at " + p.pos(pa.end.Pos()) + " without dialling it or handing it to the reverse-proxy hop; facts " + factStrings(pa.facts)
			}
			c.check(bad == "", "C01.R7", fnName(fn)+"/selected-upstream-is-served", call.Pos(), "every path with a selected upstream dials it or forwards to it", bad)
		}
	}
}

func findCallsSuffix(fn *ssa.Function, suffix string) []ssa.Instruction {
	var out []ssa.Instruction
	for _, f := range withAnon(fn) {
		allInstrs(f, func(i ssa.Instruction) {
			if cc := callCommon(i); cc != nil {
				if cc.IsInvoke() && "."+cc.Method.Name() == suffix || !cc.IsInvoke() && strings.HasSuffix(commonName(cc), suffix) {
					out = append(out, i)
				}
			}
		})
	}
	return out
}

// c08ErrorBody (C08.R3b): the helper that writes piko's own error answers
// sets the status it was given before writing the body.
func c08ErrorBody(c *Ctx) {
	p := c.P
	n := 0
	for _, fn := range p.ModFuncs {
		if isTestFile(p.Fset, fn.Pos()) || baseName(fn) != "errorResponse" || fn.Parent() != nil || len(fn.Params) < 2 {
			continue
		}
		n++
		c.analysed(fnName(fn))
		w, code := ssa.Value(fn.Params[0]), ssa.Value(fn.Params[1])
		isWH := func(i ssa.Instruction) bool {
			cc := callCommon(i)
			return cc != nil && cc.IsInvoke() && cc.Method.Name() == "WriteHeader" && strip(cc.Value) == w && len(cc.Args) == 1 && strip(cc.Args[0]) == code
		}
		writesBody := func(i ssa.Instruction) bool {
			cc := callCommon(i)
			if cc == nil {
				return false
			}
			if cc.IsInvoke() && cc.Method.Name() == "Write" && strip(cc.Value) == w {
				return true
			}
			n := commonName(cc)
			return strings.HasSuffix(n, "json.Encoder).Encode") || n == "fmt.Fprint" || n == "fmt.Fprintf" || n == "io.WriteString"
		}
		end := everyPathEntry(fn, isWH, writesBody, true)
		c.check(end == nil, "C08.R3", fnName(fn)+"/writes-given-status", fn.Pos(), "w.WriteHeader(statusCode) precedes the body on every path", "the error helper does not write the status code it was given before the body: the client sees 200 with an error body")
	}
	if p.Func("server/proxy", "errorResponse") == nil || n == 0 {
		c.fail("C08.R3", "errorResponse-helper", token.NoPos, "the proxy's errorResponse helper was not found")
	}
}

// c01HostSelection (C01.R8): the host the endpoint id is derived from is
// SplitHostPort's host when the Host header carries a port and the Host header
// itself when it does not (SplitHostPort fails) - not the other way round.
func c01HostSelection(c *Ctx) {
	p := c.P
	fn := p.Func(pxPkg, "EndpointIDFromRequest")
	if fn == nil {
		c.fail("C01.anchor", "EndpointIDFromRequest", token.NoPos, "not found")
		return
	}
	fs := computeFacts(fn)
	var split *ssa.Call
	allInstrs(fn, func(i ssa.Instruction) {
		if cl, ok := i.(*ssa.Call); ok && commonName(&cl.Call) == "net.SplitHostPort" {
			split = cl
		}
	})
	if split == nil {
		return // no port stripping: nothing to select
	}
	isErr := func(v ssa.Value) bool {
		ex, ok := strip(v).(*ssa.Extract)
		return ok && ex.Tuple == ssa.Value(split) && ex.Index == 2
	}
	bad := ""
	n := 0
	allInstrs(fn, func(i ssa.Instruction) {
		ph, ok := i.(*ssa.Phi)
		if !ok {
			return
		}
		hasSplit := false
		for _, e := range ph.Edges {
			if ex, ok := strip(e).(*ssa.Extract); ok && ex.Tuple == ssa.Value(split) && ex.Index == 0 {
				hasSplit = true
			}
		}
		if !hasSplit {
			return
		}
		n++
		for k, e := range ph.Edges {
			facts := fs.OnEdge(ph.Block().Preds[k], ph.Block())
			if ex, ok := strip(e).(*ssa.Extract); ok && ex.Tuple == ssa.Value(split) && ex.Index == 0 {
				if !anyFact(facts, func(f Fact) bool { return cmpFact(f, token.EQL, isErr, isNilConst) }) {
					bad = "the split host is used although SplitHostPort failed"
				}
				continue
			}
			if !strings.HasSuffix(path(e), ".&Host") || !anyFact(facts, func(f Fact) bool { return cmpFact(f, token.NEQ, isErr, isNilConst) }) {
				bad = "the fallback is not the Host header under a failed SplitHostPort"
			}
		}
	})
	c.check(bad == "" && n > 0, "C01.R8", fnName(fn)+"/host-selection", split.Pos(), "split host when a port is present, the Host header otherwise", "the host the endpoint id is taken from is selected the wrong way round: "+bad+" (requests whose Host header has no port - or has one - are answered 400 although their endpoint is served)")
}

// c08NodeDial (C08.R6): the TLS leg to another node is established with an API
// that derives the server name from the dial address (tls.Dial, DialWithDialer,
// (*tls.Dialer).DialContext), or - if tls.Client is used on a raw connection -
// with a configuration whose ServerName is set on every path. tls.Client leaves
// ServerName empty, the handshake fails verification, and every forwarded
// request answers 502 although the upstream is healthy.
func c08NodeDial(c *Ctx) {
	p := c.P
	n := 0
	for _, fn := range pkgFuncs(p, "server/upstream", "server/proxy") {
		allInstrs(fn, func(i ssa.Instruction) {
			cl, ok := i.(*ssa.Call)
			if !ok {
				return
			}
			name := commonName(&cl.Call)
			switch name {
			case "crypto/tls.Dial", "crypto/tls.DialWithDialer", "(*crypto/tls.Dialer).DialContext", "(*crypto/tls.Dialer).Dial":
				n++
				c.ok("C08.R6", fnName(fn)+"/tls-dial", cl.Pos(), "server name derived from the dial address")
			case "crypto/tls.Client":
				n++
				// the config argument must have had ServerName stored on it in this function
				named := false
				cfg := strip(cl.Call.Args[1])
				allInstrs(fn, func(j ssa.Instruction) {
					st, ok := j.(*ssa.Store)
					if !ok {
						return
					}
					if fa, ok := st.Addr.(*ssa.FieldAddr); ok {
						if fv, _ := fieldVarOf(fa); fv != nil && fv.Name() == "ServerName" && strip(fa.X) == cfg && dominatesInstr(st, cl) {
							named = true
						}
					}
				})
				c.check(named, "C08.R6", fnName(fn)+"/tls-client-server-name", cl.Pos(), "ServerName set on the configuration before tls.Client", "tls.Client is used on a raw connection with a configuration whose ServerName is not set here: unlike tls.Dial it does not derive the name from the address, so certificate verification fails and forwarded requests answer 502")
			}
		})
	}
	if n == 0 {
		c.fail("C08.R6", "node-dial", token.NoPos, "no TLS dial to another node found")
	}
}
