package main

import (
	"fmt"
	"go/token"
	"go/types"
	"strings"

	"golang.org/x/tools/go/ssa"
)

const gsPkg = "pkg/gossip"

// gossipAnchors resolves the objects of pkg/gossip the state rules talk about.
type gossipAnchors struct {
	p                                           *Prog
	nodesF, localIDF, watcherF, fdF             *types.Var // clusterState fields
	entriesF, metaF                             *types.Var // nodeState fields
	idF, addrF, versionF, leftF, unreachF, expF *types.Var // NodeMetadata fields
	eKey, eValue, eVersion, eInternal, eDeleted *types.Var // Entry fields
	nodeStateT, metaT, entryT, clusterStateT    *types.Named
	leftKey, compactKey                         string
	ok                                          bool
	missing                                     string
	depth                                       int
}

func commonNameOfFn(f *ssa.Function) string {
	if f.Object() != nil {
		return f.Object().(*types.Func).FullName()
	}
	return f.String()
}

func newGossipAnchors(p *Prog) *gossipAnchors {
	g := &gossipAnchors{p: p}
	get := func(t, f string) *types.Var {
		v := p.Field(gsPkg, t, f)
		if v == nil {
			g.missing += " " + t + "." + f
		}
		return v
	}
	g.nodesF, g.localIDF = get("clusterState", "nodes"), get("clusterState", "localID")
	g.watcherF, g.fdF = get("clusterState", "watcher"), get("clusterState", "failureDetector")
	g.entriesF, g.metaF = get("nodeState", "Entries"), get("nodeState", "NodeMetadata")
	g.idF, g.addrF, g.versionF = get("NodeMetadata", "ID"), get("NodeMetadata", "Addr"), get("NodeMetadata", "Version")
	g.leftF, g.unreachF, g.expF = get("NodeMetadata", "Left"), get("NodeMetadata", "Unreachable"), get("NodeMetadata", "Expiry")
	g.eKey, g.eValue, g.eVersion = get("Entry", "Key"), get("Entry", "Value"), get("Entry", "Version")
	g.eInternal, g.eDeleted = get("Entry", "Internal"), get("Entry", "Deleted")
	g.nodeStateT, g.metaT = p.NamedType(gsPkg, "nodeState"), p.NamedType(gsPkg, "NodeMetadata")
	g.entryT, g.clusterStateT = p.NamedType(gsPkg, "Entry"), p.NamedType(gsPkg, "clusterState")
	if sp := p.Pkg(gsPkg); sp != nil {
		for name, dst := range map[string]*string{"leftKey": &g.leftKey, "compactKey": &g.compactKey} {
			if c := sp.Const(name); c != nil {
				if s, ok := constString(c.Value); ok {
					*dst = s
				}
			} else {
				g.missing += " const " + name
			}
		}
	} else {
		g.missing += " package " + gsPkg
	}
	g.ok = g.missing == "" && g.nodeStateT != nil && g.metaT != nil && g.entryT != nil && g.clusterStateT != nil
	return g
}

// stateFuncs: non-test methods of clusterState (and closures inside them).
func (g *gossipAnchors) stateFuncs() []*ssa.Function {
	var out []*ssa.Function
	for _, f := range methodsOf(g.p, gsPkg, "clusterState") {
		out = append(out, f)
	}
	return out
}

// isLocalState: v is s.nodes[s.localID].
func (g *gossipAnchors) isLocalState(v ssa.Value) bool {
	v = strip(v)
	if ex, ok := v.(*ssa.Extract); ok && ex.Index == 0 {
		v = ex.Tuple
	}
	lk, ok := v.(*ssa.Lookup)
	if !ok {
		return false
	}
	if _, ok := loadedField(lk.X, g.nodesF); !ok {
		return false
	}
	_, ok = loadedField(lk.Index, g.localIDF)
	return ok
}

// nodesLookupKey: v is s.nodes[K] (either form); returns K and the lookup.
func (g *gossipAnchors) nodesLookup(v ssa.Value) (ssa.Value, *ssa.Lookup, bool) {
	v = strip(v)
	if ex, ok := v.(*ssa.Extract); ok && ex.Index == 0 {
		v = ex.Tuple
	}
	lk, ok := v.(*ssa.Lookup)
	if !ok {
		return nil, nil, false
	}
	if _, ok := loadedField(lk.X, g.nodesF); !ok {
		return nil, nil, false
	}
	return lk.Index, lk, true
}

// stateRootOfAddr: addr is &R.NodeMetadata.f or &R.f or &R.Entries; returns R.
func (g *gossipAnchors) stateRootOfAddr(addr ssa.Value) (root ssa.Value, field *types.Var, ok bool) {
	fa, isFA := addr.(*ssa.FieldAddr)
	if !isFA {
		return nil, nil, false
	}
	fv, base := fieldVarOf(fa)
	switch fv {
	case g.entriesF:
		return base, fv, true
	case g.metaF:
		return base, fv, true
	case g.idF, g.addrF, g.versionF, g.leftF, g.unreachF, g.expF:
		// base is &R.NodeMetadata (or a local NodeMetadata being initialised)
		if inner, ok := base.(*ssa.FieldAddr); ok {
			if iv, ib := fieldVarOf(inner); iv == g.metaF {
				return ib, fv, true
			}
		}
		return base, fv, true
	}
	return nil, nil, false
}

type gWrite struct {
	fn    *ssa.Function
	instr ssa.Instruction
	kind  string // field:<name> | entries-update | entries-delete | entries-reset | nodes-insert | nodes-delete
	root  ssa.Value
	key   ssa.Value
	val   ssa.Value
	// an insertion performed by an unexported helper under its key parameter (addNode(id, addr)) is judged
	// where the helper is called: `lifted` marks the synthetic write at the call site (key = the argument,
	// val = the call), `inHelper` the real one inside the helper. Guard rules use the former, pairing rules
	// (insert followed by OnJoin) the latter.
	lifted   bool
	inHelper bool
}

// insertHelperKey: fn is an unexported function that stores a fresh node into the table under one of its own
// parameters; returns that parameter's index.
func (g *gossipAnchors) insertHelperKey(fn *ssa.Function) (int, bool) {
	if fn == nil || fn.Blocks == nil || fn.Object() == nil || fn.Object().Exported() || strings.HasPrefix(fn.Name(), "new") {
		return 0, false
	}
	idx, found := 0, false
	allInstrs(fn, func(i ssa.Instruction) {
		mu, ok := i.(*ssa.MapUpdate)
		if !ok {
			return
		}
		if _, ok := loadedField(mu.Map, g.nodesF); !ok {
			return
		}
		if pv, ok := strip(mu.Key).(*ssa.Parameter); ok {
			for k, pp := range fn.Params {
				if pp == pv {
					idx, found = k, true
				}
			}
		}
	})
	return idx, found
}

func (w gWrite) String() string { return w.kind }

// writes lists every write to gossip cluster state in fn.
func (g *gossipAnchors) writes(fn *ssa.Function) []gWrite {
	var out []gWrite
	allInstrs(fn, func(i ssa.Instruction) {
		switch x := i.(type) {
		case *ssa.Store:
			if root, fv, ok := g.stateRootOfAddr(x.Addr); ok {
				k := "field:" + fv.Name()
				if fv == g.entriesF {
					k = "entries-reset"
				}
				out = append(out, gWrite{fn: fn, instr: i, kind: k, root: root, key: nil, val: x.Val})
			}
		case *ssa.MapUpdate:
			if base, ok := loadedField(x.Map, g.entriesF); ok {
				out = append(out, gWrite{fn: fn, instr: i, kind: "entries-update", root: base, key: x.Key, val: x.Value})
			} else if _, ok := loadedField(x.Map, g.nodesF); ok {
				_, helper := g.insertHelperKey(fn)
				_, keyIsParam := strip(x.Key).(*ssa.Parameter)
				out = append(out, gWrite{fn: fn, instr: i, kind: "nodes-insert", root: x.Value, key: x.Key, val: x.Value, inHelper: helper && keyIsParam})
			}
		case *ssa.Call:
			if sc := x.Call.StaticCallee(); sc != nil && inModule(sc) {
				if idx, ok := g.insertHelperKey(sc); ok && idx < len(x.Call.Args) {
					out = append(out, gWrite{fn: fn, instr: i, kind: "nodes-insert", root: x, key: x.Call.Args[idx], val: x, lifted: true})
				}
			}
			if b, ok := x.Call.Value.(*ssa.Builtin); ok && b.Name() == "delete" {
				if base, ok := loadedField(x.Call.Args[0], g.entriesF); ok {
					out = append(out, gWrite{fn: fn, instr: i, kind: "entries-delete", root: base, key: x.Call.Args[1], val: nil})
				} else if _, ok := loadedField(x.Call.Args[0], g.nodesF); ok {
					out = append(out, gWrite{fn: fn, instr: i, kind: "nodes-delete", root: nil, key: x.Call.Args[1], val: nil})
				}
			}
		}
	})
	return out
}

// rootClass classifies the node-state object a write goes to.
//
//	local   : s.nodes[s.localID]
//	fresh   : an object allocated in this function (being initialised)
//	remote  : provably not the local node, by one of the accepted guard forms
//	unknown : none of the above
func (g *gossipAnchors) rootClass(root ssa.Value, at ssa.Instruction, fs *Facts) (string, string) {
	facts := fs.At(at.Block())
	seen := map[ssa.Value]bool{}
	var rec func(v ssa.Value) (string, string)
	rec = func(v ssa.Value) (string, string) {
		v = strip(v)
		if seen[v] {
			return "fresh", "cycle"
		}
		seen[v] = true
		if g.isLocalState(v) {
			return "local", "s.nodes[s.localID]"
		}
		switch x := v.(type) {
		case *ssa.Alloc:
			return "fresh", "allocated here"
		case *ssa.Call:
			if _, _, ok := g.freshNodeFields(x, 0); ok {
				return "fresh", "allocated by a constructor helper"
			}
		case *ssa.Parameter:
			// helper taking the state object: classify at every call site
			fn := x.Parent()
			idx := -1
			for i, pp := range fn.Params {
				if pp == x {
					idx = i
				}
			}
			if idx < 0 || g.depth > 2 {
				return "unknown", "state object passed as a parameter (summary depth exceeded)"
			}
			cls, why := "", ""
			n := 0
			for _, caller := range g.p.ModFuncs {
				if isTestFile(g.p.Fset, caller.Pos()) {
					continue
				}
				for _, in := range findCalls(caller, commonNameOfFn(fn)) {
					cc := callCommon(in)
					if cc.StaticCallee() != fn || idx >= len(cc.Args) {
						continue
					}
					n++
					g.depth++
					cc2, w2 := g.rootClass(cc.Args[idx], in, computeFacts(caller))
					g.depth--
					if cls == "" {
						cls, why = cc2, w2+" (at call from "+fnName(caller)+")"
					} else if cls != cc2 {
						return "unknown", "helper " + fnName(fn) + " is called with a " + cls + " state and with a " + cc2 + " state (from " + fnName(caller) + "): a write inside it reaches both"
					}
				}
			}
			if n == 0 {
				return "unknown", "state object is a parameter of a function with no static caller"
			}
			return cls, why
		case *ssa.Phi:
			cls, why := "", ""
			for _, e := range x.Edges {
				c, w := rec(e)
				if c == "fresh" {
					if cls == "" {
						cls, why = c, w
					}
					continue
				}
				if cls == "" || cls == "fresh" {
					cls, why = c, w
				} else if cls != c {
					return "unknown", "phi mixes " + cls + " and " + c
				}
			}
			return cls, why
		}
		// field-based guard: R.ID == s.localID is false
		if anyFact(facts, func(f Fact) bool {
			return cmpFact(f, token.NEQ, func(a ssa.Value) bool {
				b, ok := loadedField(a, g.idF)
				if !ok {
					return false
				}
				if inner, ok := b.(*ssa.FieldAddr); ok {
					if iv, ib := fieldVarOf(inner); iv == g.metaF {
						b = ib
					}
				}
				return strip(b) == v
			}, func(a ssa.Value) bool { _, ok := loadedField(a, g.localIDF); return ok })
		}) {
			return "remote", "guarded by R.ID != s.localID"
		}
		if k, lk, ok := g.nodesLookup(v); ok {
			_ = lk
			// key-based guard: K == s.localID is false
			if anyFact(facts, func(f Fact) bool {
				return cmpFact(f, token.NEQ, func(a ssa.Value) bool { return sameValue(a, k) },
					func(a ssa.Value) bool { _, ok := loadedField(a, g.localIDF); return ok })
			}) {
				return "remote", "guarded by key != s.localID"
			}
			return "unknown", "s.nodes[" + path(k) + "] without a guard excluding the local id; facts " + factStrings(facts)
		}
		return "unknown", "state object of unrecognised origin " + path(v) + "; facts " + factStrings(facts)
	}
	return rec(root)
}

// ---------- bounded path enumeration ----------

type fpath struct {
	facts  []Fact
	seen   []ssa.Instruction // interesting instructions met, in order
	end    ssa.Instruction
	endWhy string // return | panic | stop | loop
}

// enumPaths enumerates acyclic paths starting after `start`. A path ends at a
// Return/Panic, at an instruction for which stop() holds, or when it would
// re-enter a block already on the path. done(path-so-far) may cut a path early.
func enumPaths(start ssa.Instruction, interesting, stop func(ssa.Instruction) bool, done func(*fpath) bool, max int) ([]fpath, bool) {
	return enumPathsAt(start.Block(), indexOf(start)+1, interesting, stop, done, max)
}

// enumPathsAt starts at instruction idx of block b0 (inclusive).
func enumPathsAt(b0 *ssa.BasicBlock, idx0 int, interesting, stop func(ssa.Instruction) bool, done func(*fpath) bool, max int) ([]fpath, bool) {
	var out []fpath
	overflow := false
	var walk func(b *ssa.BasicBlock, idx int, cur fpath, on map[*ssa.BasicBlock]bool)
	walk = func(b *ssa.BasicBlock, idx int, cur fpath, on map[*ssa.BasicBlock]bool) {
		if overflow {
			return
		}
		for i := idx; i < len(b.Instrs); i++ {
			in := b.Instrs[i]
			if stop != nil && stop(in) {
				cur.end, cur.endWhy = in, "stop"
				out = append(out, cur)
				return
			}
			if interesting != nil && interesting(in) {
				cur.seen = append(append([]ssa.Instruction(nil), cur.seen...), in)
				if done != nil && done(&cur) {
					cur.end, cur.endWhy = in, "done"
					out = append(out, cur)
					return
				}
			}
			switch in.(type) {
			case *ssa.Return:
				cur.end, cur.endWhy = in, "return"
				out = append(out, cur)
				return
			case *ssa.Panic:
				cur.end, cur.endWhy = in, "panic"
				out = append(out, cur)
				return
			}
		}
		if len(out) > max {
			overflow = true
			return
		}
		for _, s := range b.Succs {
			nc := cur
			nc.facts = append([]Fact(nil), cur.facts...)
			if ef, ok := edgeFact(b, s); ok {
				nc.facts = append(nc.facts, ef)
			}
			if on[s] {
				nc.end, nc.endWhy = s.Instrs[0], "loop"
				out = append(out, nc)
				continue
			}
			if done != nil && done(&nc) {
				nc.end, nc.endWhy = s.Instrs[0], "done"
				out = append(out, nc)
				continue
			}
			on2 := map[*ssa.BasicBlock]bool{}
			for k := range on {
				on2[k] = true
			}
			on2[s] = true
			walk(s, 0, nc, on2)
		}
	}
	on := map[*ssa.BasicBlock]bool{b0: true}
	walk(b0, idx0, fpath{}, on)
	return out, !overflow
}

// loadsFieldOfAlloc: v is a load of field f of the local struct variable a
// (or of a value identical to it).
func loadOfAllocField(v ssa.Value, a ssa.Value, f *types.Var) bool {
	base, ok := loadedField(v, f)
	return ok && strip(base) == strip(a)
}

// entryVarOf: the local Entry variable (Alloc) whose load is v, or the value
// itself when it is not a load of a local.
func entryVarOf(v ssa.Value) ssa.Value {
	if u, ok := strip(v).(*ssa.UnOp); ok && u.Op == token.MUL {
		if a, ok := u.X.(*ssa.Alloc); ok {
			return a
		}
	}
	return strip(v)
}

func watcherCall(g *gossipAnchors, i ssa.Instruction) (string, []ssa.Value, bool) {
	c, ok := i.(*ssa.Call)
	if !ok || !c.Call.IsInvoke() {
		return "", nil, false
	}
	if _, ok := loadedField(c.Call.Value, g.watcherF); !ok {
		return "", nil, false
	}
	return c.Call.Method.Name(), c.Call.Args, true
}

func describe(p *Prog, i ssa.Instruction) string {
	return fmt.Sprintf("%s@%s", i.String(), p.pos(i.Pos()))
}
