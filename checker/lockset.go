package main

import (
	"go/types"
	"sort"
	"strings"

	"golang.org/x/tools/go/ssa"
)

// Locksets (LS): one abstract lock per mutex *field*.

type lockSet map[*types.Var]bool

func (s lockSet) clone() lockSet {
	n := lockSet{}
	for k := range s {
		n[k] = true
	}
	return n
}
func (s lockSet) equal(o lockSet) bool {
	if len(s) != len(o) {
		return false
	}
	for k := range s {
		if !o[k] {
			return false
		}
	}
	return true
}
func (s lockSet) names() string {
	var n []string
	for k := range s {
		n = append(n, lockName(k))
	}
	sort.Strings(n)
	return "{" + strings.Join(n, ",") + "}"
}

var lockOwners = map[*types.Var]string{}

func lockName(v *types.Var) string {
	if o, ok := lockOwners[v]; ok {
		return o + "." + v.Name()
	}
	return v.Name()
}

type lockOp struct {
	f       *types.Var
	acquire bool
	read    bool
	base    ssa.Value
}

var lockMethods = map[string][2]bool{ // name -> {acquire, read}
	"(*sync.Mutex).Lock":      {true, false},
	"(*sync.Mutex).Unlock":    {false, false},
	"(*sync.RWMutex).Lock":    {true, false},
	"(*sync.RWMutex).Unlock":  {false, false},
	"(*sync.RWMutex).RLock":   {true, true},
	"(*sync.RWMutex).RUnlock": {false, true},
}

func lockOpOf(i ssa.Instruction) (lockOp, bool) {
	cc := callCommon(i)
	if cc == nil {
		return lockOp{}, false
	}
	m, ok := lockMethods[commonName(cc)]
	if !ok || len(cc.Args) == 0 {
		return lockOp{}, false
	}
	fa, ok := cc.Args[0].(*ssa.FieldAddr)
	if !ok {
		return lockOp{}, false
	}
	fv, base := fieldVarOf(fa)
	if owner := ownerTypeName(fa.X.Type()); owner != "" {
		lockOwners[fv] = owner
	}
	return lockOp{f: fv, acquire: m[0], read: m[1], base: base}, true
}

func ownerTypeName(t types.Type) string {
	if p, ok := t.Underlying().(*types.Pointer); ok {
		t = p.Elem()
	}
	if n, ok := t.(*types.Named); ok {
		pk := ""
		if n.Obj().Pkg() != nil {
			pk = strings.TrimPrefix(n.Obj().Pkg().Path(), modPath+"/") + "."
		}
		return pk + n.Obj().Name()
	}
	return ""
}

// LockInfo is the result of the lockset analysis over module functions.
type LockInfo struct {
	p *Prog
	// per instruction: locks certainly / possibly held just before it executes
	must map[ssa.Instruction]lockSet
	may  map[ssa.Instruction]lockSet
	// per instruction: locks that may be held in shared (RLock) mode only
	shared      map[ssa.Instruction]lockSet
	entryShared map[*ssa.Function]lockSet
	// per function entry
	entryMust map[*ssa.Function]lockSet
	entryMay  map[*ssa.Function]lockSet
	// direct acquisitions per function
	acquires map[*ssa.Function]lockSet
	// unlocks of a lock not in the may-held set (pairing violations)
	badUnlock []ssa.Instruction
	// returns reached with a lock in may-held that was not held at entry
	leaks []ssa.Instruction
	funcs []*ssa.Function
}

// synchronous higher-order callees: a closure passed to these runs before the
// call returns, on the calling goroutine.
var syncHOF = map[string]bool{
	"sort.Slice": true, "sort.SliceStable": true, "math/rand.Shuffle": true,
	"slices.SortFunc": true, "slices.IndexFunc": true, "slices.ContainsFunc": true,
	"(*sync.Once).Do": true,
}

var lockMemo = map[*Prog]*LockInfo{}

// computeLocks is memoised per loaded program (several properties use it).
func computeLocks(p *Prog) *LockInfo {
	if li, ok := lockMemo[p]; ok {
		return li
	}
	li := computeLocksUncached(p)
	lockMemo[p] = li
	return li
}

func computeLocksUncached(p *Prog) *LockInfo {
	li := &LockInfo{p: p,
		must: map[ssa.Instruction]lockSet{}, may: map[ssa.Instruction]lockSet{},
		entryMust: map[*ssa.Function]lockSet{}, entryMay: map[*ssa.Function]lockSet{},
		acquires: map[*ssa.Function]lockSet{},
		shared:   map[ssa.Instruction]lockSet{}, entryShared: map[*ssa.Function]lockSet{},
	}
	for _, f := range p.ModFuncs {
		if len(f.Blocks) == 0 || isTestFile(p.Fset, f.Pos()) {
			continue
		}
		li.funcs = append(li.funcs, f)
	}
	// call sites per callee (module-internal, synchronous)
	type csite struct {
		in   ssa.Instruction
		sync bool
	}
	sites := map[*ssa.Function][]csite{}
	external := map[*ssa.Function]bool{} // may be entered with nothing known
	inSet := map[*ssa.Function]bool{}
	for _, f := range li.funcs {
		inSet[f] = true
	}
	for _, f := range li.funcs {
		n := p.CG.Nodes[f]
		if n == nil {
			external[f] = true
			continue
		}
		if len(n.In) == 0 {
			external[f] = true
		}
		for _, e := range n.In {
			caller := e.Caller.Func
			if caller == nil || !inSet[caller] {
				// called from library code (callbacks) or tests
				if caller != nil && isTestFile(p.Fset, caller.Pos()) {
					continue
				}
				if f.Parent() != nil && closureIsSyncArg(f) {
					continue // handled through the creation site below
				}
				external[f] = true
				continue
			}
			switch e.Site.(type) {
			case *ssa.Go:
				external[f] = true
			case *ssa.Defer:
				// runs at function exit: conservatively nothing known
				sites[f] = append(sites[f], csite{e.Site, false})
			default:
				sites[f] = append(sites[f], csite{e.Site, true})
			}
		}
		// exported methods and functions are API: callable with nothing held
		if f.Parent() == nil && f.Object() != nil && f.Object().Exported() && f.Synthetic == "" && recvExported(f) {
			external[f] = true
		}
		if f.Synthetic != "" {
			external[f] = true
		}
	}
	// closures passed synchronously inherit the lockset at their creation site
	closureSite := map[*ssa.Function]ssa.Instruction{}
	for _, f := range li.funcs {
		allInstrs(f, func(i ssa.Instruction) {
			if mc, ok := i.(*ssa.MakeClosure); ok {
				if fn, ok := mc.Fn.(*ssa.Function); ok && closureIsSyncArg(fn) {
					closureSite[fn] = i
				}
			}
		})
	}
	for iter := 0; iter < 20; iter++ {
		changed := false
		for _, f := range li.funcs {
			var em, ey lockSet
			es := lockSet{}
			if cs, ok := closureSite[f]; ok {
				em, ey = li.must[cs], li.may[cs]
				if em == nil {
					em, ey = lockSet{}, lockSet{}
				}
				for k := range li.shared[cs] {
					es[k] = true
				}
			} else {
				ey = lockSet{}
				first := true
				if external[f] {
					em = lockSet{}
					first = false
				}
				for _, s := range sites[f] {
					sm, sy := li.must[s.in], li.may[s.in]
					if !s.sync {
						sm = lockSet{}
					}
					if sm == nil {
						continue // caller not analysed yet
					}
					if first {
						em = sm.clone()
						first = false
					} else {
						for k := range em {
							if !sm[k] {
								delete(em, k)
							}
						}
					}
					for k := range sy {
						ey[k] = true
					}
					if s.sync {
						for k := range li.shared[s.in] {
							es[k] = true
						}
					}
				}
				if em == nil {
					em = lockSet{}
				}
			}
			if old, ok := li.entryMust[f]; !ok || !old.equal(em) || !li.entryMay[f].equal(ey) || !li.entryShared[f].equal(es) {
				li.entryMust[f], li.entryMay[f], li.entryShared[f] = em.clone(), ey.clone(), es
				changed = true
			}
			li.flow(f)
		}
		if !changed && iter > 0 {
			break
		}
	}
	// final pass: collect pairing problems
	for _, f := range li.funcs {
		li.collect(f)
	}
	return li
}

func closureIsSyncArg(fn *ssa.Function) bool {
	if fn.Parent() == nil {
		return false
	}
	okAll := false
	allInstrs(fn.Parent(), func(i ssa.Instruction) {
		mc, ok := i.(*ssa.MakeClosure)
		if !ok || mc.Fn != ssa.Value(fn) {
			return
		}
		refs := *mc.Referrers()
		if len(refs) == 0 {
			return
		}
		all := true
		for _, r := range refs {
			c, ok := r.(*ssa.Call)
			if !ok {
				if _, dbg := r.(*ssa.DebugRef); dbg {
					continue
				}
				all = false
				continue
			}
			if !syncHOF[commonName(&c.Call)] {
				all = false
			}
		}
		okAll = all
	})
	return okAll
}

func (li *LockInfo) flow(f *ssa.Function) {
	inMust := map[*ssa.BasicBlock]lockSet{}
	inMay := map[*ssa.BasicBlock]lockSet{}
	reach := reachableBlocks(f)
	inMust[f.Blocks[0]] = li.entryMust[f].clone()
	inMay[f.Blocks[0]] = li.entryMay[f].clone()
	for k := range inMust[f.Blocks[0]] {
		inMay[f.Blocks[0]][k] = true
	}
	acq := lockSet{}
	work := []*ssa.BasicBlock{f.Blocks[0]}
	outMust := map[*ssa.BasicBlock]lockSet{}
	outMay := map[*ssa.BasicBlock]lockSet{}
	inSh := map[*ssa.BasicBlock]lockSet{f.Blocks[0]: li.entryShared[f].clone()}
	outSh := map[*ssa.BasicBlock]lockSet{}
	for len(work) > 0 {
		b := work[0]
		work = work[1:]
		m, y := inMust[b].clone(), inMay[b].clone()
		sh := inSh[b].clone()
		for _, in := range b.Instrs {
			li.must[in], li.may[in] = m.clone(), y.clone()
			li.shared[in] = sh.clone()
			if _, isDefer := in.(*ssa.Defer); isDefer {
				continue // deferred unlock: held to exit
			}
			if _, isGo := in.(*ssa.Go); isGo {
				continue
			}
			if op, ok := lockOpOf(in); ok {
				if op.acquire {
					m[op.f], y[op.f] = true, true
					acq[op.f] = true
					if op.read {
						sh[op.f] = true
					} else {
						delete(sh, op.f)
					}
				} else {
					delete(m, op.f)
					delete(y, op.f)
					delete(sh, op.f)
				}
			}
		}
		outMust[b], outMay[b], outSh[b] = m, y, sh
		for _, s := range b.Succs {
			if !reach[s] || s == f.Recover {
				continue
			}
			nm, ny := lockSet(nil), lockSet{}
			ns := lockSet{}
			for _, p := range s.Preds {
				pm, ok := outMust[p]
				if !ok {
					continue
				}
				for k := range outSh[p] {
					ns[k] = true
				}
				if nm == nil {
					nm = pm.clone()
				} else {
					for k := range nm {
						if !pm[k] {
							delete(nm, k)
						}
					}
				}
				for k := range outMay[p] {
					ny[k] = true
				}
			}
			if nm == nil {
				nm = lockSet{}
			}
			if old, ok := inMust[s]; !ok || !old.equal(nm) || !inMay[s].equal(ny) || !inSh[s].equal(ns) {
				inMust[s], inMay[s], inSh[s] = nm, ny, ns
				work = append(work, s)
			}
		}
	}
	li.acquires[f] = acq
}

func (li *LockInfo) collect(f *ssa.Function) {
	// deferred unlocks, per lock: a return releases the lock only if one of them was executed on the way
	deferredBy := map[*types.Var][]ssa.Instruction{}
	allInstrs(f, func(in ssa.Instruction) {
		if d, ok := in.(*ssa.Defer); ok {
			if op, ok := lockOpOf(d); ok && !op.acquire {
				deferredBy[op.f] = append(deferredBy[op.f], in)
			}
		}
	})
	deferredAt := func(k *types.Var, r *ssa.Return) bool {
		ds := deferredBy[k]
		if len(ds) == 0 {
			return false
		}
		// some path from the entry reaches r without executing any of the deferred unlocks: not released there
		return len(f.Blocks) > 0 && !blockReachesAvoiding(f.Blocks[0], r, ds)
	}
	allInstrs(f, func(in ssa.Instruction) {
		if _, isDefer := in.(*ssa.Defer); isDefer {
			return
		}
		if op, ok := lockOpOf(in); ok && !op.acquire {
			if !li.may[in][op.f] {
				li.badUnlock = append(li.badUnlock, in)
			}
		}
		if r, ok := in.(*ssa.Return); ok {
			for k := range li.may[r] {
				if !deferredAt(k, r) && !li.entryMay[f][k] {
					li.leaks = append(li.leaks, in)
					break
				}
			}
		}
	})
}

// transAcquires: locks that may be acquired by f or anything it may call.
func (li *LockInfo) transAcquires(f *ssa.Function) map[*types.Var]*ssa.Function {
	out := map[*types.Var]*ssa.Function{}
	reach := li.p.reachFrom([]*ssa.Function{f}, nil)
	for g := range reach {
		for k := range li.acquires[g] {
			if _, ok := out[k]; !ok {
				out[k] = g
			}
		}
	}
	return out
}

// recvExported: a method is callable from outside its package only when its
// receiver's named type is exported too (package-level functions: always).
func recvExported(f *ssa.Function) bool {
	r := f.Signature.Recv()
	if r == nil {
		return true
	}
	t := r.Type()
	if p, ok := t.(*types.Pointer); ok {
		t = p.Elem()
	}
	if n, ok := t.(*types.Named); ok {
		// unexported types reach other packages only through interfaces; those calls are in the call graph
		return n.Obj().Exported()
	}
	return true
}
