package main

import (
	"fmt"
	"go/token"
	"go/types"
	"sort"
	"strings"

	"golang.org/x/tools/go/ssa"
)

// Error discipline (rule template of Engler et al.'s "stated belief" form):
// once a function tests an error value against nil, the two arms must be the
// right way round:
//   - every use of the error other than the test itself (wrapping, logging,
//     errors.Is) sits on the `e != nil` side;
//   - in a function that itself returns an error, no path that starts on the
//     `e != nil` side ends in `return …, nil`, unless it passed a sentinel test
//     (errors.Is(e, X) or e == X) that excuses it.
//
// The rule is keyed per function (not per call), so inserting or removing an
// error-returning call does not rename obligations.
func errDiscipline(c *Ctx, rule string, fns []*ssa.Function, floor int) {
	p := c.P
	errT := types.Universe.Lookup("error").Type()
	isErr := func(t types.Type) bool { return types.Identical(t, errT) }
	if floor > 0 {
		c.floor(rule, floor)
	}
	sort.Slice(fns, func(i, j int) bool { return fnName(fns[i]) < fnName(fns[j]) })
	for _, top := range fns {
		for _, fn := range withAnon(top) {
			if fn.Blocks == nil {
				continue
			}
			var errs []ssa.Value
			allInstrs(fn, func(i ssa.Instruction) {
				switch x := i.(type) {
				case *ssa.Call:
					if isErr(x.Type()) {
						errs = append(errs, x)
					}
				case *ssa.Extract:
					if isErr(x.Type()) {
						if _, ok := x.Tuple.(*ssa.Call); ok {
							errs = append(errs, x)
						}
					}
				}
			})
			if len(errs) == 0 {
				continue
			}
			c.analysed(fnName(fn))
			fs := computeFacts(fn)
			retErr := false
			if res := fn.Signature.Results(); res.Len() > 0 && isErr(res.At(res.Len()-1).Type()) {
				retErr = true
			}
			bad := ""
			tested := 0
			for _, e := range errs {
				e := e
				isE := func(v ssa.Value) bool { return strip(v) == e }
				nonNil := func(f Fact) bool { return cmpFact(f, token.NEQ, isE, isNilConst) }
				var tests []*ssa.If
				for _, r := range *e.Referrers() {
					switch x := r.(type) {
					case *ssa.BinOp:
						if (x.Op == token.NEQ || x.Op == token.EQL) && (isNilConst(x.X) || isNilConst(x.Y)) {
							for _, rr := range *x.Referrers() {
								if iff, ok := rr.(*ssa.If); ok {
									tests = append(tests, iff)
								}
							}
							continue
						}
						// e == sentinel: a test, fine anywhere
					case *ssa.Phi, *ssa.Return, *ssa.DebugRef, *ssa.Store:
					default:
						_ = x
					}
				}
				if len(tests) == 0 {
					continue
				}
				tested++
				// uses on the wrong side: a use (wrapping, logging, errors.Is) where the error is known to be nil
				// contradicts the test. (A use where nothing is known - `if errors.Is(err, X) {…}; if err != nil {…}` -
				// is an accepted idiom: errors.Is(nil, X) is false.)
				isNil := func(f Fact) bool { return cmpFact(f, token.EQL, isE, isNilConst) }
				for _, r := range *e.Referrers() {
					switch r.(type) {
					case *ssa.BinOp, *ssa.Phi, *ssa.Return, *ssa.DebugRef, *ssa.Store:
						continue
					}
					if anyFact(fs.At(r.Block()), isNil) {
						bad = fmt.Sprintf("the error tested at %s is used at %s on the side where it is known to be nil (test inverted)", p.pos(tests[0].Pos()), p.pos(r.Pos()))
					}
				}
				if !retErr {
					continue
				}
				for _, iff := range tests {
					b := iff.Block()
					for k, s := range b.Succs {
						f := mkFact(iff.Cond, k == 0)
						if !nonNil(f) {
							continue
						}
						usesE := func(i ssa.Instruction) bool {
							if cl, ok := i.(*ssa.Call); ok && (commonName(&cl.Call) == "errors.Is" || commonName(&cl.Call) == "errors.As") {
								return false // a test, not a report
							}
							for _, op := range i.Operands(nil) {
								if *op != nil && strip(*op) == e {
									return true
								}
							}
							return false
						}
						paths, complete := enumPathsAt(s, 0, usesE, nil, nil, 400)
						if !complete {
							continue
						}
						for _, pa := range paths {
							if pa.endWhy != "return" || len(pa.seen) > 0 {
								// the failure was recorded or reported on the way (best-effort loops)
								continue
							}
							rv := returnValues(pa.end.(*ssa.Return))
							if len(rv) == 0 || !isNilConst(rv[len(rv)-1]) {
								continue
							}
							excused := anyFact(pa.facts, func(f Fact) bool {
								if cl, ok := f.V.(*ssa.Call); ok && f.T && (commonName(&cl.Call) == "errors.Is" || commonName(&cl.Call) == "errors.As") {
									return true
								}
								if bo, ok := f.V.(*ssa.BinOp); ok && !isNilConst(bo.X) && !isNilConst(bo.Y) && (isE(bo.X) || isE(bo.Y)) {
									return (bo.Op == token.EQL) == f.T
								}
								return false
							})
							if !excused {
								bad = fmt.Sprintf("the failure detected at %s is swallowed: a path from the `!= nil` arm returns a nil error at %s", p.pos(iff.Pos()), p.pos(pa.end.Pos()))
							}
						}
					}
				}
			}
			if tested == 0 {
				continue
			}
			name := fnName(fn)
			if fn != top {
				name = fnName(top) + "/" + strings.TrimPrefix(fn.Name(), top.Name())
			}
			c.check(bad == "", rule, name+"/error-arms", fn.Pos(), fmt.Sprintf("%d tested errors: used only where non-nil, never turned into success", tested), bad)
		}
	}
}

// rejectsMismatch: in a decoder, each comparison of a decoded scalar with a
// protocol constant sends the mismatch to an error return.
func rejectsMismatch(c *Ctx, rule string, top *ssa.Function, min int) {
	p := c.P
	n := 0
	// the decoder itself and the error-returning module helpers it calls directly
	fns := []*ssa.Function{top}
	errT := types.Universe.Lookup("error").Type()
	allInstrs(top, func(i ssa.Instruction) {
		cc := callCommon(i)
		if cc == nil {
			return
		}
		sc := cc.StaticCallee()
		if sc == nil || !inModule(sc) || sc.Blocks == nil || sc == top {
			return
		}
		res := sc.Signature.Results()
		if res.Len() == 0 || !types.Identical(res.At(res.Len()-1).Type(), errT) {
			return
		}
		for _, f := range fns {
			if f == sc {
				return
			}
		}
		fns = append(fns, sc)
	})
	// constOrConstParam: a constant, or a parameter bound to a constant at every call site
	constOrConstParam := func(fn *ssa.Function, v ssa.Value) (string, bool) {
		if cc, ok := v.(*ssa.Const); ok && !cc.IsNil() && cc.Value != nil {
			return cc.Value.ExactString(), true
		}
		pv, ok := v.(*ssa.Parameter)
		if !ok {
			return "", false
		}
		idx := -1
		for k, pp := range fn.Params {
			if pp == pv {
				idx = k
			}
		}
		sites := 0
		for _, e := range p.callersOf(fn) {
			cf := e.Caller.Func
			if cf == nil || isTestFile(p.Fset, cf.Pos()) || e.Site == nil {
				continue
			}
			args := e.Site.Common().Args
			if idx < 0 || idx >= len(args) {
				return "", false
			}
			if cc, ok := args[idx].(*ssa.Const); !ok || cc.IsNil() {
				return "", false
			}
			sites++
		}
		return "param:" + pv.Name(), sites > 0
	}
	for _, fn := range fns {
		for _, b := range fn.Blocks {
			iff, ok := b.Instrs[len(b.Instrs)-1].(*ssa.If)
			if !ok {
				continue
			}
			bo, ok := iff.Cond.(*ssa.BinOp)
			if !ok || (bo.Op != token.NEQ && bo.Op != token.EQL) {
				continue
			}
			var kname string
			var other ssa.Value
			if s, ok := constOrConstParam(fn, bo.Y); ok {
				kname, other = s, bo.X
			} else if s, ok := constOrConstParam(fn, bo.X); ok {
				kname, other = s, bo.Y
			}
			if other == nil {
				continue
			}
			if _, isBasic := other.Type().Underlying().(*types.Basic); !isBasic {
				continue
			}
			// decoded scalar: read from the input (a call result, or a local filled in by a decoder)
			src := strip(other)
			for {
				if ct, ok := src.(*ssa.ChangeType); ok {
					src = strip(ct.X)
					continue
				}
				if cv, ok := src.(*ssa.Convert); ok {
					src = strip(cv.X)
					continue
				}
				break
			}
			switch x := src.(type) {
			case *ssa.Extract:
				if _, ok := x.Tuple.(*ssa.Call); !ok {
					continue
				}
			case *ssa.Call:
			case *ssa.UnOp:
				switch y := x.X.(type) {
				case *ssa.Alloc:
				case *ssa.IndexAddr:
					// a byte of the received packet
					if _, isParam := y.X.(*ssa.Parameter); !isParam {
						continue
					}
				default:
					continue
				}
			default:
				continue
			}
			n++
			for i, s := range b.Succs {
				mismatch := (bo.Op == token.NEQ) == (i == 0)
				if !mismatch {
					continue
				}
				good := true
				where := ""
				paths, complete := enumPathsAt(s, 0, nil, nil, nil, 200)
				if !complete {
					good, where = false, "too many paths"
				}
				for _, pa := range paths {
					if pa.endWhy == "panic" {
						continue
					}
					if pa.endWhy != "return" {
						good, where = false, "the mismatch arm continues decoding"
						continue
					}
					rv := returnValues(pa.end.(*ssa.Return))
					if len(rv) == 0 || isNilConst(rv[len(rv)-1]) {
						good, where = false, "the mismatch arm reaches a successful return at "+p.pos(pa.end.Pos())
					}
				}
				c.check(good, rule, fmt.Sprintf("%s/rejects-mismatch[%s]", fnName(fn), kname), iff.Pos(), "a packet whose field differs from the protocol constant is rejected with an error",
					"a packet of the wrong type or version is not rejected ("+where+"): foreign or future-format bytes are applied as state")
			}
		}
	}
	if n < min {
		c.fail(rule, fnName(top)+"/validates-header", top.Pos(), fmt.Sprintf("expected at least %d comparisons of decoded header fields with protocol constants (in the decoder or the helpers it calls), found %d", min, n))
	}
}

// pkgFuncs: the non-test top-level functions of the named module packages.
func pkgFuncs(p *Prog, rel ...string) []*ssa.Function {
	want := map[string]bool{}
	for _, r := range rel {
		want[modPath+"/"+r] = true
	}
	var out []*ssa.Function
	for _, fn := range p.ModFuncs {
		if isTestFile(p.Fset, fn.Pos()) || fn.Parent() != nil || fn.Pkg == nil || !want[fn.Pkg.Pkg.Path()] {
			continue
		}
		out = append(out, fn)
	}
	return out
}

// commaOkDeref: the pointer obtained from `v, ok := m[k]` is dereferenced
// (field access, or pointer-receiver method of the module) only where ok is
// known true; where it joins another value in a φ, it may arrive only from an
// edge on which ok is true.
func commaOkDeref(c *Ctx, rule string, fns []*ssa.Function, floor int) {
	p := c.P
	c.floor(rule, floor)
	sort.Slice(fns, func(i, j int) bool { return fnName(fns[i]) < fnName(fns[j]) })
	for _, top := range fns {
		for _, fn := range withAnon(top) {
			var lks []*ssa.Lookup
			allInstrs(fn, func(i ssa.Instruction) {
				if lk, ok := i.(*ssa.Lookup); ok && lk.CommaOk {
					if mt, ok := lk.X.Type().Underlying().(*types.Map); ok {
						if _, isPtr := mt.Elem().Underlying().(*types.Pointer); isPtr {
							lks = append(lks, lk)
						}
					}
				}
			})
			if len(lks) == 0 {
				continue
			}
			fs := computeFacts(fn)
			bad := ""
			n := 0
			for _, lk := range lks {
				var v, okv ssa.Value
				for _, r := range *lk.Referrers() {
					if ex, ok := r.(*ssa.Extract); ok {
						if ex.Index == 0 {
							v = ex
						} else {
							okv = ex
						}
					}
				}
				if v == nil {
					continue
				}
				present := func(facts []Fact) bool {
					return okv != nil && anyFact(facts, func(f Fact) bool { return f.V == okv && f.T }) ||
						anyFact(facts, func(f Fact) bool { return cmpFact(f, token.NEQ, func(x ssa.Value) bool { return x == v }, isNilConst) })
				}
				var visit func(val ssa.Value, depth int)
				seen := map[ssa.Value]bool{}
				visit = func(val ssa.Value, depth int) {
					if seen[val] || depth > 3 {
						return
					}
					seen[val] = true
					for _, r := range *val.Referrers() {
						switch x := r.(type) {
						case *ssa.FieldAddr:
							n++
							if val == v && !present(fs.At(x.Block())) {
								bad = "dereferenced at " + p.pos(x.Pos()) + " where the lookup is not known to have succeeded"
							}
						case *ssa.Call:
							if sc := x.Call.StaticCallee(); sc != nil && !x.Call.IsInvoke() && len(x.Call.Args) > 0 && x.Call.Args[0] == val && sc.Signature.Recv() != nil && inModule(sc) {
								n++
								if val == v && !present(fs.At(x.Block())) {
									bad = "used as the receiver of " + sc.Name() + " at " + p.pos(x.Pos()) + " where the lookup is not known to have succeeded"
								}
							}
						case *ssa.Phi:
							for k, e := range x.Edges {
								if e != val {
									continue
								}
								pred := x.Block().Preds[k]
								facts := append([]Fact(nil), fs.At(pred)...)
								if ef, ok := edgeFact(pred, x.Block()); ok {
									facts = append(facts, ef)
								}
								if val == v && !present(facts) {
									// the joined value is dereferenced later?
									derefLater := false
									for _, rr := range *x.Referrers() {
										switch y := rr.(type) {
										case *ssa.FieldAddr:
											derefLater = true
										case *ssa.Call:
											if sc := y.Call.StaticCallee(); sc != nil && len(y.Call.Args) > 0 && y.Call.Args[0] == ssa.Value(x) && sc.Signature.Recv() != nil {
												derefLater = true
											}
										}
									}
									if derefLater && !present(fs.At(x.Block())) {
										n++
										bad = "the result of a failed lookup reaches a dereference through the join at " + p.pos(x.Pos())
									}
								}
							}
						}
					}
				}
				visit(v, 0)
			}
			if n == 0 {
				continue
			}
			c.analysed(fnName(fn))
			name := fnName(fn)
			if fn != top {
				name = fnName(top) + "/" + strings.TrimPrefix(fn.Name(), top.Name())
			}
			c.check(bad == "", rule, name+"/checked-lookup-deref", fn.Pos(), fmt.Sprintf("%d dereferences of checked lookups, all under ok", n), "nil pointer dereference: the entry of a `v, ok := m[k]` lookup is "+bad)
		}
	}
}

// dispatchOnlyForVersion: in a receive dispatcher every hand-over to a
// message handler (a method of the same receiver) happens under the fact that
// the decoded version byte equals the supported version.
func dispatchOnlyForVersion(c *Ctx, rule string, fn *ssa.Function) {
	var ver *ssa.NamedConst
	if fn.Pkg != nil {
		if m, ok := fn.Pkg.Members["supportedVersion"].(*ssa.NamedConst); ok {
			ver = m
		}
	}
	if ver == nil {
		c.fail(rule, fnName(fn)+"/supportedVersion", fn.Pos(), "constant supportedVersion not found")
		return
	}
	fs := computeFacts(fn)
	n := 0
	for _, g := range withAnon(fn) {
		if g != fn {
			continue
		}
		allInstrs(g, func(i ssa.Instruction) {
			cl, ok := i.(*ssa.Call)
			if !ok || cl.Call.IsInvoke() {
				return
			}
			sc := cl.Call.StaticCallee()
			if sc == nil || sc.Signature.Recv() == nil || fn.Signature.Recv() == nil || !types.Identical(sc.Signature.Recv().Type(), fn.Signature.Recv().Type()) {
				return
			}
			if sc.Signature.Results().Len() == 0 {
				return // not a handler whose outcome the dispatcher reports
			}
			n++
			facts := fs.At(cl.Block())
			good := anyFact(facts, func(f Fact) bool {
				return cmpFact(f, token.EQL, func(v ssa.Value) bool {
					_, isConst := v.(*ssa.Const)
					return !isConst
				}, func(v ssa.Value) bool {
					k, ok := v.(*ssa.Const)
					return ok && k.Value != nil && types.Identical(k.Type(), ver.Type()) && k.Value.ExactString() == ver.Value.Value.ExactString()
				})
			})
			c.check(good, rule, fnName(fn)+"/"+sc.Name()+"/only-supported-version", cl.Pos(), "handler reached only under version == supportedVersion",
				"the message handler "+sc.Name()+" is reached without the fact version == supportedVersion (check missing or inverted): bytes of another protocol version are decoded and applied; facts "+factStrings(facts))
		})
	}
	if n == 0 {
		c.fail(rule, fnName(fn)+"/handlers", fn.Pos(), "no hand-over to a message handler found")
	}
}
