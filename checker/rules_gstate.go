package main

import (
	"fmt"
	"go/token"
	"go/types"
	"strings"

	"golang.org/x/tools/go/ssa"
)

// Rules over pkg/gossip's clusterState shared by C02, C11, C13 and C14.

func gossipEntryPoints(p *Prog) []*ssa.Function {
	return []*ssa.Function{
		p.Func(gsPkg, "packetListener.handlePacket"),
		p.Func(gsPkg, "streamListener.handleConn"),
	}
}

// allGossipWriters: every non-test module function containing a write to
// gossip cluster state, with its writes.
func (g *gossipAnchors) allWrites() map[*ssa.Function][]gWrite {
	out := map[*ssa.Function][]gWrite{}
	for _, f := range g.p.ModFuncs {
		if isTestFile(g.p.Fset, f.Pos()) || len(f.Blocks) == 0 {
			continue
		}
		if ws := g.writes(f); len(ws) > 0 {
			out[f] = ws
		}
	}
	return out
}

func sortedFuncs(m map[*ssa.Function][]gWrite) []*ssa.Function {
	var fs []*ssa.Function
	for f := range m {
		fs = append(fs, f)
	}
	for i := range fs {
		for j := i + 1; j < len(fs); j++ {
			if fs[j].String() < fs[i].String() {
				fs[i], fs[j] = fs[j], fs[i]
			}
		}
	}
	return fs
}

// expiredListKey: key is an element of a local list L, and every element
// appended to L is X.ID of a ranged node X under the fact Expiry.IsZero()==false.
func (g *gossipAnchors) expiredListKey(key ssa.Value, fs *Facts) (bool, string) {
	u, ok := strip(key).(*ssa.UnOp)
	if !ok || u.Op != token.MUL {
		return false, "key is not an element of a local list"
	}
	ia, ok := u.X.(*ssa.IndexAddr)
	if !ok {
		return false, "key is not an element of a local list"
	}
	list := ia.X
	// collect append sources
	var appends []*ssa.Call
	seen := map[ssa.Value]bool{}
	var rec func(v ssa.Value) bool
	rec = func(v ssa.Value) bool {
		v = strip(v)
		if seen[v] {
			return true
		}
		seen[v] = true
		switch x := v.(type) {
		case *ssa.Phi:
			for _, e := range x.Edges {
				if !rec(e) {
					return false
				}
			}
			return true
		case *ssa.Const:
			return x.Value == nil
		case *ssa.Call:
			if b, ok := x.Call.Value.(*ssa.Builtin); ok && b.Name() == "append" {
				appends = append(appends, x)
				return rec(x.Call.Args[0])
			}
		case *ssa.UnOp:
			if al, ok := x.X.(*ssa.Alloc); ok && x.Op == token.MUL {
				for _, r := range *al.Referrers() {
					if st, ok := r.(*ssa.Store); ok && st.Addr == ssa.Value(al) {
						if !rec(st.Val) {
							return false
						}
					}
				}
				return true
			}
		}
		return false
	}
	if !rec(list) || len(appends) == 0 {
		return false, "the list of ids to delete is not built by appends in this function"
	}
	for _, ap := range appends {
		sl, ok := ap.Call.Args[1].(*ssa.Slice)
		if !ok {
			return false, "append of an unrecognised slice"
		}
		al, ok := sl.X.(*ssa.Alloc)
		if !ok {
			return false, "append of an unrecognised slice"
		}
		var elem ssa.Value
		for _, r := range *al.Referrers() {
			if ia, ok := r.(*ssa.IndexAddr); ok {
				for _, rr := range *ia.Referrers() {
					if st, ok := rr.(*ssa.Store); ok {
						elem = st.Val
					}
				}
			}
		}
		if elem == nil {
			return false, "appended element not found"
		}
		base, ok := loadedField(elem, g.idF)
		if !ok {
			return false, "appended id is not X.ID of a node state"
		}
		if inner, ok := base.(*ssa.FieldAddr); ok {
			if iv, ib := fieldVarOf(inner); iv == g.metaF {
				base = ib
			}
		}
		facts := fs.At(ap.Block())
		if !anyFact(facts, func(f Fact) bool {
			if f.T {
				return false
			}
			c, ok := f.V.(*ssa.Call)
			if !ok || commonName(&c.Call) != "(time.Time).IsZero" {
				return false
			}
			b, ok := loadedField(c.Call.Args[0], g.expF)
			if !ok {
				return false
			}
			if inner, ok := b.(*ssa.FieldAddr); ok {
				if iv, ib := fieldVarOf(inner); iv == g.metaF {
					b = ib
				}
			}
			return strip(b) == strip(base)
		}) {
			return false, "an id is collected for deletion without the fact Expiry.IsZero()==false; facts " + factStrings(facts)
		}
	}
	return true, "ids collected only from nodes whose Expiry is set (never the local node: C11.R1)"
}

// ---------------------------------------------------------------- C02

func init() {
	register(&propDef{
		id: "C02",
		meta: propMeta{
			explanation: "Decides three structural necessary conditions of 'gossip never loses, fabricates or rolls back': (R1) own state is written only locally - the functions that write s.nodes[s.localID] are unreachable in the VTA call graph from the packet and stream handlers, and every other write to a node state, its entries or the nodes table is guarded by a fact that excludes the local node (key != localID, R.ID != localID, insert-if-absent with ID := key, or deletion of ids collected only under Expiry set); (R2) every store to a node's Version is v+1 (owner), e.Version under the fact e.Version > R.Version (observer), or initialisation of a fresh node; (R3) a delta is built only by clusterState.deltaEntry, which appends exactly the entries with Version > fromVersion and sorts them ascending by Version on every path; truncation to a whole-entry prefix is C13. Not decided: the induction over arbitrary histories (value equality per key and version, relays, compaction interleavings).",
			ruleText:    "obligation = one write site / Version store / append / return; non-trivial = construct exists; distinct = distinct keys",
			assumptions: []string{"msgpack decoding populates digest/delta values only (inputs), never nodeState (no reflection on guarded types)", "the local id is always present in s.nodes (constructor; C11.R1 shows it is never deleted)"},
		},
		run: runC02,
		mutants: []mutant{
			{Name: "drop the local-id guard in applyDeltaEntry", File: "pkg/gossip/state.go", Old: "\tif entry.ID == s.localID {\n\t\t// Discard updates about local node.\n\t\treturn\n\t}\n", New: "", Rule: "C02.R1"},
			{Name: "version check uses < (re-applies equal version)", File: "pkg/gossip/state.go", Old: "\t\tif e.Version <= state.Version {\n\t\t\tcontinue", New: "\t\tif e.Version < state.Version {\n\t\t\tcontinue", Rule: "C02.R2"},
			{Name: "drop the sort in deltaEntry", File: "pkg/gossip/state.go", Old: "\tsort.Slice(deltaEntry.Entries, func(i, j int) bool {\n\t\treturn deltaEntry.Entries[i].Version < deltaEntry.Entries[j].Version\n\t})\n\n\treturn deltaEntry", New: "\treturn deltaEntry", Rule: "C02.R3"},
			{Name: "ApplyDigest overwrites known nodes", File: "pkg/gossip/state.go", Old: "\t\tif _, ok := s.nodes[entry.ID]; ok {\n\t\t\tcontinue\n\t\t}\n\t\t// If we a node has left", New: "\t\tif _, ok := s.nodes[entry.ID]; ok && entry.Version == 0 {\n\t\t\tcontinue\n\t\t}\n\t\t// If we a node has left", Rule: "C02.R1"},
			{Name: "delta includes the requester's own version (>=)", File: "pkg/gossip/state.go", Old: "\t\tif entry.Version <= fromVersion {\n", New: "\t\tif entry.Version < fromVersion {\n", Rule: "C02.R3"},
			{Name: "sort descending", File: "pkg/gossip/state.go", Old: "\t\treturn deltaEntry.Entries[i].Version < deltaEntry.Entries[j].Version\n", New: "\t\treturn deltaEntry.Entries[i].Version > deltaEntry.Entries[j].Version\n", Rule: "C02.R3"},
			{Name: "stream handler republishes a key on join", File: "pkg/gossip/listener.go", Old: "\t// Apply unknown state from the delta.\n\tl.state.ApplyDelta(delta)\n\n\t// Discover any unknown nodes from the digest.", New: "\t// Apply unknown state from the delta.\n\tl.state.ApplyDelta(delta)\n\tl.state.UpsertLocal(\"last_join\", header.NodeID)\n\n\t// Discover any unknown nodes from the digest.", Rule: "C02.R1"},
			{Name: "version stored before the check", File: "pkg/gossip/state.go", Old: "\t\t// Discard old versions.\n\t\tif e.Version <= state.Version {\n\t\t\tcontinue\n\t\t}\n", New: "\t\t// Discard old versions.\n\t\tif e.Version <= state.Version && !e.Internal {\n\t\t\tcontinue\n\t\t}\n", Rule: "C02.R2"},
			{Name: "benign: continue-style guard as nested if", Benign: true, File: "pkg/gossip/state.go", Old: "\t\tif entry.Version <= fromVersion {\n\t\t\tcontinue\n\t\t}\n\n\t\tdeltaEntry.Entries = append(deltaEntry.Entries, entry)\n", New: "\t\tif entry.Version > fromVersion {\n\t\t\tdeltaEntry.Entries = append(deltaEntry.Entries, entry)\n\t\t}\n"},
		},
	})
}

func runC02(c *Ctx) {
	g := newGossipAnchors(c.P)
	if !g.ok {
		c.fail("C02.anchor", "pkg/gossip state types", token.NoPos, "unresolved:"+g.missing)
		return
	}
	gsR1(c, g, "C02.R1")
	c02R2(c, g)
	c02R3(c, g)
}

// gsR1: own state written only locally; everything else excludes the local node.
// Shared by C02.R1, C11.R1 (restricted to membership fields) and C13.R5.
func gsR1(c *Ctx, g *gossipAnchors, rule string) {
	p := c.P
	all := g.allWrites()
	localWriters := map[*ssa.Function]bool{}
	n := 0
	for _, fn := range sortedFuncs(all) {
		c.analysed(fnName(fn))
		fs := computeFacts(fn)
		for _, w := range all[fn] {
			key := fnName(fn) + "/" + w.kind
			if rule == "C11.R1" && !(w.kind == "field:Unreachable" || w.kind == "field:Expiry" || w.kind == "field:Left" || w.kind == "nodes-delete") {
				continue
			}
			n++
			switch w.kind {
			case "nodes-insert":
				if fn.Name() == "newClusterState" {
					c.ok(rule, key, w.instr.Pos(), "constructor inserts the local node")
					continue
				}
				facts := fs.At(w.instr.Block())
				absent := anyFact(facts, func(f Fact) bool {
					ex, ok := f.V.(*ssa.Extract)
					if !ok || ex.Index != 1 || f.T {
						return false
					}
					k, _, ok := g.nodesLookup(ex.Tuple)
					return ok && sameValue(k, w.key)
				})
				keyGuard := anyFact(facts, func(f Fact) bool {
					return cmpFact(f, token.NEQ, func(a ssa.Value) bool { return sameValue(a, w.key) },
						func(a ssa.Value) bool { _, ok := loadedField(a, g.localIDF); return ok })
				})
				idOK := g.freshNodeIDIs(w.val, w.key)
				switch {
				case !(absent || keyGuard):
					c.fail(rule, key, w.instr.Pos(), "a node state is stored into the nodes table without a fact that the key is absent or differs from the local id: the local node's state can be replaced by received data; facts "+factStrings(facts))
				case !idOK:
					c.fail(rule, key, w.instr.Pos(), "the inserted node state's ID is not the key it is stored under")
				default:
					c.ok(rule, key, w.instr.Pos(), "insert-if-absent (or key != localID) with ID := key")
				}
			case "nodes-delete":
				facts := fs.At(w.instr.Block())
				keyGuard := anyFact(facts, func(f Fact) bool {
					return cmpFact(f, token.NEQ, func(a ssa.Value) bool { return sameValue(a, w.key) },
						func(a ssa.Value) bool { _, ok := loadedField(a, g.localIDF); return ok })
				})
				if keyGuard {
					c.ok(rule, key, w.instr.Pos(), "deletes a key != localID")
					continue
				}
				ok, why := g.expiredListKey(w.key, fs)
				c.check(ok, rule, key, w.instr.Pos(), why, "a node is deleted from the table without a guarantee it is not the local node: "+why)
			default:
				cls, why := g.rootClass(w.root, w.instr, fs)
				switch cls {
				case "local":
					localWriters[fn] = true
					c.ok(rule, key, w.instr.Pos(), "write to the local node's own state (local writer, see reachability obligation)")
				case "fresh":
					c.ok(rule, key, w.instr.Pos(), "initialisation of a state object created here")
				case "remote":
					c.ok(rule, key, w.instr.Pos(), why)
				default:
					c.fail(rule, key, w.instr.Pos(), "write to a node state that may be the local node's: "+why)
				}
			}
		}
	}
	if rule != "C11.R1" {
		c.floor(rule, 25)
		// reachability from the network entry points
		roots := gossipEntryPoints(p)
		for _, r := range roots {
			if r == nil {
				c.fail(rule, "anchor/network-entry-points", token.NoPos, "packetListener.handlePacket / streamListener.handleConn not found")
				return
			}
		}
		reach := p.reachFrom(roots, nil)
		if len(localWriters) < 4 {
			c.fail(rule, "local-writer-set", token.NoPos, fmt.Sprintf("only %d local writer functions found", len(localWriters)))
		}
		for _, fn := range sortedFuncs(all) {
			if !localWriters[fn] {
				continue
			}
			if _, ok := reach[fn]; ok {
				c.fail(rule, "network-reach/"+fnName(fn), fn.Pos(), "a function that writes the node's own published state is reachable from a network handler: "+p.cgPath(reach, fn))
			} else {
				c.ok(rule, "network-reach/"+fnName(fn), fn.Pos(), fmt.Sprintf("not reachable from handlePacket/handleConn (%d functions reachable)", len(reach)))
			}
		}
	}
}

// freshNodeIDIs: val is a new nodeState whose NodeMetadata.ID is initialised with key.
func (g *gossipAnchors) freshNodeIDIs(val, key ssa.Value) bool {
	al, ok := strip(val).(*ssa.Alloc)
	if !ok {
		return false
	}
	okID := false
	for _, r := range *al.Referrers() {
		fa, ok := r.(*ssa.FieldAddr)
		if !ok {
			continue
		}
		if fv, _ := fieldVarOf(fa); fv != g.metaF {
			continue
		}
		for _, rr := range *fa.Referrers() {
			switch x := rr.(type) {
			case *ssa.Store:
				// *(&new.NodeMetadata) = load(local NodeMetadata complit)
				if u, ok := x.Val.(*ssa.UnOp); ok {
					if mal, ok := u.X.(*ssa.Alloc); ok {
						for _, fsx := range fieldStores(mal) {
							if fsx.f == g.idF && sameValue(fsx.st.Val, key) {
								okID = true
							}
						}
					}
				}
			case *ssa.FieldAddr:
				if fv, _ := fieldVarOf(x); fv == g.idF {
					for _, r3 := range *x.Referrers() {
						if st, ok := r3.(*ssa.Store); ok && sameValue(st.Val, key) {
							okID = true
						}
					}
				}
			}
		}
	}
	return okID
}

func metaRoot(base ssa.Value, g *gossipAnchors) ssa.Value {
	if inner, ok := base.(*ssa.FieldAddr); ok {
		if iv, ib := fieldVarOf(inner); iv == g.metaF {
			return ib
		}
	}
	return base
}

func c02R2(c *Ctx, g *gossipAnchors) {
	c.floor("C02.R2", 6)
	all := g.allWrites()
	for _, fn := range sortedFuncs(all) {
		fs := computeFacts(fn)
		for _, w := range all[fn] {
			if w.kind != "field:Version" {
				continue
			}
			key := fnName(fn) + "/version-store"
			st := w.instr.(*ssa.Store)
			if g.isBump(w) {
				c.ok("C02.R2", key, st.Pos(), "Version = Version + 1 on the same node")
				continue
			}
			if cls, _ := g.rootClass(w.root, w.instr, fs); cls == "fresh" {
				c.ok("C02.R2", key, st.Pos(), "initialisation of a new node")
				continue
			}
			// observer form: R.Version = e.Version under e.Version > R.Version
			src, ok := loadedField(st.Val, g.eVersion)
			if !ok {
				c.fail("C02.R2", key, st.Pos(), "a node's Version is assigned a value that is neither Version+1 nor an applied entry's Version")
				continue
			}
			facts := fs.At(st.Block())
			guard := anyFact(facts, func(f Fact) bool {
				return cmpFact(f, token.GTR, func(a ssa.Value) bool {
					b, ok := loadedField(a, g.eVersion)
					return ok && strip(b) == strip(src)
				}, func(a ssa.Value) bool {
					b, ok := loadedField(a, g.versionF)
					return ok && strip(metaRoot(b, g)) == strip(w.root)
				})
			})
			// no other Version store between the guard and this one: the guard's
			// block dominates and the store is the only Version store in the loop body
			others := 0
			for _, w2 := range all[fn] {
				if w2.kind == "field:Version" && w2.instr != w.instr && strip(w2.root) == strip(w.root) {
					others++
				}
			}
			c.check(guard && others == 0, "C02.R2", key, st.Pos(), "Version = e.Version only under e.Version > Version (monotone)",
				"a view's version can move backwards or sideways: Version = e.Version is not guarded by e.Version > Version of the same node; facts "+factStrings(facts))
		}
	}
}

func c02R3(c *Ctx, g *gossipAnchors) {
	p := c.P
	c.floor("C02.R3", 4)
	deT := p.NamedType(gsPkg, "deltaEntry")
	deEntries := p.Field(gsPkg, "deltaEntry", "Entries")
	if deT == nil || deEntries == nil {
		c.fail("C02.anchor", "deltaEntry type", token.NoPos, "not found")
		return
	}
	// who writes deltaEntry.Entries (non-test)?
	builders := map[*ssa.Function]bool{}
	for _, s := range p.storesToField(deEntries, false) {
		builders[s.Fn] = true
	}
	var fnames []string
	for f := range builders {
		fnames = append(fnames, fnName(f))
	}
	for f := range builders {
		// decoders build from the wire; the only state-side builder must be the method of clusterState
		isState := f.Signature.Recv() != nil && strings.Contains(f.Signature.Recv().Type().String(), "clusterState")
		isDecoder := strings.HasPrefix(f.Name(), "decode")
		c.check(isState || isDecoder, "C02.R3", "builder/"+fnName(f), f.Pos(), "delta entries are filled by the state's builder or the wire decoder", "delta entries are filled outside clusterState.deltaEntry and the decoder")
		if !isState {
			continue
		}
		c.analysed(fnName(f))
		fs := computeFacts(f)
		// every append is under Version > fromVersion
		var appends []*ssa.Call
		allInstrs(f, func(i ssa.Instruction) {
			if cl, ok := i.(*ssa.Call); ok {
				if b, ok := cl.Call.Value.(*ssa.Builtin); ok && b.Name() == "append" {
					if _, ok := loadedField(cl.Call.Args[0], deEntries); ok {
						appends = append(appends, cl)
					}
				}
			}
		})
		if len(appends) == 0 {
			c.fail("C02.R3", fnName(f)+"/append", f.Pos(), "no append to the delta's entries found")
		}
		for _, ap := range appends {
			facts := fs.At(ap.Block())
			var fromV ssa.Value
			for _, pa := range f.Params {
				if b, ok := pa.Type().Underlying().(*types.Basic); ok && b.Kind() == types.Uint64 {
					fromV = pa
				}
			}
			newer := anyFact(facts, func(fct Fact) bool {
				return cmpFact(fct, token.GTR, func(a ssa.Value) bool { _, ok := loadedField(a, g.eVersion); return ok },
					func(a ssa.Value) bool { return fromV != nil && strip(a) == fromV })
			})
			// nothing else filters: facts beyond the loop's own are just this one
			extra := 0
			for _, fct := range facts {
				if _, x, y, ok := fct.Cmp(); ok {
					if _, isV := loadedField(x, g.eVersion); isV && fromV != nil && strip(y) == fromV {
						continue
					}
				}
				if ex, ok := fct.V.(*ssa.Extract); ok {
					if _, isNext := ex.Tuple.(*ssa.Next); isNext {
						continue
					}
				}
				extra++
			}
			c.check(newer && extra == 0, "C02.R3", fnName(f)+"/append-filter", ap.Pos(),
				"an entry is included exactly when entry.Version > fromVersion",
				"the delta does not contain exactly the entries newer than the requester's version; facts at the append "+factStrings(facts))
		}
		// sorted ascending by version on every path to return
		for _, r := range returnsOf(f) {
			c.check(sortedBefore(f, r, g), "C02.R3", fnName(f)+"/sorted-before-return", r.Pos(),
				"entries are sorted ascending by Version before returning", "a delta can be returned without being sorted ascending by Version: truncation would skip versions and the receiver's high-water mark would hide them")
		}
	}
	c.note("deltaEntry builders: %v", fnames)
}
