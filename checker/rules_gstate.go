package main

import (
	"fmt"
	"go/token"
	"go/types"
	"strings"

	"golang.org/x/tools/go/ssa"
)

// Rules over pkg/gossip's clusterState shared by C02, C11, C13 and C14.

func gossipEntryPoints(p *Prog) []*ssa.Function {
	return []*ssa.Function{
		p.Func(gsPkg, "packetListener.handlePacket"),
		p.Func(gsPkg, "streamListener.handleConn"),
	}
}

// allGossipWriters: every non-test module function containing a write to
// gossip cluster state, with its writes.
func (g *gossipAnchors) allWrites() map[*ssa.Function][]gWrite {
	out := map[*ssa.Function][]gWrite{}
	for _, f := range g.p.ModFuncs {
		if isTestFile(g.p.Fset, f.Pos()) || len(f.Blocks) == 0 {
			continue
		}
		if ws := g.writes(f); len(ws) > 0 {
			out[f] = ws
		}
	}
	return out
}

func sortedFuncs(m map[*ssa.Function][]gWrite) []*ssa.Function {
	var fs []*ssa.Function
	for f := range m {
		fs = append(fs, f)
	}
	for i := range fs {
		for j := i + 1; j < len(fs); j++ {
			if fs[j].String() < fs[i].String() {
				fs[i], fs[j] = fs[j], fs[i]
			}
		}
	}
	return fs
}

// expiredListKey: key is an element of a local list L, and every element
// appended to L is X.ID of a ranged node X under the fact Expiry.IsZero()==false.
func (g *gossipAnchors) expiredListKey(key ssa.Value, fs *Facts) (bool, string) {
	u, ok := strip(key).(*ssa.UnOp)
	if !ok || u.Op != token.MUL {
		return false, "key is not an element of a local list"
	}
	ia, ok := u.X.(*ssa.IndexAddr)
	if !ok {
		return false, "key is not an element of a local list"
	}
	list := ia.X
	// collect append sources
	var appends []*ssa.Call
	seen := map[ssa.Value]bool{}
	var rec func(v ssa.Value) bool
	rec = func(v ssa.Value) bool {
		v = strip(v)
		if seen[v] {
			return true
		}
		seen[v] = true
		switch x := v.(type) {
		case *ssa.Phi:
			for _, e := range x.Edges {
				if !rec(e) {
					return false
				}
			}
			return true
		case *ssa.Const:
			return x.Value == nil
		case *ssa.Call:
			if b, ok := x.Call.Value.(*ssa.Builtin); ok && b.Name() == "append" {
				appends = append(appends, x)
				return rec(x.Call.Args[0])
			}
		case *ssa.UnOp:
			if al, ok := x.X.(*ssa.Alloc); ok && x.Op == token.MUL {
				for _, r := range *al.Referrers() {
					if st, ok := r.(*ssa.Store); ok && st.Addr == ssa.Value(al) {
						if !rec(st.Val) {
							return false
						}
					}
				}
				return true
			}
		}
		return false
	}
	if !rec(list) || len(appends) == 0 {
		return false, "the list of ids to delete is not built by appends in this function"
	}
	for _, ap := range appends {
		sl, ok := ap.Call.Args[1].(*ssa.Slice)
		if !ok {
			return false, "append of an unrecognised slice"
		}
		al, ok := sl.X.(*ssa.Alloc)
		if !ok {
			return false, "append of an unrecognised slice"
		}
		var elem ssa.Value
		for _, r := range *al.Referrers() {
			if ia, ok := r.(*ssa.IndexAddr); ok {
				for _, rr := range *ia.Referrers() {
					if st, ok := rr.(*ssa.Store); ok {
						elem = st.Val
					}
				}
			}
		}
		if elem == nil {
			return false, "appended element not found"
		}
		base, ok := loadedField(elem, g.idF)
		if !ok {
			return false, "appended id is not X.ID of a node state"
		}
		if inner, ok := base.(*ssa.FieldAddr); ok {
			if iv, ib := fieldVarOf(inner); iv == g.metaF {
				base = ib
			}
		}
		facts := fs.At(ap.Block())
		if !anyFact(facts, func(f Fact) bool {
			if f.T {
				return false
			}
			c, ok := f.V.(*ssa.Call)
			if !ok || commonName(&c.Call) != "(time.Time).IsZero" {
				return false
			}
			b, ok := loadedField(c.Call.Args[0], g.expF)
			if !ok {
				return false
			}
			if inner, ok := b.(*ssa.FieldAddr); ok {
				if iv, ib := fieldVarOf(inner); iv == g.metaF {
					b = ib
				}
			}
			return strip(b) == strip(base)
		}) {
			return false, "an id is collected for deletion without the fact Expiry.IsZero()==false; facts " + factStrings(facts)
		}
	}
	return true, "ids collected only from nodes whose Expiry is set (never the local node: C11.R1)"
}

// ---------------------------------------------------------------- C02

func init() {
	register(&propDef{
		id: "C02",
		meta: propMeta{
			explanation: "Decides three structural necessary conditions of 'gossip never loses, fabricates or rolls back': (R1) own state is written only locally - the functions that write s.nodes[s.localID] are unreachable in the VTA call graph from the packet and stream handlers, and every other write to a node state, its entries or the nodes table is guarded by a fact that excludes the local node (key != localID, R.ID != localID, insert-if-absent with ID := key, or deletion of ids collected only under Expiry set); (R2) every store to a node's Version is v+1 (owner), e.Version under the fact e.Version > R.Version (observer), or initialisation of a fresh node; (R3) a delta is built only by clusterState.deltaEntry, which appends exactly the entries with Version > fromVersion and sorts them ascending by Version on every path; truncation to a whole-entry prefix is C13. Not decided: the induction over arbitrary histories (value equality per key and version, relays, compaction interleavings). Second round: (R6) loops of clusterState methods are complete; (R7) a stored entry advances the applied version to that entry's version; (R8) observer-side compaction deletes exactly the entries at or below the version parsed from a received internal compact entry, and always does so when such a marker parses; (R9) a node object enters the table only on a miss of its key.",
			ruleText:    "obligation = one write site / Version store / append / return; non-trivial = construct exists; distinct = distinct keys",
			assumptions: []string{"msgpack decoding populates digest/delta values only (inputs), never nodeState (no reflection on guarded types)", "the local id is always present in s.nodes (constructor; C11.R1 shows it is never deleted)"},
		},
		run: runC02,
		mutants: []mutant{
			{Name: "drop the local-id guard in applyDeltaEntry", File: "pkg/gossip/state.go", Old: "\tif entry.ID == s.localID {\n\t\t// Discard updates about local node.\n\t\treturn\n\t}\n", New: "", Rule: "C02.R1"},
			{Name: "version check uses < (re-applies equal version)", File: "pkg/gossip/state.go", Old: "\t\tif e.Version <= state.Version {\n\t\t\tcontinue", New: "\t\tif e.Version < state.Version {\n\t\t\tcontinue", Rule: "C02.R2"},
			{Name: "drop the sort in deltaEntry", File: "pkg/gossip/state.go", Old: "\tsort.Slice(deltaEntry.Entries, func(i, j int) bool {\n\t\treturn deltaEntry.Entries[i].Version < deltaEntry.Entries[j].Version\n\t})\n\n\treturn deltaEntry", New: "\treturn deltaEntry", Rule: "C02.R3"},
			{Name: "ApplyDigest overwrites known nodes", File: "pkg/gossip/state.go", Old: "\t\tif _, ok := s.nodes[entry.ID]; ok {\n\t\t\tcontinue\n\t\t}\n\t\t// If we a node has left", New: "\t\tif _, ok := s.nodes[entry.ID]; ok && entry.Version == 0 {\n\t\t\tcontinue\n\t\t}\n\t\t// If we a node has left", Rule: "C02.R1"},
			{Name: "delta includes the requester's own version (>=)", File: "pkg/gossip/state.go", Old: "\t\tif entry.Version <= fromVersion {\n", New: "\t\tif entry.Version < fromVersion {\n", Rule: "C02.R3"},
			{Name: "sort descending", File: "pkg/gossip/state.go", Old: "\t\treturn deltaEntry.Entries[i].Version < deltaEntry.Entries[j].Version\n", New: "\t\treturn deltaEntry.Entries[i].Version > deltaEntry.Entries[j].Version\n", Rule: "C02.R3"},
			{Name: "stream handler republishes a key on join", File: "pkg/gossip/listener.go", Old: "\t// Apply unknown state from the delta.\n\tl.state.ApplyDelta(delta)\n\n\t// Discover any unknown nodes from the digest.", New: "\t// Apply unknown state from the delta.\n\tl.state.ApplyDelta(delta)\n\tl.state.UpsertLocal(\"last_join\", header.NodeID)\n\n\t// Discover any unknown nodes from the digest.", Rule: "C02.R1"},
			{Name: "version stored before the check", File: "pkg/gossip/state.go", Old: "\t\t// Discard old versions.\n\t\tif e.Version <= state.Version {\n\t\t\tcontinue\n\t\t}\n", New: "\t\t// Discard old versions.\n\t\tif e.Version <= state.Version && !e.Internal {\n\t\t\tcontinue\n\t\t}\n", Rule: "C02.R2"},
			{Name: "benign: continue-style guard as nested if", Benign: true, File: "pkg/gossip/state.go", Old: "\t\tif entry.Version <= fromVersion {\n\t\t\tcontinue\n\t\t}\n\n\t\tdeltaEntry.Entries = append(deltaEntry.Entries, entry)\n", New: "\t\tif entry.Version > fromVersion {\n\t\t\tdeltaEntry.Entries = append(deltaEntry.Entries, entry)\n\t\t}\n"},
		},
	})
}

func runC02(c *Ctx) {
	g := newGossipAnchors(c.P)
	if !g.ok {
		c.fail("C02.anchor", "pkg/gossip state types", token.NoPos, "unresolved:"+g.missing)
		return
	}
	gsR1(c, g, "C02.R1")
	c02R2(c, g, "C02.R2")
	c02R3(c, g)
	// what is sent is a whole-entry prefix of that ascending order (rules of C13)
	c13Encode(c, "C02.R4", "C02.R4")
	c13Decode(c, "C02.R4")
	c02R5(c)
	gsLoopsComplete(c, g, "C02.R6")
	c02ApplyAdvances(c, g, "C02.R7")
	c02ObserverCompaction(c, g, "C02.R8")
	c02InsertOnMiss(c, g, "C02.R9")
	// the owner side of compaction and deletion markers (rules of C17)
	c17All(c, g)
}

// c02R5: a decoder that fills only the fields present on the wire must not be
// pointed at a variable that already holds data. The wire structs carry no
// `omitempty` today; Gossip.join decodes the peer's delta into the variable
// that still holds its own - harmless exactly as long as every field is
// always encoded.
func c02R5(c *Ctx) {
	p := c.P
	c.floor("C02.R5", 1)
	omit := ""
	for _, tn := range []string{"Entry", "digestEntry", "deltaEntry", "digestHeader", "deltaHeader", "joinHeader", "leaveHeader"} {
		n := p.NamedType(gsPkg, tn)
		if n == nil {
			c.fail("C02.R5", "anchor/"+tn, token.NoPos, "wire struct not found")
			continue
		}
		st, ok := n.Underlying().(*types.Struct)
		if !ok {
			continue
		}
		for i := 0; i < st.NumFields(); i++ {
			if strings.Contains(st.Tag(i), "omitempty") {
				omit = tn + "." + st.Field(i).Name()
			}
		}
	}
	// decode targets that were assigned before
	reused := ""
	for _, fn := range p.ModFuncs {
		if isTestFile(p.Fset, fn.Pos()) || !strings.Contains(fn.String(), modPath+"/pkg/gossip") {
			continue
		}
		allInstrs(fn, func(i ssa.Instruction) {
			cl, ok := i.(*ssa.Call)
			if !ok || !strings.HasSuffix(commonName(&cl.Call), "pkg/gossip.decoder).Decode") {
				return
			}
			mi, ok := cl.Call.Args[1].(*ssa.MakeInterface)
			if !ok {
				return
			}
			al, ok := mi.X.(*ssa.Alloc)
			if !ok {
				return
			}
			for _, r := range *al.Referrers() {
				if st, ok := r.(*ssa.Store); ok && st.Addr == ssa.Value(al) && canReach(st, cl, nil) {
					reused = fnName(fn) + " at " + p.pos(cl.Pos())
				}
			}
		})
	}
	c.check(omit == "" || reused == "", "C02.R5", "wire-structs/decode-into-fresh-or-full-encoding", token.NoPos,
		"every wire field is always encoded (no omitempty), so decoding into a used variable cannot leave stale fields",
		"wire field "+omit+" is omitted when empty while "+reused+" decodes into a variable that already holds data: an empty value from the peer keeps the stale local value (fabricated state under the owner's real version)")
}

// gsR1: own state written only locally; everything else excludes the local node.
// Shared by C02.R1, C11.R1 (restricted to membership fields) and C13.R5.
func gsR1(c *Ctx, g *gossipAnchors, rule string) {
	p := c.P
	all := g.allWrites()
	localWriters := map[*ssa.Function]bool{}
	n := 0
	for _, fn := range sortedFuncs(all) {
		c.analysed(fnName(fn))
		fs := computeFacts(fn)
		for _, w := range all[fn] {
			key := fnName(fn) + "/" + w.kind
			if rule == "C11.R1" && !(w.kind == "field:Unreachable" || w.kind == "field:Expiry" || w.kind == "field:Left" || w.kind == "nodes-delete") {
				continue
			}
			n++
			switch w.kind {
			case "nodes-insert":
				if baseName(fn) == "newClusterState" {
					c.ok(rule, key, w.instr.Pos(), "constructor inserts the local node")
					continue
				}
				if w.inHelper {
					c.ok(rule, key, w.instr.Pos(), "insertion helper: judged at each call site")
					continue
				}
				facts := fs.At(w.instr.Block())
				absent := anyFact(facts, func(f Fact) bool {
					ex, ok := f.V.(*ssa.Extract)
					if !ok || ex.Index != 1 || f.T {
						return false
					}
					k, _, ok := g.nodesLookup(ex.Tuple)
					return ok && sameValue(k, w.key)
				})
				keyGuard := anyFact(facts, func(f Fact) bool {
					return cmpFact(f, token.NEQ, func(a ssa.Value) bool { return sameValue(a, w.key) },
						func(a ssa.Value) bool { _, ok := loadedField(a, g.localIDF); return ok })
				})
				idOK := g.freshNodeIDIs(w.val, w.key)
				switch {
				case !(absent || keyGuard):
					c.fail(rule, key, w.instr.Pos(), "a node state is stored into the nodes table without a fact that the key is absent or differs from the local id: the local node's state can be replaced by received data; facts "+factStrings(facts))
				case !idOK:
					c.fail(rule, key, w.instr.Pos(), "the inserted node state's ID is not the key it is stored under")
				default:
					c.ok(rule, key, w.instr.Pos(), "insert-if-absent (or key != localID) with ID := key")
				}
			case "nodes-delete":
				facts := fs.At(w.instr.Block())
				keyGuard := anyFact(facts, func(f Fact) bool {
					return cmpFact(f, token.NEQ, func(a ssa.Value) bool { return sameValue(a, w.key) },
						func(a ssa.Value) bool { _, ok := loadedField(a, g.localIDF); return ok })
				})
				if keyGuard {
					c.ok(rule, key, w.instr.Pos(), "deletes a key != localID")
					continue
				}
				ok, why := g.expiredListKey(w.key, fs)
				c.check(ok, rule, key, w.instr.Pos(), why, "a node is deleted from the table without a guarantee it is not the local node: "+why)
			default:
				cls, why := g.rootClass(w.root, w.instr, fs)
				switch cls {
				case "local":
					localWriters[fn] = true
					c.ok(rule, key, w.instr.Pos(), "write to the local node's own state (local writer, see reachability obligation)")
				case "fresh":
					c.ok(rule, key, w.instr.Pos(), "initialisation of a state object created here")
				case "remote":
					c.ok(rule, key, w.instr.Pos(), why)
				default:
					c.fail(rule, key, w.instr.Pos(), "write to a node state that may be the local node's: "+why)
				}
			}
		}
	}
	if rule != "C11.R1" {
		c.floor(rule, 25)
		// reachability from the network entry points
		roots := gossipEntryPoints(p)
		for _, r := range roots {
			if r == nil {
				c.fail(rule, "anchor/network-entry-points", token.NoPos, "packetListener.handlePacket / streamListener.handleConn not found")
				return
			}
		}
		reach := p.reachFrom(roots, nil)
		if len(localWriters) < 4 {
			c.fail(rule, "local-writer-set", token.NoPos, fmt.Sprintf("only %d local writer functions found", len(localWriters)))
		}
		for _, fn := range sortedFuncs(all) {
			if !localWriters[fn] {
				continue
			}
			if _, ok := reach[fn]; ok {
				c.fail(rule, "network-reach/"+fnName(fn), fn.Pos(), "a function that writes the node's own published state is reachable from a network handler: "+p.cgPath(reach, fn))
			} else {
				c.ok(rule, "network-reach/"+fnName(fn), fn.Pos(), fmt.Sprintf("not reachable from handlePacket/handleConn (%d functions reachable)", len(reach)))
			}
		}
	}
}

// freshNodeFields: val is a newly allocated nodeState (directly, or the result
// of a module constructor whose every return is one); returns the values its
// ID and Version are initialised with (nil = left at the zero value).
func (g *gossipAnchors) freshNodeFields(val ssa.Value, depth int) (id, version ssa.Value, ok bool) {
	val = strip(val)
	if cl, isCall := val.(*ssa.Call); isCall && depth < 3 {
		cal := cl.Call.StaticCallee()
		if cal == nil || !inModule(cal) || len(cal.Blocks) == 0 {
			return nil, nil, false
		}
		rets := returnsOf(cal)
		if len(rets) != 1 {
			return nil, nil, false
		}
		cid, cver, cok := g.freshNodeFields(returnValues(rets[0])[0], depth+1)
		if !cok {
			return nil, nil, false
		}
		subst := func(v ssa.Value) ssa.Value {
			if pv, isP := strip(v).(*ssa.Parameter); isP {
				for k, pp := range cal.Params {
					if pp == pv && k < len(cl.Call.Args) {
						return cl.Call.Args[k]
					}
				}
			}
			return v
		}
		if cid != nil {
			cid = subst(cid)
		}
		if cver != nil {
			cver = subst(cver)
		}
		return cid, cver, true
	}
	al, isAl := val.(*ssa.Alloc)
	if !isAl {
		return nil, nil, false
	}
	if pt, isP := al.Type().(*types.Pointer); !isP || !types.Identical(pt.Elem(), g.nodeStateT) {
		return nil, nil, false
	}
	visit := func(fv *types.Var, v ssa.Value) {
		switch fv {
		case g.idF:
			id = v
		case g.versionF:
			version = v
		}
	}
	for _, r := range *al.Referrers() {
		fa, isFA := r.(*ssa.FieldAddr)
		if !isFA {
			continue
		}
		if fv, _ := fieldVarOf(fa); fv != g.metaF {
			continue
		}
		for _, rr := range *fa.Referrers() {
			switch x := rr.(type) {
			case *ssa.Store:
				if u, isU := x.Val.(*ssa.UnOp); isU {
					if mal, isM := u.X.(*ssa.Alloc); isM {
						for _, fsx := range fieldStores(mal) {
							visit(fsx.f, fsx.st.Val)
						}
					}
				}
			case *ssa.FieldAddr:
				fv, _ := fieldVarOf(x)
				for _, r3 := range *x.Referrers() {
					if st, isSt := r3.(*ssa.Store); isSt {
						visit(fv, st.Val)
					}
				}
			}
		}
	}
	return id, version, true
}

// freshNodeIDIs: val is a new nodeState whose NodeMetadata.ID is initialised with key.
func (g *gossipAnchors) freshNodeIDIs(val, key ssa.Value) bool {
	id, _, ok := g.freshNodeFields(val, 0)
	return ok && id != nil && sameValue(id, key)
}

func metaRoot(base ssa.Value, g *gossipAnchors) ssa.Value {
	if inner, ok := base.(*ssa.FieldAddr); ok {
		if iv, ib := fieldVarOf(inner); iv == g.metaF {
			return ib
		}
	}
	return base
}

func c02R2(c *Ctx, g *gossipAnchors, rule string) {
	c.floor(rule, 8)
	all := g.allWrites()
	for _, fn := range sortedFuncs(all) {
		fs := computeFacts(fn)
		for _, w := range all[fn] {
			if w.kind == "entries-update" {
				// R2b: an observer applies an entry only when it is newer than
				// everything it has applied for that node (node-wide version)
				if cls, _ := g.rootClass(w.root, w.instr, fs); cls != "remote" {
					continue
				}
				ev := entryVarOf(w.val)
				facts := fs.At(w.instr.Block())
				newer := anyFact(facts, func(f Fact) bool {
					return cmpFact(f, token.GTR, func(a ssa.Value) bool {
						b, ok := loadedField(a, g.eVersion)
						return ok && strip(b) == strip(ev)
					}, func(a ssa.Value) bool {
						b, ok := loadedField(a, g.versionF)
						return ok && strip(metaRoot(b, g)) == strip(w.root)
					})
				})
				c.check(newer, rule, fnName(fn)+"/apply-only-newer", w.instr.Pos(),
					"a received entry is stored only under e.Version > the node's applied version",
					"a received entry can be stored although its version is not above the version already applied for that node: a delayed or duplicated delta can resurrect or roll back keys; facts "+factStrings(facts))
				continue
			}
			if w.kind != "field:Version" {
				continue
			}
			key := fnName(fn) + "/version-store"
			st := w.instr.(*ssa.Store)
			if g.isBump(w) {
				c.ok(rule, key, st.Pos(), "Version = Version + 1 on the same node")
				continue
			}
			if cls, _ := g.rootClass(w.root, w.instr, fs); cls == "fresh" {
				c.ok(rule, key, st.Pos(), "initialisation of a new node")
				continue
			}
			// observer form: R.Version = e.Version under e.Version > R.Version
			src, ok := loadedField(st.Val, g.eVersion)
			if !ok {
				c.fail(rule, key, st.Pos(), "a node's Version is assigned a value that is neither Version+1 nor an applied entry's Version")
				continue
			}
			facts := fs.At(st.Block())
			guard := anyFact(facts, func(f Fact) bool {
				return cmpFact(f, token.GTR, func(a ssa.Value) bool {
					b, ok := loadedField(a, g.eVersion)
					return ok && strip(b) == strip(src)
				}, func(a ssa.Value) bool {
					b, ok := loadedField(a, g.versionF)
					return ok && strip(metaRoot(b, g)) == strip(w.root)
				})
			})
			// no other Version store between the guard and this one: the guard's
			// block dominates and the store is the only Version store in the loop body
			others := 0
			for _, w2 := range all[fn] {
				if w2.kind == "field:Version" && w2.instr != w.instr && strip(w2.root) == strip(w.root) {
					others++
				}
			}
			// the advanced version is backed by the stored entry: the version store is not
			// reachable without storing that very entry
			var stores []ssa.Instruction
			for _, w2 := range all[fn] {
				if w2.kind == "entries-update" && strip(w2.root) == strip(w.root) && strip(entryVarOf(w2.val)) == strip(src) {
					stores = append(stores, w2.instr)
				}
			}
			backed := len(stores) > 0 && !blockReachesAvoiding(fn.Blocks[0], st, stores)
			c.check(backed, rule, key+"/backed-by-entry", st.Pos(), "the version is advanced only together with storing the entry that carries it",
				"the applied version of a node can advance without the entry of that version being stored (e.g. an unseen tombstone is skipped): the observer claims to have seen the owner's state up to v while a key written at or below v is missing, and relays that claim")
			c.check(guard && others == 0, rule, key, st.Pos(), "Version = e.Version only under e.Version > Version (monotone)",
				"a view's version can move backwards or sideways: Version = e.Version is not guarded by e.Version > Version of the same node; facts "+factStrings(facts))
		}
	}
}

func c02R3(c *Ctx, g *gossipAnchors) {
	p := c.P
	c.floor("C02.R3", 5)
	deT := p.NamedType(gsPkg, "deltaEntry")
	deEntries := p.Field(gsPkg, "deltaEntry", "Entries")
	if deT == nil || deEntries == nil {
		c.fail("C02.anchor", "deltaEntry type", token.NoPos, "not found")
		return
	}
	// who writes deltaEntry.Entries (non-test)?
	builders := map[*ssa.Function]bool{}
	for _, s := range p.storesToField(deEntries, false) {
		builders[s.Fn] = true
	}
	var fnames []string
	for f := range builders {
		fnames = append(fnames, fnName(f))
	}
	for f := range builders {
		// decoders build from the wire; the only state-side builder must be the method of clusterState
		isState := f.Signature.Recv() != nil && strings.Contains(f.Signature.Recv().Type().String(), "clusterState")
		isDecoder := strings.HasPrefix(f.Name(), "decode")
		c.check(isState || isDecoder, "C02.R3", "builder/"+fnName(f), f.Pos(), "delta entries are filled by the state's builder or the wire decoder", "delta entries are filled outside clusterState.deltaEntry and the decoder")
		if !isState {
			continue
		}
		c.analysed(fnName(f))
		fs := computeFacts(f)
		// every append is under Version > fromVersion
		var appends []*ssa.Call
		allInstrs(f, func(i ssa.Instruction) {
			if cl, ok := i.(*ssa.Call); ok {
				if b, ok := cl.Call.Value.(*ssa.Builtin); ok && b.Name() == "append" {
					if _, ok := loadedField(cl.Call.Args[0], deEntries); ok {
						appends = append(appends, cl)
					}
				}
			}
		})
		if len(appends) == 0 {
			c.fail("C02.R3", fnName(f)+"/append", f.Pos(), "no append to the delta's entries found")
		}
		for _, ap := range appends {
			facts := fs.At(ap.Block())
			var fromV ssa.Value
			for _, pa := range f.Params {
				if b, ok := pa.Type().Underlying().(*types.Basic); ok && b.Kind() == types.Uint64 {
					fromV = pa
				}
			}
			newer := anyFact(facts, func(fct Fact) bool {
				return cmpFact(fct, token.GTR, func(a ssa.Value) bool { _, ok := loadedField(a, g.eVersion); return ok },
					func(a ssa.Value) bool { return fromV != nil && strip(a) == fromV })
			})
			// nothing else filters: facts beyond the loop's own are just this one
			extra := 0
			for _, fct := range facts {
				if _, x, y, ok := fct.Cmp(); ok {
					if _, isV := loadedField(x, g.eVersion); isV && fromV != nil && strip(y) == fromV {
						continue
					}
				}
				if ex, ok := fct.V.(*ssa.Extract); ok {
					if _, isNext := ex.Tuple.(*ssa.Next); isNext {
						continue
					}
				}
				extra++
			}
			c.check(newer && extra == 0, "C02.R3", fnName(f)+"/append-filter", ap.Pos(),
				"an entry is included exactly when entry.Version > fromVersion",
				"the delta does not contain exactly the entries newer than the requester's version; facts at the append "+factStrings(facts))
		}
		// the scan over the node's entries is complete: the loop is left only when the range is exhausted
		for _, ap := range appends {
			hdr := loopHeader(ap.Block())
			if hdr == nil {
				c.fail("C02.R3", fnName(f)+"/scan-complete", ap.Pos(), "entries are not collected in a loop over the node's entries")
				continue
			}
			body := naturalLoop(hdr)
			inLoop := func(b *ssa.BasicBlock) bool { return body[b] }
			bad := ""
			for _, b := range f.Blocks {
				if !inLoop(b) {
					continue
				}
				for _, sb := range b.Succs {
					if inLoop(sb) {
						continue
					}
					if b != hdr {
						bad = "the loop over the node's entries can be left early at " + p.pos(b.Instrs[len(b.Instrs)-1].Pos()) + ": entries newer than the requester's version are left out, and since the map order is arbitrary the delta is no longer a version-ordered suffix"
					}
				}
			}
			// and it ranges over the node's Entries map
			ranged := false
			for _, in := range hdr.Instrs {
				if nx, ok := in.(*ssa.Next); ok {
					if rg, ok := nx.Iter.(*ssa.Range); ok {
						if _, ok := loadedField(rg.X, g.entriesF); ok {
							ranged = true
						}
					}
				}
			}
			c.check(bad == "" && ranged, "C02.R3", fnName(f)+"/scan-complete", ap.Pos(), "every entry of the node is examined", bad)
		}
		// sorted ascending by version on every path to return
		for _, r := range returnsOf(f) {
			c.check(sortedBefore(f, r, g), "C02.R3", fnName(f)+"/sorted-before-return", r.Pos(),
				"entries are sorted ascending by Version before returning", "a delta can be returned without being sorted ascending by Version: truncation would skip versions and the receiver's high-water mark would hide them")
		}
	}
	c.note("deltaEntry builders: %v", fnames)
}

// ---------------------------------------------------------------- C14 / C11 pairing

var watcherFor = map[string][]string{
	"OnJoin":        {"nodes-insert"},
	"OnUpsertKey":   {"entries-update"},
	"OnDeleteKey":   {"entries-update", "entries-delete"},
	"OnLeave":       {"field:Left"},
	"OnUnreachable": {"field:Unreachable"},
	"OnReachable":   {"field:Unreachable"},
	"OnExpired":     {"nodes-delete"},
}

func isEntryFieldLoad(v ssa.Value, ev ssa.Value, f *types.Var) bool {
	b, ok := loadedField(v, f)
	return ok && strip(b) == strip(ev)
}

// idMatches: arg names the node whose state object is root.
func (g *gossipAnchors) idMatches(arg, root ssa.Value) bool {
	if b, ok := loadedField(arg, g.idF); ok && strip(metaRoot(b, g)) == strip(root) {
		return true
	}
	// helper taking (state, id): the pair must match at every call site
	if pa, ok := strip(arg).(*ssa.Parameter); ok {
		if pr, ok := strip(root).(*ssa.Parameter); ok && pa.Parent() == pr.Parent() && g.depth < 3 {
			fn := pa.Parent()
			ia, ir := -1, -1
			for k, pp := range fn.Params {
				if pp == pa {
					ia = k
				}
				if pp == pr {
					ir = k
				}
			}
			n := 0
			for _, caller := range g.p.ModFuncs {
				if isTestFile(g.p.Fset, caller.Pos()) {
					continue
				}
				for _, in := range findCalls(caller, commonNameOfFn(fn)) {
					cc := callCommon(in)
					if cc.StaticCallee() != fn || ia >= len(cc.Args) || ir >= len(cc.Args) {
						continue
					}
					n++
					g.depth++
					ok := g.idMatches(cc.Args[ia], cc.Args[ir])
					g.depth--
					if !ok {
						return false
					}
				}
			}
			return n > 0
		}
	}
	seen := map[ssa.Value]bool{}
	var rec func(v ssa.Value) bool
	rec = func(v ssa.Value) bool {
		v = strip(v)
		if seen[v] {
			return true
		}
		seen[v] = true
		if ph, ok := v.(*ssa.Phi); ok {
			for _, e := range ph.Edges {
				if !rec(e) {
					return false
				}
			}
			return true
		}
		if k, _, ok := g.nodesLookup(v); ok {
			return sameValue(k, arg)
		}
		// the node returned by an insertion helper called with this id (state = s.addNode(id, addr))
		if cl, ok := v.(*ssa.Call); ok {
			if sc := cl.Call.StaticCallee(); sc != nil {
				if idx, ok := g.insertHelperKey(sc); ok && idx < len(cl.Call.Args) {
					return sameValue(cl.Call.Args[idx], arg)
				}
			}
		}
		return false
	}
	return rec(root)
}

// pairingRule: every remote mutation is followed, before the next mutation,
// loop iteration or exit, by its watcher notification with matching arguments;
// and no notification is reachable without its mutation. kinds restricts the
// mutation kinds examined ("" = all).
func pairingRule(c *Ctx, g *gossipAnchors, rule string, only map[string]bool) {
	p := c.P
	all := g.allWrites()
	for _, fn := range sortedFuncs(all) {
		fs := computeFacts(fn)
		ws := all[fn]
		isMut := map[ssa.Instruction]gWrite{}
		for _, w := range ws {
			if w.lifted {
				continue // judged inside the helper, where the notification is
			}
			switch w.kind {
			case "nodes-insert", "entries-update", "entries-delete", "nodes-delete", "field:Left", "field:Unreachable":
				isMut[w.instr] = w
			}
		}
		for _, w := range ws {
			if _, ok := isMut[w.instr]; !ok {
				continue
			}
			if only != nil && !only[w.kind] {
				continue
			}
			if baseName(fn) == "newClusterState" {
				continue
			}
			// classify the target
			cls := "remote"
			if w.root != nil && w.kind != "nodes-insert" {
				cls, _ = g.rootClass(w.root, w.instr, fs)
			}
			if cls == "local" || cls == "fresh" {
				continue // own writes are not announced to the local watcher
			}
			key := fnName(fn) + "/" + w.kind
			if w.kind == "field:Left" || w.kind == "field:Unreachable" {
				if b, ok := constBool(w.val); ok {
					key += fmt.Sprintf("=%v", b)
				}
			}
			ev := entryVarOf(w.val)
			interesting := func(i ssa.Instruction) bool {
				if _, _, ok := watcherCall(g, i); ok {
					return true
				}
				if cl, ok := i.(*ssa.Call); ok && cl.Call.IsInvoke() && cl.Call.Method.Name() == "Remove" {
					_, ok := loadedField(cl.Call.Value, g.fdF)
					return ok
				}
				return false
			}
			stop := func(i ssa.Instruction) bool {
				m, ok := isMut[i]
				if !ok || i == w.instr {
					return false
				}
				// the insert's own initialisation and unrelated kinds do not end the window
				return m.kind == w.kind || m.kind == "nodes-insert" || m.kind == "entries-update"
			}
			internalFact := func(facts []Fact) bool {
				return anyFact(facts, func(f Fact) bool { return f.T && isEntryFieldLoad(f.V, ev, g.eInternal) })
			}
			deletedFact := func(facts []Fact, want bool) bool {
				return anyFact(facts, func(f Fact) bool { return f.T == want && isEntryFieldLoad(f.V, ev, g.eDeleted) })
			}
			// for entries-delete: the removed entry variable is the one whose Key is the delete key
			var removed ssa.Value
			if w.kind == "entries-delete" {
				if b, ok := loadedField(w.key, g.eKey); ok {
					removed = b
				}
			}
			done := func(pa *fpath) bool {
				if len(pa.seen) > 0 {
					if w.kind == "nodes-delete" {
						return len(pa.seen) >= 2
					}
					return true
				}
				switch w.kind {
				case "entries-update":
					return internalFact(pa.facts)
				case "entries-delete":
					return removed != nil && anyFact(pa.facts, func(f Fact) bool { return f.T && isEntryFieldLoad(f.V, removed, g.eDeleted) })
				}
				return false
			}
			paths, complete := enumPaths(w.instr, interesting, stop, done, 400)
			if !complete {
				c.undecided(rule, key, w.instr.Pos(), "too many paths after the mutation")
				continue
			}
			base := fs.At(w.instr.Block())
			bad := ""
			for _, pa := range paths {
				facts := append(append([]Fact(nil), base...), pa.facts...)
				if len(pa.seen) == 0 {
					if pa.endWhy == "done" {
						continue // exempt by facts
					}
					bad = fmt.Sprintf("a path from the mutation ends (%s at %s) without the notification; path facts %s", pa.endWhy, p.pos(pa.end.Pos()), factStrings(pa.facts))
					break
				}
				name, args, isW := watcherCall(g, pa.seen[0])
				okCall := false
				switch w.kind {
				case "nodes-insert":
					okCall = isW && name == "OnJoin" && sameValue(args[0], w.key)
				case "entries-update":
					switch {
					case isW && name == "OnUpsertKey":
						okCall = deletedFact(facts, false) && !internalFact(facts) && g.idMatches(args[0], w.root) &&
							isEntryFieldLoad(args[1], ev, g.eKey) && isEntryFieldLoad(args[2], ev, g.eValue)
					case isW && name == "OnDeleteKey":
						okCall = deletedFact(facts, true) && g.idMatches(args[0], w.root) && isEntryFieldLoad(args[1], ev, g.eKey)
					case isW && name == "OnLeave":
						okCall = internalFact(facts) // internal entries are folded into membership, not keys
					}
				case "entries-delete":
					okCall = isW && name == "OnDeleteKey" && g.idMatches(args[0], w.root) && sameValue(args[1], w.key)
				case "field:Left":
					okCall = isW && name == "OnLeave" && g.idMatches(args[0], w.root)
				case "field:Unreachable":
					b, _ := constBool(w.val)
					want := "OnReachable"
					if b {
						want = "OnUnreachable"
					}
					okCall = isW && name == want && g.idMatches(args[0], w.root)
				case "nodes-delete":
					exp, rem := false, false
					for _, s := range pa.seen {
						if n, a, ok := watcherCall(g, s); ok && n == "OnExpired" && sameValue(a[0], w.key) {
							exp = true
						} else if cl, ok := s.(*ssa.Call); ok && cl.Call.IsInvoke() && cl.Call.Method.Name() == "Remove" && sameValue(cl.Call.Args[0], w.key) {
							rem = true
						}
					}
					okCall = exp && rem
				}
				if !okCall {
					bad = fmt.Sprintf("after the mutation the first notification is %s at %s, which does not announce it (wrong callback, arguments or polarity); facts %s", name, p.pos(pa.seen[0].Pos()), factStrings(pa.facts))
					break
				}
			}
			if bad != "" {
				c.fail(rule, key, w.instr.Pos(), bad)
			} else {
				c.ok(rule, key, w.instr.Pos(), fmt.Sprintf("%d paths: each announces the change (or is exempt: internal entry / already-deleted entry)", len(paths)))
			}
		}
		// reverse direction: no notification without its mutation
		if only == nil {
			allInstrs(fn, func(i ssa.Instruction) {
				name, _, ok := watcherCall(g, i)
				if !ok {
					return
				}
				var muts []ssa.Instruction
				for in, m := range isMut {
					for _, k := range watcherFor[name] {
						if m.kind == k {
							muts = append(muts, in)
						}
					}
				}
				c.check(len(muts) > 0 && !blockReachesAvoiding(fn.Blocks[0], i, muts), rule, fnName(fn)+"/"+name+"-has-cause", i.Pos(),
					"notification is reachable only through its mutation", "the watcher can be notified of "+name+" on a path that did not perform the corresponding state change")
			})
		}
	}
	// every watcher call in the module is made from these functions (same package)
}

func init() {
	register(&propDef{
		id: "C14",
		meta: propMeta{
			explanation: "Decides the pairing skeleton of 'notifications fold to the visible state': for every write to a remote node's state in pkg/gossip (insert into the nodes table, entry store, entry delete in the compaction arm, Left/Unreachable flag stores, node deletion) every CFG path from the write reaches, before the next write of that kind, the next loop iteration or the function exit, the matching watcher call with matching arguments (OnJoin(key); OnUpsertKey(id,e.Key,e.Value) under e.Deleted false; OnDeleteKey(id,e.Key) under e.Deleted true; OnLeave; OnUnreachable/OnReachable; OnExpired) - internal entries and compaction of already-deleted entries are exempt by their path facts; conversely no watcher call is reachable without its write; watcher calls are made in the mutating function itself (synchronously, under the state lock), so their order is the order of the writes. Not decided: the fold equality over all delivery histories.",
			ruleText:    "obligation = one remote write site (paths enumerated) or one watcher call site; distinct = distinct keys",
			assumptions: []string{"watcher methods are invoked only by pkg/gossip clusterState methods (checked)", "clusterState.mu serialises the mutating functions (C20)"},
		},
		run: func(c *Ctx) {
			g := newGossipAnchors(c.P)
			if !g.ok {
				c.fail("C14.anchor", "pkg/gossip state types", token.NoPos, "unresolved:"+g.missing)
				return
			}
			c.floor("C14.R1", 14)
			c13NoAliasDecode(c, "C14.R2")
			pairingRule(c, g, "C14.R1", nil)
			seenW := map[string]bool{}
			// watcher invoked only from clusterState methods, never via go/defer
			n := 0
			for _, f := range c.P.ModFuncs {
				if isTestFile(c.P.Fset, f.Pos()) {
					continue
				}
				allInstrs(f, func(i ssa.Instruction) {
					cc := callCommon(i)
					if cc == nil || !cc.IsInvoke() {
						return
					}
					if _, ok := loadedField(cc.Value, g.watcherF); !ok {
						if cc.Method.Pkg() == nil || cc.Method.Pkg().Path() != modPath+"/"+gsPkg || !strings.HasPrefix(cc.Method.Name(), "On") {
							return
						}
					}
					n++
					seenW[cc.Method.Name()] = true
					_, isCall := i.(*ssa.Call)
					inState := f.Parent() == nil && f.Signature.Recv() != nil && strings.Contains(f.Signature.Recv().Type().String(), "clusterState")
					c.check(isCall && inState, "C14.R3", fnName(f)+"/"+cc.Method.Name()+"-synchronous", i.Pos(),
						"called directly in the mutating clusterState method", "a watcher notification is deferred, queued or issued outside the mutating method: its order relative to other notifications is no longer the order of the state changes")
				})
			}
			// every notification kind is issued somewhere (sites may be shared by a helper)
			for _, m := range []string{"OnJoin", "OnLeave", "OnReachable", "OnUnreachable", "OnUpsertKey", "OnDeleteKey", "OnExpired"} {
				c.check(seenW[m], "C14.R3", "watcher/"+m+"-is-issued", token.NoPos, "the notification is issued by some clusterState method", "the watcher method "+m+" is never called")
			}
			c.floor("C14.R3", 14)
		},
		mutants: []mutant{
			{Name: "compaction arm without OnDeleteKey", File: "pkg/gossip/state.go", Old: "\t\t\t\t\t\tif !e.Deleted {\n\t\t\t\t\t\t\t// If we didn't already know the entry was deleted,\n\t\t\t\t\t\t\t// notify the watcher.\n\t\t\t\t\t\t\ts.watcher.OnDeleteKey(entry.ID, e.Key)\n\t\t\t\t\t\t}\n", New: "", Rule: "C14.R1"},
			{Name: "OnUpsertKey for tombstones", File: "pkg/gossip/state.go", Old: "\t\t\tif e.Deleted {\n\t\t\t\ts.watcher.OnDeleteKey(entry.ID, e.Key)\n\t\t\t} else {", New: "\t\t\tif e.Deleted && e.Value != \"\" {\n\t\t\t\ts.watcher.OnDeleteKey(entry.ID, e.Key)\n\t\t\t} else {", Rule: "C14.R1"},
			{Name: "ApplyDigest without OnJoin", File: "pkg/gossip/state.go", Old: "\t\t\tEntries: make(map[string]Entry),\n\t\t}\n\n\t\ts.watcher.OnJoin(entry.ID)\n\t}\n}", New: "\t\t\tEntries: make(map[string]Entry),\n\t\t}\n\t}\n}", Rule: "C14.R1"},
			{Name: "OnReachable dropped", File: "pkg/gossip/state.go", Old: "\t\t\t\ts.watcher.OnReachable(node.ID)\n", New: "", Rule: "C14.R1"},
			{Name: "compaction notifies already-deleted keys only", File: "pkg/gossip/state.go", Old: "\t\t\t\t\t\tif !e.Deleted {\n\t\t\t\t\t\t\t// If we didn't", New: "\t\t\t\t\t\tif e.Deleted {\n\t\t\t\t\t\t\t// If we didn't", Rule: "C14.R1"},
			{Name: "OnLeave before the flag on an early path", File: "pkg/gossip/state.go", Old: "\t\t\t\tstate.Left = true\n\t\t\t\tstate.Expiry = time.Now().Add(nodeExpiry)\n\n\t\t\t\ts.watcher.OnLeave(entry.ID)", New: "\t\t\t\tstate.Left = true\n\t\t\t\tstate.Expiry = time.Now().Add(nodeExpiry)\n\n\t\t\t\ts.watcher.OnLeave(state.Addr)", Rule: "C14.R1"},
			{Name: "expiry notifies in a goroutine", File: "pkg/gossip/state.go", Old: "\t\ts.watcher.OnExpired(id)\n", New: "\t\tgo s.watcher.OnExpired(id)\n", Rule: "C14.R"},
			{Name: "benign: notification after the metrics call order swapped", Benign: true, File: "pkg/gossip/state.go", Old: "\t\tdelete(s.nodes, id)\n\n\t\ts.metrics.Entries.DeletePartialMatch(prometheus.Labels{\n\t\t\t\"node_id\": id,\n\t\t})\n\n\t\ts.watcher.OnExpired(id)\n", New: "\t\tdelete(s.nodes, id)\n\n\t\ts.watcher.OnExpired(id)\n\n\t\ts.metrics.Entries.DeletePartialMatch(prometheus.Labels{\n\t\t\t\"node_id\": id,\n\t\t})\n"},
		},
	})
}

// ---------------------------------------------------------------- C11

func init() {
	register(&propDef{
		id: "C11",
		meta: propMeta{
			explanation: "Decides the structural clauses of the membership lifecycle: (R1) Unreachable, Expiry and remote Left are never stored on the local node and the local node is never deleted from the table (same guard forms as C02.R1, helpers classified at every call site); the local Left flag is stored only together with the leave marker; (R2) Unreachable=true and remote Left=true are each paired in the same block with Expiry = now+nodeExpiry, Unreachable=false with Expiry = zero and only under Left false; (R3) the leave marker key is written only by the local leave, and a remote Left=true is stored only under the facts entry.Internal and entry.Key == leftKey; (R4) digest discovery inserts only under entry.Left false; (R5) deleting a node is followed on every path by OnExpired(id) and failureDetector.Remove(id); (R6) LiveNodes and Leave skip local, left and unreachable nodes; the routing side (status mapping, promotion keeps a recorded non-active status, active-only lookup) is checked by the C04 rules which this check also runs. Not decided: 'stays forgotten unless it really returns' (finding F2 in DESIGN.md: a missing mechanism, no sound static rule). Second round: (R6) UnreachableNodes is exactly the remote unreachable nodes, Leave never targets the node itself; (R7) Unreachable is written only on a real transition; (R8) loops complete; (R10) UpdateLiveness and RemoveExpired are driven by the scheduler and RemoveExpired forwards to RemoveExpiredAt(now).",
			ruleText:    "obligation = one store / insert / delete / append site; distinct = distinct keys",
			assumptions: []string{"the local id is inserted by the constructor only"},
		},
		run: runC11,
		mutants: []mutant{
			{Name: "UpdateLiveness revives left nodes", File: "pkg/gossip/state.go", Old: "\t\tif node.ID == s.localID || node.Left {\n", New: "\t\tif node.ID == s.localID {\n", Rule: "C11.R2"},
			{Name: "local-id skip removed in UpdateLiveness", File: "pkg/gossip/state.go", Old: "\t\tif node.ID == s.localID || node.Left {\n", New: "\t\tif node.Left {\n", Rule: "C11.R1"},
			{Name: "ApplyDigest accepts left unknown nodes", File: "pkg/gossip/state.go", Old: "\t\tif entry.Left {\n\t\t\tcontinue\n\t\t}\n", New: "", Rule: "C11.R4"},
			{Name: "expiry without OnExpired", File: "pkg/gossip/state.go", Old: "\t\ts.watcher.OnExpired(id)\n", New: "", Rule: "C11.R5"},
			{Name: "unreachable without expiry", File: "pkg/gossip/state.go", Old: "\t\t\t\tnode.Unreachable = true\n\t\t\t\tnode.Expiry = time.Now().Add(nodeExpiry)\n", New: "\t\t\t\tnode.Unreachable = true\n", Rule: "C11.R2"},
			{Name: "reachable keeps the expiry", File: "pkg/gossip/state.go", Old: "\t\t\t\tnode.Unreachable = false\n\t\t\t\tnode.Expiry = time.Time{}\n", New: "\t\t\t\tnode.Unreachable = false\n", Rule: "C11.R2"},
			{Name: "any internal key marks a node left", File: "pkg/gossip/state.go", Old: "\t\t\tif e.Key == leftKey {\n", New: "\t\t\tif e.Key != compactKey {\n", Rule: "C11.R3"},
			{Name: "LiveNodes includes left nodes", File: "pkg/gossip/state.go", Old: "\t\tif node.Unreachable || node.Left {\n\t\t\tcontinue\n\t\t}\n\t\tmetadata = append(metadata, node.NodeMetadata)\n\t}\n\treturn metadata\n}\n\n// UnreachableNodes", New: "\t\tif node.Unreachable {\n\t\t\tcontinue\n\t\t}\n\t\tmetadata = append(metadata, node.NodeMetadata)\n\t}\n\treturn metadata\n}\n\n// UnreachableNodes", Rule: "C11.R6"},
			{Name: "benign: flag/expiry stores reordered in one block", Benign: true, File: "pkg/gossip/state.go", Old: "\t\t\t\tnode.Unreachable = true\n\t\t\t\tnode.Expiry = time.Now().Add(nodeExpiry)\n", New: "\t\t\t\tnode.Expiry = time.Now().Add(nodeExpiry)\n\t\t\t\tnode.Unreachable = true\n"},
		},
	})
}

func runC11(c *Ctx) {
	driverRule(c, "C11.R10", []string{"clusterState).UpdateLiveness", "clusterState).RemoveExpired"})
	facadeRule(c, "C11.R10", []facadeSpec{{gsPkg, "clusterState.RemoveExpired", "clusterState).RemoveExpiredAt", "time.Now", false}})
	p := c.P
	g := newGossipAnchors(p)
	if !g.ok {
		c.fail("C11.anchor", "pkg/gossip state types", token.NoPos, "unresolved:"+g.missing)
		return
	}
	c.floor("C11.R1", 8)
	c11R1(c, g)
	c11R2R3(c, g)
	c.floor("C11.R5", 1)
	pairingRule(c, g, "C11.R5", map[string]bool{"nodes-delete": true})
	c11R6(c, g)
	c11Transitions(c, g)
	c11FullOnlyOnJoin(c)
	gsLoopsComplete(c, g, "C11.R8")
	// routing follows membership
	c04StatusRules(c, "C11.R6")
	c04KeyRules(c)
}

func c11R1(c *Ctx, g *gossipAnchors) {
	all := g.allWrites()
	for _, fn := range sortedFuncs(all) {
		fs := computeFacts(fn)
		// does this function also publish the leave marker on the local node?
		publishesLeave := false
		for _, w := range all[fn] {
			if w.kind == "entries-update" && g.isLocalState(w.root) {
				if s, ok := constString(w.key); ok && s == g.leftKey {
					publishesLeave = true
				}
			}
		}
		for _, w := range all[fn] {
			key := fnName(fn) + "/" + w.kind
			switch w.kind {
			case "field:Unreachable", "field:Expiry", "field:Left":
				cls, why := g.rootClass(w.root, w.instr, fs)
				switch {
				case cls == "remote" || cls == "fresh":
					c.ok("C11.R1", key, w.instr.Pos(), why)
				case cls == "local" && w.kind == "field:Left" && publishesLeave:
					c.ok("C11.R1", key, w.instr.Pos(), "the local node declares itself left together with publishing the leave marker")
				case cls == "local":
					c.fail("C11.R1", key, w.instr.Pos(), "membership field "+w.kind[6:]+" is stored on the local node: the local node can be marked unreachable or expire")
				default:
					c.fail("C11.R1", key, w.instr.Pos(), "membership field "+w.kind[6:]+" is stored on a node that may be the local node: "+why)
				}
			case "nodes-delete":
				facts := fs.At(w.instr.Block())
				keyGuard := anyFact(facts, func(f Fact) bool {
					return cmpFact(f, token.NEQ, func(a ssa.Value) bool { return sameValue(a, w.key) },
						func(a ssa.Value) bool { _, ok := loadedField(a, g.localIDF); return ok })
				})
				ok, why := g.expiredListKey(w.key, fs)
				c.check(keyGuard || ok, "C11.R1", key, w.instr.Pos(), "deleted ids never include the local node: "+why, "the local node can be removed from the table: "+why)
			}
		}
	}
}

func isZeroStruct(v ssa.Value) bool {
	c, ok := strip(v).(*ssa.Const)
	return ok && c.Value == nil
}

func c11R2R3(c *Ctx, g *gossipAnchors) {
	p := c.P
	c.floor("C11.R2", 3)
	c.floor("C11.R3", 2)
	c.floor("C11.R4", 1)
	var expiryNs int64 = -1
	if sp := p.Pkg(gsPkg); sp != nil {
		if k := sp.Const("nodeExpiry"); k != nil {
			if n, ok := constInt(k.Value); ok {
				expiryNs = n
			}
		}
	}
	if expiryNs <= 0 {
		c.fail("C11.anchor", "const nodeExpiry", token.NoPos, "not found")
	}
	all := g.allWrites()
	for _, fn := range sortedFuncs(all) {
		fs := computeFacts(fn)
		for _, w := range all[fn] {
			if w.kind != "field:Unreachable" && w.kind != "field:Left" {
				// R3: leave marker written only on the local node
				if w.kind == "entries-update" {
					if s, ok := constString(w.key); ok && s == g.leftKey {
						c.check(g.isLocalState(w.root), "C11.R3", fnName(fn)+"/leave-marker-store", w.instr.Pos(), "the leave marker is written on the local node only", "the leave marker is written for another node: only the owner may declare itself left")
					}
				}
				// R4: discovery from a digest
				if w.kind == "nodes-insert" && baseName(fn) != "newClusterState" {
					if b, ok := loadedField(w.key, p.Field(gsPkg, "digestEntry", "ID")); ok {
						facts := fs.At(w.instr.Block())
						notLeft := anyFact(facts, func(f Fact) bool {
							bb, ok := loadedField(f.V, p.Field(gsPkg, "digestEntry", "Left"))
							return ok && !f.T && path(bb) == path(b)
						})
						c.check(notLeft, "C11.R4", fnName(fn)+"/digest-insert", w.instr.Pos(), "unknown nodes are discovered from a digest only when not flagged left",
							"a node flagged left in a digest can be (re-)discovered: departed nodes are re-learned from peers; facts "+factStrings(facts))
					}
				}
				continue
			}
			cls, _ := g.rootClass(w.root, w.instr, fs)
			if cls != "remote" {
				continue
			}
			val, isConst := constBool(w.val)
			key := fmt.Sprintf("%s/%s=%v", fnName(fn), w.kind, val)
			if !isConst {
				c.fail("C11.R2", key, w.instr.Pos(), "membership flag stored from a non-constant")
				continue
			}
			// the Expiry store in the same block on the same root
			var exp *ssa.Store
			for _, in := range w.instr.Block().Instrs {
				if st, ok := in.(*ssa.Store); ok {
					if r, fv, ok := g.stateRootOfAddr(st.Addr); ok && fv == g.expF && strip(r) == strip(w.root) {
						exp = st
					}
				}
			}
			facts := fs.At(w.instr.Block())
			switch {
			case val:
				good := false
				if exp != nil {
					if cl, ok := exp.Val.(*ssa.Call); ok && commonName(&cl.Call) == "(time.Time).Add" {
						if now, ok := cl.Call.Args[0].(*ssa.Call); ok && commonName(&now.Call) == "time.Now" {
							if n, ok := constInt(cl.Call.Args[1]); ok && n == expiryNs {
								good = true
							}
						}
					}
				}
				c.check(good, "C11.R2", key, w.instr.Pos(), "paired with Expiry = time.Now().Add(nodeExpiry)", "the flag is set without Expiry = now + nodeExpiry: the node is never forgotten (or forgotten at the wrong time)")
				if w.kind == "field:Left" {
					ev := ssa.Value(nil)
					internal, isLeft := false, false
					for _, f := range facts {
						if b, ok := loadedField(f.V, g.eInternal); ok && f.T {
							internal, ev = true, b
						}
					}
					for _, f := range facts {
						if cmpFact(f, token.EQL, func(a ssa.Value) bool {
							b, ok := loadedField(a, g.eKey)
							return ok && (ev == nil || strip(b) == strip(ev))
						},
							func(a ssa.Value) bool { s, ok := constString(a); return ok && s == g.leftKey }) {
							isLeft = true
						}
					}
					if isLeft && !internal {
						// `e.Internal` may be tested by the caller of an extracted helper
						for _, f := range facts {
							op, x, y, ok := f.Cmp()
							if !ok || op != token.EQL {
								continue
							}
							for _, side := range []ssa.Value{x, y} {
								if b, ok := loadedField(side, g.eKey); ok {
									if p.holdsUp(fn, w.instr.Block(), b, func(base ssa.Value, fx []Fact) bool {
										return anyFact(fx, func(f2 Fact) bool {
											bb, ok := loadedField(f2.V, g.eInternal)
											return ok && f2.T && strip(bb) == strip(base)
										})
									}, 0) {
										internal = true
									}
								}
							}
						}
					}
					c.check(internal && isLeft, "C11.R3", key+"/cause", w.instr.Pos(), "a remote node is marked left only on receiving its own internal leave marker",
						"a remote node can be marked left without having received its internal leave marker; facts "+factStrings(facts))
				}
			default: // Unreachable = false
				good := exp != nil && isZeroStruct(exp.Val)
				notLeft := anyFact(facts, func(f Fact) bool {
					b, ok := loadedField(f.V, g.leftF)
					return ok && !f.T && strip(metaRoot(b, g)) == strip(w.root)
				})
				c.check(good && notLeft, "C11.R2", key, w.instr.Pos(), "paired with Expiry = zero, only for nodes that have not left",
					"a node is marked reachable again without clearing its expiry, or although it has left (a left node is revived); facts "+factStrings(facts))
			}
		}
	}
}

func c11R6(c *Ctx, g *gossipAnchors) {
	p := c.P
	c.floor("C11.R6", 3)
	// LiveNodes: appends only nodes that are not local, not unreachable, not left
	if fn := p.Func(gsPkg, "clusterState.LiveNodes"); fn != nil {
		c.analysed(fnName(fn))
		fs := computeFacts(fn)
		n := 0
		allInstrs(fn, func(i ssa.Instruction) {
			cl, ok := i.(*ssa.Call)
			if !ok {
				return
			}
			if b, ok := cl.Call.Value.(*ssa.Builtin); !ok || b.Name() != "append" {
				return
			}
			n++
			facts := fs.At(cl.Block())
			flagFalse := func(fv *types.Var) bool {
				return anyFact(facts, func(f Fact) bool { _, ok := loadedField(f.V, fv); return ok && !f.T })
			}
			notLocal := anyFact(facts, func(f Fact) bool {
				return cmpFact(f, token.NEQ, func(a ssa.Value) bool { _, ok := loadedField(a, g.idF); return ok }, func(a ssa.Value) bool { _, ok := loadedField(a, g.localIDF); return ok })
			})
			c.check(flagFalse(g.unreachF) && flagFalse(g.leftF) && notLocal, "C11.R6", fnName(fn)+"/append", cl.Pos(), "live = not local, not unreachable, not left",
				"LiveNodes can return the local, an unreachable or a left node; facts "+factStrings(facts))
		})
		if n == 0 {
			c.fail("C11.R6", fnName(fn)+"/append", fn.Pos(), "no append found")
		}
	} else {
		c.fail("C11.anchor", "clusterState.LiveNodes", token.NoPos, "not found")
	}
	// UnreachableNodes (the probe list through which a silent node can be heard from again): exactly the remote nodes marked unreachable
	if fn := p.Func(gsPkg, "clusterState.UnreachableNodes"); fn != nil {
		c.analysed(fnName(fn))
		fs := computeFacts(fn)
		n := 0
		allInstrs(fn, func(i ssa.Instruction) {
			cl, ok := i.(*ssa.Call)
			if !ok {
				return
			}
			if b, ok := cl.Call.Value.(*ssa.Builtin); !ok || b.Name() != "append" {
				return
			}
			n++
			facts := fs.At(cl.Block())
			unreach := anyFact(facts, func(f Fact) bool { _, ok := loadedField(f.V, g.unreachF); return ok && f.T })
			notLocal := anyFact(facts, func(f Fact) bool {
				return cmpFact(f, token.NEQ, func(a ssa.Value) bool { _, ok := loadedField(a, g.idF); return ok }, func(a ssa.Value) bool { _, ok := loadedField(a, g.localIDF); return ok })
			})
			c.check(unreach && notLocal, "C11.R6", fnName(fn)+"/append", cl.Pos(), "probe list = remote nodes marked unreachable",
				"UnreachableNodes does not return exactly the remote nodes marked unreachable: they are never probed again (or the local node is); facts "+factStrings(facts))
		})
		if n == 0 {
			c.fail("C11.R6", fnName(fn)+"/append", fn.Pos(), "no append found")
		}
	}
	// Gossip.Leave notifies only nodes that are neither left nor unreachable
	if fn := p.Func(gsPkg, "Gossip.Leave"); fn != nil {
		c.analysed(fnName(fn))
		fs := computeFacts(fn)
		left, unreach := p.Field(gsPkg, "NodeMetadata", "Left"), p.Field(gsPkg, "NodeMetadata", "Unreachable")
		for _, call := range findCalls(fn, "(*"+modPath+"/pkg/gossip.Gossip).leave") {
			facts := fs.At(call.Block())
			f1 := anyFact(facts, func(f Fact) bool { _, ok := loadedField(f.V, left); return ok && !f.T })
			f2 := anyFact(facts, func(f Fact) bool { _, ok := loadedField(f.V, unreach); return ok && !f.T })
			c.check(f1 && f2, "C11.R6", fnName(fn)+"/leave-target", call.Pos(), "leave is sent only to nodes that are neither left nor unreachable", "leave can be sent to a left or unreachable node; facts "+factStrings(facts))
			idF := p.Field(gsPkg, "NodeMetadata", "ID")
			notSelf := anyFact(facts, func(f Fact) bool {
				return cmpFact(f, token.NEQ, func(v ssa.Value) bool { _, ok := loadedField(v, idF); return ok }, func(v ssa.Value) bool { _, ok := loadedField(v, idF); return ok })
			})
			c.check(notSelf, "C11.R6", fnName(fn)+"/leave-target-not-self", call.Pos(), "leave is sent only to other nodes", "the departure is announced to the node itself instead of (or as well as) its peers; facts "+factStrings(facts))
		}
		loopsComplete(c, "C11.R6", []*ssa.Function{fn}, 0)
	}
}

// ---------------------------------------------------------------- rules added after the generic mutation sweep

// gsLoopsComplete: no loop of a clusterState method is left early: the only
// way out of a loop is exhausting its range, or returning from the function.
// (A `break` in a sweep over the nodes table or over received entries silently
// skips the rest: map order is arbitrary and deltas are sorted ascending.)
func gsLoopsComplete(c *Ctx, g *gossipAnchors, rule string) {
	loopsComplete(c, rule, g.stateFuncs(), 15)
}

func loopsComplete(c *Ctx, rule string, fns []*ssa.Function, floor int) {
	p := c.P
	n := 0
	for _, fn := range fns {
		for _, hdr := range fn.Blocks {
			isHeader := false
			for _, pb := range hdr.Preds {
				if hdr.Dominates(pb) {
					isHeader = true
				}
			}
			if !isHeader {
				continue
			}
			n++
			body := naturalLoop(hdr)
			inLoop := func(b *ssa.BasicBlock) bool { return body[b] }
			bad := ""
			for _, b := range fn.Blocks {
				if !inLoop(b) || b == hdr {
					continue
				}
				for _, sb := range b.Succs {
					if inLoop(sb) {
						continue
					}
					// leaving the loop from inside its body: allowed if that path returns without re-joining,
					// or if it is a search that found something (the exit edge carries a value the normal exit does not)
					if !onlyReturns(sb, hdr) && !foundBreak(b, sb, hdr) {
						bad = "the loop can be left early at " + p.pos(b.Instrs[len(b.Instrs)-1].Pos())
					}
				}
			}
			c.check(bad == "", rule, fmt.Sprintf("%s/loop@block%d-complete", fnName(fn), hdr.Index), hdr.Instrs[0].Pos(), "the loop is left only when its range is exhausted (or by returning)",
				bad+": the remaining nodes/entries are silently skipped")
		}
	}
	if floor > 0 {
		c.floor(rule, floor)
	}
	_ = n
}

// onlyReturns: every path from b ends in a return without passing code that
// follows the loop normally (i.e. b is an early-return arm).
func onlyReturns(b *ssa.BasicBlock, hdr *ssa.BasicBlock) bool {
	// the normal exit of the loop is the header's out-of-loop successor; an early-return arm must not reach it
	var exit *ssa.BasicBlock
	body := naturalLoop(hdr)
	for _, s := range hdr.Succs {
		if !body[s] {
			exit = s
		}
	}
	if exit == nil {
		return false
	}
	if b == exit {
		return false
	}
	seen := map[*ssa.BasicBlock]bool{}
	var rec func(x *ssa.BasicBlock) bool
	rec = func(x *ssa.BasicBlock) bool {
		if x == exit {
			return false
		}
		if seen[x] {
			return true
		}
		seen[x] = true
		for _, s := range x.Succs {
			if !rec(s) {
				return false
			}
		}
		return true
	}
	return rec(b)
}

// c02ApplyAdvances: every received entry that is stored advances the node's
// applied version to that entry's version before the next entry is looked at.
func c02ApplyAdvances(c *Ctx, g *gossipAnchors, rule string) {
	p := c.P
	all := g.allWrites()
	n := 0
	for _, fn := range sortedFuncs(all) {
		fs := computeFacts(fn)
		for _, w := range all[fn] {
			if w.kind != "entries-update" {
				continue
			}
			if cls, _ := g.rootClass(w.root, w.instr, fs); cls != "remote" {
				continue
			}
			n++
			ev := entryVarOf(w.val)
			isAdvance := func(i ssa.Instruction) bool {
				st, ok := i.(*ssa.Store)
				if !ok {
					return false
				}
				r, fv, ok := g.stateRootOfAddr(st.Addr)
				if !ok || fv != g.versionF || strip(r) != strip(w.root) {
					return false
				}
				b, ok := loadedField(st.Val, g.eVersion)
				return ok && strip(b) == strip(ev)
			}
			// in the same block, before any branch
			found := false
			for _, in := range w.instr.Block().Instrs {
				if isAdvance(in) {
					found = true
				}
			}
			if !found {
				if end := everyPathFrom(w.instr, isAdvance, nil, true); end == nil {
					found = true
				}
			}
			c.check(found, rule, fnName(fn)+"/stored-entry-advances-version", w.instr.Pos(), "storing a received entry is followed by Version = e.Version",
				"a received entry is stored without advancing the node's applied version to it: the digest keeps reporting an old version (everything is re-requested and re-applied, and relayed state looks older than it is) at "+p.pos(w.instr.Pos()))
		}
	}
	if n == 0 {
		c.fail(rule, "remote-entry-stores", token.NoPos, "no store of a received entry found")
	}
}

// c11Transitions: liveness flags change only on a real transition.
func c11Transitions(c *Ctx, g *gossipAnchors) {
	all := g.allWrites()
	c.floor("C11.R7", 2)
	for _, fn := range sortedFuncs(all) {
		fs := computeFacts(fn)
		for _, w := range all[fn] {
			if w.kind != "field:Unreachable" {
				continue
			}
			if cls, _ := g.rootClass(w.root, w.instr, fs); cls != "remote" {
				continue
			}
			val, ok := constBool(w.val)
			if !ok {
				continue
			}
			facts := fs.At(w.instr.Block())
			prev := anyFact(facts, func(f Fact) bool {
				b, ok := loadedField(f.V, g.unreachF)
				return ok && f.T == !val && strip(metaRoot(b, g)) == strip(w.root)
			})
			if !prev {
				// equivalent form: `x != node.Unreachable` together with x == val (x the newly computed liveness)
				for _, f := range facts {
					op, x, y, ok := f.Cmp()
					if !ok || op != token.NEQ {
						continue
					}
					for _, pair := range [][2]ssa.Value{{x, y}, {y, x}} {
						b, isU := loadedField(pair[1], g.unreachF)
						if !isU || strip(metaRoot(b, g)) != strip(w.root) {
							continue
						}
						other := pair[0]
						if anyFact(facts, func(f2 Fact) bool { return f2.V == other && f2.T == val }) {
							prev = true
						}
					}
				}
			}
			c.check(prev, "C11.R7", fmt.Sprintf("%s/Unreachable=%v-on-transition", fnName(fn), val), w.instr.Pos(), "the flag is written only when it changes",
				fmt.Sprintf("Unreachable=%v is not written exactly on the transition from %v (guard missing or inverted): either the node is never marked, or each sweep re-arms its expiry and re-notifies so it is never forgotten; facts %s", val, !val, factStrings(facts)))
		}
	}
}

// c02InsertOnMiss (C02.R9): a node object is put into the table only where the
// table is known not to hold that id (or at construction): inserting over a
// known node discards everything learned about it.
func c02InsertOnMiss(c *Ctx, g *gossipAnchors, rule string) {
	all := g.allWrites()
	n := 0
	for _, fn := range sortedFuncs(all) {
		if strings.HasPrefix(fn.Name(), "new") {
			continue
		}
		fs := computeFacts(fn)
		for _, w := range all[fn] {
			if w.kind != "nodes-insert" || w.inHelper {
				continue
			}
			n++
			facts := fs.At(w.instr.Block())
			miss := anyFact(facts, func(f Fact) bool {
				ex, ok := f.V.(*ssa.Extract)
				if !ok || ex.Index != 1 || f.T {
					return false
				}
				lk, ok := ex.Tuple.(*ssa.Lookup)
				if !ok {
					return false
				}
				_, isNodes := loadedField(lk.X, g.nodesF)
				return isNodes && sameValue(lk.Index, w.key)
			})
			c.check(miss, rule, fnName(fn)+"/insert-only-on-miss", w.instr.Pos(), "a node is inserted only under `_, ok := nodes[id]; !ok`",
				"a node object is stored into the table without knowing the id is absent (guard missing or inverted): a known node's state is replaced by an empty one (and an unknown one is dereferenced as nil); facts "+factStrings(facts))
		}
	}
	if n == 0 {
		c.fail(rule, "nodes-insert", token.NoPos, "no insertion of a discovered node found")
	}
}

// c02ObserverCompaction (C02.R8): on receiving the owner's compaction marker an
// observer drops exactly the entries at or below the compaction version.
func c02ObserverCompaction(c *Ctx, g *gossipAnchors, rule string) {
	p := c.P
	all := g.allWrites()
	n := 0
	for _, fn := range sortedFuncs(all) {
		fs := computeFacts(fn)
		for _, w := range all[fn] {
			if w.kind != "entries-delete" {
				continue
			}
			if cls, _ := g.rootClass(w.root, w.instr, fs); cls != "remote" {
				continue
			}
			n++
			facts := fs.At(w.instr.Block())
			// key is the Key of the ranged element x of the same Entries map
			xb, ok := loadedField(w.key, g.eKey)
			bad := ""
			if !ok {
				bad = "the key deleted is not the key of the entry being examined"
			}
			var cv ssa.Value
			leq := anyFact(facts, func(f Fact) bool {
				return cmpFact(f, token.LEQ, func(v ssa.Value) bool {
					b, ok := loadedField(v, g.eVersion)
					return ok && xb != nil && strip(b) == strip(xb)
				}, func(v ssa.Value) bool {
					cv = strip(v)
					return true
				})
			})
			if bad == "" && !leq {
				bad = "entries are not dropped exactly when entry.Version <= the received compaction version"
			}
			if bad == "" {
				isCompact := func(v ssa.Value) bool { s, ok := constString(v); return ok && s == g.compactKey }
				// provenance of the compaction version, followed through helper parameters
				var parsedOK func(f *ssa.Function, blk *ssa.BasicBlock, v ssa.Value, depth int) string
				parsedOK = func(f *ssa.Function, blk *ssa.BasicBlock, v ssa.Value, depth int) string {
					v = strip(v)
					if ex, ok := v.(*ssa.Extract); ok && ex.Index == 0 {
						parse, ok := ex.Tuple.(*ssa.Call)
						if !ok || commonName(&parse.Call) != "strconv.ParseUint" {
							return "the compaction version is not the parsed value of the received entry"
						}
						if !anyFact(computeFacts(f).At(blk), func(ft Fact) bool {
							return cmpFact(ft, token.EQL, func(v ssa.Value) bool {
								e2, ok := strip(v).(*ssa.Extract)
								return ok && e2.Index == 1 && e2.Tuple == ssa.Value(parse)
							}, isNilConst)
						}) {
							return "not under a successful parse of the compaction version"
						}
						eb, ok := loadedField(parse.Call.Args[0], g.eValue)
						if !ok {
							// the value handed to a helper as a plain string: judge at every call site
							if pv, isP := strip(parse.Call.Args[0]).(*ssa.Parameter); isP && depth < 3 && f.Object() != nil && !f.Object().Exported() {
								idx := -1
								for k, pp := range f.Params {
									if pp == pv {
										idx = k
									}
								}
								sites := 0
								for _, e := range p.callersOf(f) {
									cf := e.Caller.Func
									if cf == nil || isTestFile(p.Fset, cf.Pos()) || e.Site == nil || !inModule(cf) {
										continue
									}
									args := e.Site.Common().Args
									if idx < 0 || idx >= len(args) {
										return "a call site does not bind the compaction value"
									}
									sites++
									eb2, ok2 := loadedField(args[idx], g.eValue)
									if !ok2 {
										return "the compaction version is not parsed from the received entry's value"
									}
									isCompact2 := func(v ssa.Value) bool { s, ok := constString(v); return ok && s == g.compactKey }
									k2 := p.holdsUp(cf, e.Site.Block(), eb2, func(base ssa.Value, fx []Fact) bool {
										isE := func(v ssa.Value) bool { b, ok := loadedField(v, g.eKey); return ok && strip(b) == strip(base) }
										return anyFact(fx, func(ft Fact) bool { return cmpFact(ft, token.EQL, isE, isCompact2) })
									}, 0)
									i2 := p.holdsUp(cf, e.Site.Block(), eb2, func(base ssa.Value, fx []Fact) bool {
										return anyFact(fx, func(ft Fact) bool {
											b, ok := loadedField(ft.V, g.eInternal)
											return ok && ft.T && strip(b) == strip(base)
										})
									}, 0)
									if !k2 || !i2 {
										return "not under `e.Internal && e.Key == compactKey` of the received entry"
									}
								}
								if sites > 0 {
									return ""
								}
							}
							return "the compaction version is not parsed from the received entry's value"
						}
						keyOK := p.holdsUp(f, blk, eb, func(base ssa.Value, fx []Fact) bool {
							isE := func(v ssa.Value) bool { b, ok := loadedField(v, g.eKey); return ok && strip(b) == strip(base) }
							return anyFact(fx, func(ft Fact) bool { return cmpFact(ft, token.EQL, isE, isCompact) })
						}, 0)
						internal := p.holdsUp(f, blk, eb, func(base ssa.Value, fx []Fact) bool {
							return anyFact(fx, func(ft Fact) bool {
								b, ok := loadedField(ft.V, g.eInternal)
								return ok && ft.T && strip(b) == strip(base)
							})
						}, 0)
						if !keyOK || !internal {
							return "not under `e.Internal && e.Key == compactKey` of the received entry"
						}
						return ""
					}
					if pv, ok := v.(*ssa.Parameter); ok && depth < 3 && f.Object() != nil && !f.Object().Exported() {
						idx := -1
						for k, pp := range f.Params {
							if pp == pv {
								idx = k
							}
						}
						sites := 0
						for _, e := range p.callersOf(f) {
							cf := e.Caller.Func
							if cf == nil || isTestFile(p.Fset, cf.Pos()) || e.Site == nil || !inModule(cf) {
								continue
							}
							args := e.Site.Common().Args
							if idx < 0 || idx >= len(args) {
								return "a call site does not bind the compaction version"
							}
							sites++
							if why := parsedOK(cf, e.Site.Block(), args[idx], depth+1); why != "" {
								return why
							}
						}
						if sites > 0 {
							return ""
						}
					}
					return "the compaction version is not the parsed value of the received entry"
				}
				bad = parsedOK(fn, w.instr.Block(), cv, 0)
			}
			// no further condition on the examined entry
			if bad == "" {
				for _, f := range facts {
					if b, ok := loadedField(f.V, g.eDeleted); ok && strip(b) == strip(xb) {
						bad = "dropping additionally depends on the entry's Deleted flag"
					}
				}
			}
			c.check(bad == "", rule, fnName(fn)+"/drops-compacted-entries", w.instr.Pos(), "delete(R.Entries, x.Key) for every x with x.Version <= parsed compaction version, under the received internal compact key",
				"observer-side compaction is wrong at "+p.pos(w.instr.Pos())+": "+bad+"; facts "+factStrings(facts))
		}
	}
	// the purge happens whenever a compaction marker was stored and parsed: every path from a successful
	// parse of a received entry's value reaches the scan of that node's entries (or a helper that contains it)
	for _, fn := range sortedFuncs(all) {
		allInstrs(fn, func(i ssa.Instruction) {
			parse, ok := i.(*ssa.Call)
			if !ok || commonName(&parse.Call) != "strconv.ParseUint" {
				return
			}
			if _, ok := loadedField(parse.Call.Args[0], g.eValue); !ok {
				return
			}
			// versions are uint64 counters: a narrower parse fails on a long-lived owner and the purge is skipped
			base, okB := constInt(parse.Call.Args[1])
			bits, okW := constInt(parse.Call.Args[2])
			c.check(okB && okW && base == 10 && bits == 64, rule, fnName(fn)+"/compaction-version-parsed-in-full", parse.Pos(), "strconv.ParseUint(value, 10, 64)",
				"the compaction version is not parsed as a base-10 64-bit value: beyond the narrower range the parse fails and observers keep entries the owner has compacted away")
			var cvv, perr ssa.Value
			for _, r := range *parse.Referrers() {
				if ex, ok := r.(*ssa.Extract); ok {
					if ex.Index == 0 {
						cvv = ex
					} else {
						perr = ex
					}
				}
			}
			if cvv == nil {
				return
			}
			isScan := func(in ssa.Instruction) bool {
				if rg, ok := in.(*ssa.Range); ok {
					_, isEntries := loadedField(rg.X, g.entriesF)
					return isEntries
				}
				// a helper that receives the parsed version and contains a removal of entries
				if cc := callCommon(in); cc != nil {
					if sc := cc.StaticCallee(); sc != nil && inModule(sc) {
						for _, a := range cc.Args {
							if strip(a) == cvv {
								for _, w := range all[sc] {
									if w.kind == "entries-delete" {
										return true
									}
								}
							}
						}
					}
				}
				return false
			}
			paths, complete := enumPaths(parse, isScan, nil, func(pa *fpath) bool { return len(pa.seen) > 0 }, 400)
			bad := ""
			if !complete {
				bad = "too many paths"
			}
			for _, pa := range paths {
				if len(pa.seen) > 0 || pa.endWhy == "panic" || infeasible(pa.facts) {
					continue
				}
				if perr != nil && anyFact(pa.facts, func(f Fact) bool {
					return cmpFact(f, token.NEQ, func(v ssa.Value) bool { return strip(v) == perr }, isNilConst)
				}) {
					continue // unparsable marker
				}
				bad = "a path from a successfully parsed compaction marker ends at " + p.pos(pa.end.Pos()) + " without scanning the node's entries; facts " + factStrings(pa.facts)
			}
			c.check(bad == "", rule, fnName(fn)+"/compaction-always-purges", parse.Pos(), "every received, parsable compaction marker leads to the purge", "the purge of compacted entries can be skipped: "+bad+" - keys whose deletion marker was compacted away stay visible although the observer's version says it has caught up")
		})
	}
	if n == 0 {
		c.fail(rule, "observer-compaction", token.NoPos, "no removal of compacted entries from a remote node's state found: keys whose deletion marker was compacted away are reported forever")
	}
}

// naturalLoop: the blocks of the natural loop(s) headed by hdr.
func naturalLoop(hdr *ssa.BasicBlock) map[*ssa.BasicBlock]bool {
	body := map[*ssa.BasicBlock]bool{hdr: true}
	var work []*ssa.BasicBlock
	for _, pb := range hdr.Preds {
		if hdr.Dominates(pb) && !body[pb] {
			body[pb] = true
			work = append(work, pb)
		}
	}
	for len(work) > 0 {
		b := work[len(work)-1]
		work = work[:len(work)-1]
		for _, pb := range b.Preds {
			if !body[pb] {
				body[pb] = true
				work = append(work, pb)
			}
		}
	}
	return body
}

// foundBreak: the early exit b -> sb delivers, through a phi of sb, a value
// different from the one delivered by the loop's normal exit: a search that
// stops because it found what it was looking for, not a skip.
func foundBreak(b, sb, hdr *ssa.BasicBlock) bool {
	bi, hi := -1, -1
	for k, pb := range sb.Preds {
		if pb == b {
			bi = k
		}
		if pb == hdr {
			hi = k
		}
	}
	if bi < 0 || hi < 0 {
		return false
	}
	for _, in := range sb.Instrs {
		ph, ok := in.(*ssa.Phi)
		if !ok {
			break
		}
		if ph.Edges[bi] != ph.Edges[hi] {
			return true
		}
	}
	return false
}

// c11FullOnlyOnJoin (C11.R11): the "push every node the peer did not name"
// form of Delta is used only to answer a join stream. Used for ordinary digests
// it hands a node that has expired a departed peer that peer's full state back
// from any survivor that has not expired it yet, so the departed node is
// re-learned and never forgotten.
func c11FullOnlyOnJoin(c *Ctx) {
	p := c.P
	n := 0
	for _, fn := range pkgFuncs(p, "pkg/gossip") {
		for _, g := range withAnon(fn) {
			allInstrs(g, func(i ssa.Instruction) {
				cl, ok := i.(*ssa.Call)
				if !ok || !strings.HasSuffix(commonName(&cl.Call), "clusterState).Delta") || len(cl.Call.Args) < 3 {
					return
				}
				n++
				full, isK := constBool(cl.Call.Args[2])
				onStream := fn.Signature.Recv() != nil && strings.HasSuffix(fn.Signature.Recv().Type().String(), "streamListener")
				c.check(isK && (!full || onStream), "C11.R11", fnName(fn)+"/full-delta-only-on-join", cl.Pos(), "Delta(digest, true) only in the stream join handler; a constant everywhere",
					"an ordinary (datagram) digest is answered with the full-digest form of Delta, or the flag is computed: nodes the asker has deliberately forgotten (expired) are pushed back to it")
			})
		}
	}
	if n == 0 {
		c.fail("C11.R11", "Delta-call-sites", token.NoPos, "no call of clusterState.Delta found")
	}
	// C11.R12: inside Delta the flag means what the callers think it means: the
	// arm that pushes a node from version 0 although the asker did not name it
	// runs only under fullDigest == true.
	dfn := p.Func(gsPkg, "clusterState.Delta")
	if dfn == nil {
		c.fail("C11.anchor", "clusterState.Delta", token.NoPos, "not found")
		return
	}
	fs := computeFacts(dfn)
	m := 0
	allInstrs(dfn, func(i ssa.Instruction) {
		cl, ok := i.(*ssa.Call)
		if !ok || !strings.HasSuffix(commonName(&cl.Call), "clusterState).deltaEntry") || len(cl.Call.Args) < 3 {
			return
		}
		if _, fromDigest := loadedField(cl.Call.Args[2], p.Field(gsPkg, "digestEntry", "Version")); fromDigest {
			return // the answer to a node the asker named, from the version it named
		}
		m++
		underFlag := anyFact(fs.At(cl.Block()), func(f Fact) bool {
			pv, ok := f.V.(*ssa.Parameter)
			return ok && f.T && pv.Type().Underlying() == types.Typ[types.Bool]
		})
		c.check(underFlag, "C11.R12", fnName(dfn)+"/unnamed-nodes-only-under-fullDigest", cl.Pos(), "a node the asker did not name (or a version it did not name) is pushed only when the fullDigest parameter is true",
			"Delta pushes state the asker did not ask for although the digest was not declared complete (facts: "+factStrings(fs.At(cl.Block()))+"): a node the asker has expired is handed back to it by every ordinary gossip round")
	})
	if m == 0 {
		c.note("C11.R12: Delta has no unnamed-node arm")
	}
}
