package main

import (
	"encoding/json"
	"flag"
	"fmt"
	"os"
	"os/exec"
	"path/filepath"
	"runtime/debug"
	"sort"
	"strconv"
	"strings"
	"sync"
	"time"
)

type mutant struct {
	Name   string
	File   string // repo-relative
	Old    string
	New    string
	Rule   string // rule expected to report (prefix match); "" for benign edits
	Benign bool
}

type propDef struct {
	id      string
	meta    propMeta
	run     func(c *Ctx)
	mutants []mutant
}

// depends: the rule sets of other properties that a property's statement
// rests on; a check runs its own rules and then these (obligations keep the
// rule ids of the property they belong to).
var depends = map[string][]string{
	"C01": {"C04", "C05", "C15", "C16"},
	"C02": {"C13", "C17"},
	"C03": {"C02", "C13", "C17"},
	"C04": {"C02", "C13", "C14", "C17", "C11"},
	"C05": {"C17", "C02"},
	"C06": {"C15", "C08"},
	"C07": {},
	"C08": {"C15", "C01"},
	"C09": {"C10"},
	"C10": {"C09", "C15"},
	"C11": {"C04", "C12", "C14", "C17", "C03"},
	"C12": {},
	"C13": {"C02"},
	"C14": {},
	"C15": {"C05", "C06", "C20"},
	"C16": {"C05", "C09"},
	"C17": {"C02"},
	"C18": {"C11", "C12", "C16", "C03"},
	"C19": {"C04"},
	"C20": {"C05", "C13", "C07"},
}

// runWithDeps evaluates a property's rules and those it depends on (one level).
func runWithDeps(pd *propDef, c *Ctx) {
	pd.run(c)
	for _, d := range depends[pd.id] {
		if dp := props[d]; dp != nil {
			dp.run(c)
		}
	}
}

var props = map[string]*propDef{}

func register(p *propDef) { props[p.id] = p }

func main() {
	prop := flag.String("p", "", "property id")
	tier := flag.String("tier", "quick", "quick | thorough | probe")
	repo := flag.String("repo", "/repo", "repository under analysis")
	verif := flag.String("verif", "/verif", "verif directory")
	overlayF := flag.String("overlay", "", "JSON file: absolute path -> replacement content (probe tier)")
	explain := flag.String("explain", "", "print a stored replay file")
	list := flag.Bool("list", false, "list properties")
	lintM := flag.Bool("lint-mutants", false, "check that every overlay mutant still has exactly one anchor in -repo")
	dumpA := flag.String("dump-anchors", "", "write the fingerprint table of the unexported functions of -repo to this file (run on the confirmed tree)")
	sweepF := flag.String("sweep", "", "file listing repo-relative .go files to mutate (generic mutation sweep)")
	sweepOut := flag.String("out", "sweep.json", "sweep result file")
	sweepPar := flag.Int("par", 6, "parallel probes in a sweep")
	sweepOps := flag.String("ops", "", "restrict sweep to these operators (e.g. NEG,ROR)")
	flag.Parse()
	if *lintM {
		bad := 0
		var ids []string
		for id := range props {
			ids = append(ids, id)
		}
		sort.Strings(ids)
		n := 0
		for _, id := range ids {
			for _, m := range props[id].mutants {
				n++
				src, err := os.ReadFile(filepath.Join(*repo, m.File))
				if err != nil || strings.Count(string(src), m.Old) != 1 {
					bad++
					fmt.Printf("INAPPLICABLE %s %q (%s)\n", id, m.Name, m.File)
				}
			}
		}
		fmt.Printf("%d overlay mutants, %d inapplicable\n", n, bad)
		if bad > 0 {
			os.Exit(1)
		}
		return
	}
	if *dumpA != "" {
		p, err := loadProg(loadOpts{dir: *repo, noCG: true})
		if err != nil || len(p.LoadErrs) > 0 {
			fmt.Println("load failed", err, p.LoadErrs)
			os.Exit(2)
		}
		if err := dumpAnchors(p, *dumpA); err != nil {
			fmt.Println(err)
			os.Exit(2)
		}
		return
	}
	if *sweepF != "" {
		runSweep(*repo, *verif, *sweepF, *sweepOut, *sweepPar, *sweepOps)
		return
	}

	if *explain != "" {
		b, err := os.ReadFile(*explain)
		if err != nil {
			fmt.Println(err)
			os.Exit(2)
		}
		fmt.Println(string(b))
		return
	}
	if *list {
		var ids []string
		for id := range props {
			ids = append(ids, id)
		}
		sort.Strings(ids)
		fmt.Println(strings.Join(ids, " "))
		return
	}
	if t := os.Getenv("PIKOCHECK_TAGS"); t != "" {
		defaultTags = t
	}
	if *prop == "all" {
		probeAll(*repo, *verif, *overlayF)
		return
	}
	pd := props[*prop]
	if pd == nil {
		fmt.Printf("unknown property %q\n", *prop)
		os.Exit(2)
	}
	seed := 0
	if s := os.Getenv("VERIF_SEED"); s != "" {
		seed, _ = strconv.Atoi(s)
	}
	start := time.Now()
	overlay, err := readOverlay(*overlayF)
	if err != nil {
		fmt.Println("overlay:", err)
		os.Exit(2)
	}
	c, code := analyse(pd, loadOpts{dir: *repo, overlay: overlay})
	if *tier == "probe" {
		// subprocess mode for the sensitivity audit: print violated keys as JSON
		var v []Obligation
		if c != nil {
			c.applyFloors()
			known, _ := loadKnown(filepath.Join(*verif, "known_findings.json"))
			kf := map[string]bool{}
			for _, k := range known {
				if k.Property == pd.id && k.Status == "finding" {
					kf[k.Key] = true
				}
			}
			for _, o := range c.Obs {
				if o.Status != "discharged" && !kf[o.Key] {
					v = append(v, o)
				}
			}
		}
		out := map[string]any{"load_failed": code != 0, "violated": v}
		b, _ := json.Marshal(out)
		fmt.Println("PROBE " + string(b))
		return
	}
	if code != 0 {
		// load failure: report as a violation of the check (nothing can be decided)
		rp := filepath.Join(*verif, "replay", pd.id+"-load-failure.json")
		_ = os.MkdirAll(filepath.Dir(rp), 0o755)
		_ = os.WriteFile(rp, []byte(`{"error":"the repository did not load / type-check; see stdout"}`), 0o644)
		fmt.Printf("VIOLATION property=%s replay=%s\n", pd.id, rp)
		os.Exit(1)
	}
	extra := map[string]any{}
	if *tier == "thorough" {
		extra["sensitivity_audit"] = runAudit(pd, *repo, *verif)
		// the same rules on the tagged + test configuration: evidence only
		extra["tagged_test_configuration"] = runTaggedConfig(pd, *repo)
	}
	os.Exit(c.finish(*verif, *tier, seed, start, pd.meta, extra, true))
}

// analyse loads the tree and evaluates the rules of one property. A panic in a
// rule is an undecided obligation, never a pass.
var defaultTags string

func analyse(pd *propDef, lo loadOpts) (c *Ctx, code int) {
	if lo.tags == "" {
		lo.tags = defaultTags
	}
	p, err := loadProg(lo)
	if err != nil {
		fmt.Println("LOAD ERROR:", err)
		return nil, 2
	}
	if len(p.LoadErrs) > 0 {
		for i, e := range p.LoadErrs {
			if i < 20 {
				fmt.Println("LOAD ERROR:", e)
			}
		}
		return nil, 2
	}
	if len(p.Pkgs) < 30 {
		fmt.Printf("LOAD ERROR: only %d module packages loaded (expected >= 30)\n", len(p.Pkgs))
		return nil, 2
	}
	c = newCtx(p, pd.id)
	func() {
		defer func() {
			if r := recover(); r != nil {
				c.undecided(pd.id+".engine", "panic", 0, fmt.Sprintf("checker panic: %v\n%s", r, debug.Stack()))
			}
		}()
		runWithDeps(pd, c)
	}()
	return c, 0
}

func (c *Ctx) applyFloors() {
	count := map[string]int{}
	for _, o := range c.Obs {
		count[o.Rule]++
	}
	for r, n := range c.floors {
		if count[r] < n {
			c.fail(r, "instance-floor", 0, fmt.Sprintf("rule produced %d obligations, floor is %d", count[r], n))
		}
	}
	c.floors = map[string]int{}
}

type auditResult struct {
	Name     string   `json:"name"`
	Kind     string   `json:"kind"` // break | benign
	File     string   `json:"file"`
	Expected string   `json:"expected_rule"`
	Outcome  string   `json:"outcome"` // killed | survived | silent | false-alarm | inapplicable | load-failed
	Reported []string `json:"reported,omitempty"`
}

// runAudit applies each overlay mutant of the property in memory (never on
// disk) and re-runs the property's rules in a subprocess. It feeds the
// evidence only; it never decides the property verdict.
func runAudit(pd *propDef, repo, verif string) map[string]any {
	self, _ := os.Executable()
	tmp, err := os.MkdirTemp("", "pikocheck-audit-")
	if err != nil {
		return map[string]any{"error": err.Error()}
	}
	defer os.RemoveAll(tmp)
	results := make([]auditResult, len(pd.mutants))
	sem := make(chan struct{}, 4)
	var wg sync.WaitGroup
	for idx, m := range pd.mutants {
		idx, m := idx, m
		kind := "break"
		if m.Benign {
			kind = "benign"
		}
		res := auditResult{Name: m.Name, Kind: kind, File: m.File, Expected: m.Rule}
		abs := filepath.Join(repo, m.File)
		src, err := os.ReadFile(abs)
		if err != nil || strings.Count(string(src), m.Old) != 1 {
			res.Outcome = "inapplicable"
			results[idx] = res
			continue
		}
		ov := map[string]string{abs: strings.Replace(string(src), m.Old, m.New, 1)}
		b, _ := json.Marshal(ov)
		of := filepath.Join(tmp, fmt.Sprintf("ov%d.json", idx))
		_ = os.WriteFile(of, b, 0o644)
		wg.Add(1)
		go func() {
			defer wg.Done()
			sem <- struct{}{}
			defer func() { <-sem }()
			cmd := exec.Command(self, "-p", pd.id, "-tier", "probe", "-repo", repo, "-verif", verif, "-overlay", of)
			cmd.Env = os.Environ()
			out, _ := cmd.CombinedOutput()
			var pr struct {
				LoadFailed bool         `json:"load_failed"`
				Violated   []Obligation `json:"violated"`
			}
			found := false
			for _, line := range strings.Split(string(out), "\n") {
				if strings.HasPrefix(line, "PROBE ") {
					if json.Unmarshal([]byte(line[6:]), &pr) == nil {
						found = true
					}
				}
			}
			switch {
			case !found || pr.LoadFailed:
				res.Outcome = "load-failed"
			default:
				hit := false
				for _, o := range pr.Violated {
					res.Reported = append(res.Reported, o.Key)
					if m.Rule != "" && strings.HasPrefix(o.Rule, m.Rule) {
						hit = true
					}
				}
				if m.Benign {
					if len(pr.Violated) == 0 {
						res.Outcome = "silent"
					} else {
						res.Outcome = "false-alarm"
					}
				} else if hit {
					res.Outcome = "killed"
				} else if len(pr.Violated) > 0 {
					res.Outcome = "killed-by-other-rule"
				} else {
					res.Outcome = "survived"
				}
			}
			results[idx] = res
		}()
	}
	wg.Wait()
	killed, total, benignOK, benignTotal := 0, 0, 0, 0
	for _, r := range results {
		if r.Kind == "break" {
			total++
			if strings.HasPrefix(r.Outcome, "killed") {
				killed++
			}
		} else {
			benignTotal++
			if r.Outcome == "silent" {
				benignOK++
			}
		}
		fmt.Printf("AUDIT %s %-6s %-22s %s (expected %s)\n", pd.id, r.Kind, r.Outcome, r.Name, r.Expected)
	}
	return map[string]any{
		"mutants_killed": killed, "mutants_total": total,
		"benign_silent": benignOK, "benign_total": benignTotal,
		"results": results,
		"note":    "overlay edits of the current tree analysed in memory; recorded, never a property verdict",
	}
}

// runTaggedConfig re-evaluates the rules with -tags system and test files
// loaded; result is recorded in the evidence only.
func runTaggedConfig(pd *propDef, repo string) map[string]any {
	self, _ := os.Executable()
	cmd := exec.Command(self, "-p", pd.id, "-tier", "probe", "-repo", repo)
	cmd.Env = append(os.Environ(), "PIKOCHECK_TAGS=system")
	out, _ := cmd.CombinedOutput()
	for _, line := range strings.Split(string(out), "\n") {
		if strings.HasPrefix(line, "PROBE ") {
			var pr map[string]any
			if json.Unmarshal([]byte(line[6:]), &pr) == nil {
				n := 0
				if v, ok := pr["violated"].([]any); ok {
					n = len(v)
				}
				return map[string]any{"tags": "system", "load_failed": pr["load_failed"], "violated": n}
			}
		}
	}
	return map[string]any{"tags": "system", "error": "no probe output"}
}

// probeAll: one load, every property's rules; prints which properties report.
func probeAll(repo, verif, overlayF string) {
	overlay, err := readOverlay(overlayF)
	if err != nil {
		fmt.Println("overlay:", err)
		os.Exit(2)
	}
	lo := loadOpts{dir: repo, overlay: overlay, tags: defaultTags}
	p, err := loadProg(lo)
	if err != nil || len(p.LoadErrs) > 0 || len(p.Pkgs) < 30 {
		fmt.Println(`PROBEALL {"load_failed":true}`)
		return
	}
	known, _ := loadKnown(filepath.Join(verif, "known_findings.json"))
	by := map[string][]string{}
	var ids []string
	for id := range props {
		ids = append(ids, id)
	}
	sort.Strings(ids)
	for _, id := range ids {
		pd := props[id]
		c := newCtx(p, id)
		func() {
			defer func() {
				if r := recover(); r != nil {
					c.undecided(id+".engine", "panic", 0, fmt.Sprint(r))
				}
			}()
			runWithDeps(pd, c)
		}()
		c.applyFloors()
		kf := map[string]bool{}
		for _, k := range known {
			if k.Property == id && k.Status == "finding" {
				kf[k.Key] = true
			}
		}
		for _, o := range c.Obs {
			if o.Status != "discharged" && !kf[o.Key] {
				by[id] = append(by[id], o.Key)
			}
		}
	}
	b, _ := json.Marshal(map[string]any{"load_failed": false, "by": by})
	fmt.Println("PROBEALL " + string(b))
}
