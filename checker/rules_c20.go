package main

import (
	"fmt"
	"go/ast"
	"go/token"
	"go/types"
	"sort"
	"strings"

	"golang.org/x/tools/go/callgraph"
	"golang.org/x/tools/go/ssa"
)

func init() {
	register(&propDef{
		id: "C20",
		meta: propMeta{
			explanation: "Decides the lock discipline behind 'never deadlocks or races on shared state' for every interleaving, because the rules hold per program point, not per schedule: (L1) the lock-order graph over all mutex fields of the module is acyclic, self-edges included - an edge A->B exists when some call made with A possibly held reaches (VTA call graph, through watcher dispatch and subscriber function values, not through `go`) a function that acquires B; (L2) every access to a field that the code documents as protected by a mutex ('mu protects the above fields', plus the sessions/sessionsMu pair) and every field access on the exclusively owned types (loadBalancer, nodeState, arrivalWindow, arrivalIntervals) happens with the owner's lock certainly held - helpers get their entry lockset from all their call sites - except in constructors and for fields never written after construction; (L3) exported methods of the guarded structs return copies, never a guarded map, slice or stored pointer; (L4) no channel operation, select, sleep, WaitGroup.Wait, dial or yamux session call is reachable with one of these locks held; (L5) subscriber callbacks of cluster.State run without State.mu; (L6) every unlock releases a lock that may be held and no path returns holding a lock it acquired without a deferred unlock; (L7) the registry/cluster/publication sequence runs under the manager mutex and only the manager drives it (C05.R4/R5), which with C04/C05 gives consistency at quiescence. Not decided: panic-freedom in general (C13.R3 covers the network-facing part), bounded completion time. Second round: (L8) single WebSocket writer/reader by who-may-call; (L9) no dereference of a failed checked lookup; (L10) a loop-refilled read buffer is never shared with a goroutine started in the loop; the C07 rule set runs with this check.",
			ruleText:    "obligation = one lock-order edge / guarded access / return / blocking site / unlock; distinct = distinct keys",
			assumptions: []string{"one abstract lock per mutex field: two instances of the same struct are never locked nested (no method of a guarded struct receives a second instance)", "VTA is sound for the indirect calls involved (no reflection/unsafe in the module: checked)", "third-party callees do not call back into piko except through function values visible to VTA"},
		},
		run: runC20,
		mutants: []mutant{
			{Name: "subscribers invoked before Unlock in AddLocalEndpoint", File: "server/cluster/state.go", Old: "\tsubscribers = append(subscribers, s.localEndpointSubscribers...)\n\n\ts.mu.Unlock()\n\n\tfor _, f := range subscribers {\n\t\tf(endpointID)\n\t}\n}\n\n// RemoveLocalEndpoint", New: "\tsubscribers = append(subscribers, s.localEndpointSubscribers...)\n\n\tfor _, f := range subscribers {\n\t\tf(endpointID)\n\t}\n\ts.mu.Unlock()\n}\n\n// RemoveLocalEndpoint", Rule: "C20.L"},
			{Name: "a watcher method calls back into gossip", File: "server/gossip/syncer.go", Old: "\tif _, ok := s.pendingNodes[nodeID]; ok {\n\t\ts.logger.Warn(\n\t\t\t\"node joined; already pending\",", New: "\tif _, ok := s.pendingNodes[nodeID]; ok {\n\t\ts.gossiper.UpsertLocal(\"seen:\"+nodeID, \"1\")\n\t\ts.logger.Warn(\n\t\t\t\"node joined; already pending\",", Rule: "C20.L1"},
			{Name: "Endpoints() without the lock", File: "server/upstream/manager.go", Old: "func (m *LoadBalancedManager) Endpoints() map[string]int {\n\tm.mu.Lock()\n\tdefer m.mu.Unlock()\n", New: "func (m *LoadBalancedManager) Endpoints() map[string]int {\n", Rule: "C20.L2"},
			{Name: "State.Node returns the stored pointer", File: "server/cluster/state.go", Old: "\tnode, ok := s.nodes[id]\n\tif !ok {\n\t\treturn nil, false\n\t}\n\treturn node.Copy(), true\n}\n\n// LocalID", New: "\tnode, ok := s.nodes[id]\n\tif !ok {\n\t\treturn nil, false\n\t}\n\treturn node, true\n}\n\n// LocalID", Rule: "C20.L3"},
			{Name: "sessions closed under sessionsMu", File: "server/upstream/server.go", Old: "\t\tif len(shedding) >= n {\n\t\t\tbreak\n\t\t}\n\t}\n\ts.sessionsMu.Unlock()\n", New: "\t\tsess.Close()\n\t\tif len(shedding) >= n {\n\t\t\tbreak\n\t\t}\n\t}\n\ts.sessionsMu.Unlock()\n", Rule: "C20.L4"},
			{Name: "publisher takes the syncer mutex around gossip writes", File: "server/gossip/syncer.go", Old: "func (s *syncer) onLocalEndpointUpdate(endpointID string) {\n", New: "func (s *syncer) onLocalEndpointUpdate(endpointID string) {\n\ts.mu.Lock()\n\tdefer s.mu.Unlock()\n", Rule: "C20.L1"},
			{Name: "early return keeps the cluster mutex", File: "server/cluster/state.go", Old: "\t\ts.logger.Warn(\"remove local endpoint: endpoint not found\")\n\t\ts.mu.Unlock()\n\t\treturn\n", New: "\t\ts.logger.Warn(\"remove local endpoint: endpoint not found\")\n\t\treturn\n", Rule: "C20.L6"},
			{Name: "failure detector window read without its lock", File: "pkg/gossip/failuredetector.go", Old: "func (d *accrualFailureDetector) Remove(nodeID string) {\n\td.mu.Lock()\n\tdefer d.mu.Unlock()\n", New: "func (d *accrualFailureDetector) Remove(nodeID string) {\n", Rule: "C20.L2"},
			{Name: "cluster update after releasing the manager mutex", File: "server/upstream/manager.go", Old: "func (m *LoadBalancedManager) RemoveConn(u Upstream) {\n\tm.mu.Lock()\n\tdefer m.mu.Unlock()\n", New: "func (m *LoadBalancedManager) RemoveConn(u Upstream) {\n\tm.mu.Lock()\n\tdefer m.cluster.RemoveLocalEndpoint(\"\")\n\tdefer m.mu.Unlock()\n", Rule: "C05.R4"},
			{Name: "benign: defer replaced by explicit unlock", Benign: true, File: "server/cluster/state.go", Old: "func (s *State) LocalEndpointListeners(endpointID string) int {\n\ts.mu.Lock()\n\tdefer s.mu.Unlock()\n\n\tnode, ok := s.nodes[s.localID]\n\tif !ok {\n\t\tpanic(\"local node not in cluster\")\n\t}\n\n\tif node.Endpoints == nil {\n\t\treturn 0\n\t}\n\treturn node.Endpoints[endpointID]\n}", New: "func (s *State) LocalEndpointListeners(endpointID string) int {\n\ts.mu.Lock()\n\n\tnode, ok := s.nodes[s.localID]\n\tif !ok {\n\t\tpanic(\"local node not in cluster\")\n\t}\n\n\tif node.Endpoints == nil {\n\t\ts.mu.Unlock()\n\t\treturn 0\n\t}\n\tn := node.Endpoints[endpointID]\n\ts.mu.Unlock()\n\treturn n\n}"},
			{Name: "benign: RLock instead of Lock for a reader", Benign: true, File: "server/cluster/state.go", Old: "func (s *State) LocalEndpointListeners(endpointID string) int {\n\ts.mu.Lock()\n\tdefer s.mu.Unlock()\n", New: "func (s *State) LocalEndpointListeners(endpointID string) int {\n\ts.mu.RLock()\n\tdefer s.mu.RUnlock()\n"},
		},
	})
}

// guardedFields: field -> its mutex, from the "protects the above fields"
// comments and the explicit table.
func guardedFields(p *Prog) (map[*types.Var]*types.Var, map[*types.Var]string) {
	out := map[*types.Var]*types.Var{}
	owner := map[*types.Var]string{}
	isMutex := func(t types.Type) bool {
		s := t.String()
		return s == "sync.Mutex" || s == "sync.RWMutex"
	}
	for _, pk := range p.Pkgs {
		for _, file := range pk.Syntax {
			if strings.HasSuffix(pk.Fset.Position(file.Pos()).Filename, "_test.go") {
				continue
			}
			ast.Inspect(file, func(n ast.Node) bool {
				ts, ok := n.(*ast.TypeSpec)
				if !ok {
					return true
				}
				st, ok := ts.Type.(*ast.StructType)
				if !ok {
					return true
				}
				var pending []*types.Var
				for _, fld := range st.Fields.List {
					var vars []*types.Var
					for _, nm := range fld.Names {
						if v, ok := pk.TypesInfo.Defs[nm].(*types.Var); ok {
							vars = append(vars, v)
						}
					}
					if len(vars) == 1 && isMutex(vars[0].Type()) {
						txt := ""
						if fld.Doc != nil {
							txt += fld.Doc.Text()
						}
						if fld.Comment != nil {
							txt += fld.Comment.Text()
						}
						if strings.Contains(txt, "protects the above") {
							for _, g := range pending {
								out[g] = vars[0]
								owner[g] = ts.Name.Name
							}
						}
						lockOwners[vars[0]] = strings.TrimPrefix(pk.PkgPath, modPath+"/") + "." + ts.Name.Name
						pending = nil
						continue
					}
					pending = append(pending, vars...)
				}
				return true
			})
		}
	}
	// explicit pairs the code does not document with the comment idiom
	for _, t := range []struct{ rel, typ, field, mu string }{
		{upPkg, "Server", "sessions", "sessionsMu"},
		{upPkg, "LoadBalancedManager", "localUpstreams", "mu"},
		{"agent/tcpproxy", "Server", "conns", "connsMu"},
	} {
		f, m := p.Field(t.rel, t.typ, t.field), p.Field(t.rel, t.typ, t.mu)
		if f != nil && m != nil {
			out[f] = m
			owner[f] = t.typ
			lockOwners[m] = t.rel + "." + t.typ
		}
	}
	return out, owner
}

type lockEdge struct {
	from, to *types.Var
	site     ssa.Instruction
	via      *ssa.Function
}

// inScope: the locks the property is about - mutex fields of structs in the
// server and gossip packages (test harness and CLI packages excluded).
func lockInScope(v *types.Var) bool {
	o := lockOwners[v]
	return strings.HasPrefix(o, "server") || strings.HasPrefix(o, "pkg/") || strings.HasPrefix(o, "client") || strings.HasPrefix(o, "agent")
}

func scoped(s lockSet) lockSet {
	out := lockSet{}
	for k := range s {
		if lockInScope(k) {
			out[k] = true
		}
	}
	return out
}

func runC20(c *Ctx) {
	p := c.P
	guarded, _ := guardedFields(p)
	li := computeLocks(p)
	for i, s := range li.may {
		li.may[i] = scoped(s)
	}
	c.note("module functions analysed for locks: %d; guarded fields: %d", len(li.funcs), len(guarded))
	c20L1(c, li)
	c20L2(c, li, guarded)
	c20L3(c, guarded)
	c20L4(c, li)
	c20L5(c, li)
	c20L6(c, li)
	wsContract(c, "C20.L8")
	c20ReusedBuffer(c)
	c20DeepCopy(c)
	commaOkDeref(c, "C20.L9", pkgFuncs(c.P, "pkg/gossip", "server/cluster", "server/upstream", "server/gossip", "server/proxy"), 8)
	// no reflection / unsafe in module packages (VTA soundness assumption)
	for _, pk := range p.Pkgs {
		if strings.Contains(pk.PkgPath, "/tests") || strings.Contains(pk.PkgPath, "/cli") {
			continue
		}
		for imp := range pk.Imports {
			if imp == "unsafe" || imp == "reflect" {
				c.fail("C20.assumption", "imports "+imp+"/"+pk.PkgPath, token.NoPos, "a module package imports "+imp+": the call-graph based lock rules are no longer sound for it")
			}
		}
	}
}

// acquiresNoGo: locks that f or its synchronous callees may acquire.
func acquiresNoGo(p *Prog, li *LockInfo, f *ssa.Function, memo map[*ssa.Function]map[*types.Var]*ssa.Function) map[*types.Var]*ssa.Function {
	if m, ok := memo[f]; ok {
		return m
	}
	out := map[*types.Var]*ssa.Function{}
	memo[f] = out
	seen := map[*ssa.Function]bool{f: true}
	q := []*ssa.Function{f}
	for len(q) > 0 {
		g := q[0]
		q = q[1:]
		for k := range li.acquires[g] {
			if _, ok := out[k]; !ok {
				out[k] = g
			}
		}
		n := p.CG.Nodes[g]
		if n == nil {
			continue
		}
		for _, e := range n.Out {
			if _, isGo := e.Site.(*ssa.Go); isGo {
				continue
			}
			cal := e.Callee.Func
			if cal == nil || seen[cal] {
				continue
			}
			seen[cal] = true
			q = append(q, cal)
		}
	}
	return out
}

func c20L1(c *Ctx, li *LockInfo) {
	p := c.P
	memo := map[*ssa.Function]map[*types.Var]*ssa.Function{}
	edges := map[[2]*types.Var]lockEdge{}
	addEdge := func(from, to *types.Var, site ssa.Instruction, via *ssa.Function) {
		k := [2]*types.Var{from, to}
		if _, ok := edges[k]; !ok {
			edges[k] = lockEdge{from, to, site, via}
		}
	}
	siteCallees := map[ssa.Instruction][]*ssa.Function{}
	for _, f := range li.funcs {
		if n := p.CG.Nodes[f]; n != nil {
			for _, e := range n.Out {
				if e.Site != nil && e.Callee.Func != nil {
					siteCallees[e.Site] = append(siteCallees[e.Site], e.Callee.Func)
				}
			}
		}
	}
	for _, f := range li.funcs {
		allInstrs(f, func(i ssa.Instruction) {
			held := li.may[i]
			if len(held) == 0 {
				return
			}
			if _, isGo := i.(*ssa.Go); isGo {
				return
			}
			if op, ok := lockOpOf(i); ok {
				if _, isDefer := i.(*ssa.Defer); !isDefer && op.acquire {
					for h := range held {
						addEdge(h, op.f, i, f)
					}
				}
				return
			}
			if _, isCall := i.(ssa.CallInstruction); !isCall {
				return
			}
			if _, isDefer := i.(*ssa.Defer); isDefer {
				return // runs at exit; handled by the function's own exit lockset below
			}
			for _, cal := range siteCallees[i] {
				for a, via := range acquiresNoGo(p, li, cal, memo) {
					for h := range held {
						addEdge(h, a, i, via)
					}
				}
			}
		})
	}
	// report edges; detect cycles
	adj := map[*types.Var][]*types.Var{}
	for k := range edges {
		adj[k[0]] = append(adj[k[0]], k[1])
	}
	reaches := func(from, to *types.Var) bool {
		seen := map[*types.Var]bool{}
		var rec func(x *types.Var) bool
		rec = func(x *types.Var) bool {
			if x == to {
				return true
			}
			if seen[x] {
				return false
			}
			seen[x] = true
			for _, y := range adj[x] {
				if rec(y) {
					return true
				}
			}
			return false
		}
		for _, y := range adj[from] {
			if rec(y) {
				return true
			}
		}
		return false
	}
	var keys [][2]*types.Var
	for k := range edges {
		keys = append(keys, k)
	}
	sort.Slice(keys, func(i, j int) bool {
		return lockName(keys[i][0])+lockName(keys[i][1]) < lockName(keys[j][0])+lockName(keys[j][1])
	})
	c.floor("C20.L1", 5)
	for _, k := range keys {
		e := edges[k]
		key := "lock-order/" + lockName(e.from) + " -> " + lockName(e.to)
		detail := fmt.Sprintf("while %s may be held, the call at %s reaches %s which acquires %s", lockName(e.from), p.pos(e.site.Pos()), fnName(e.via), lockName(e.to))
		switch {
		case e.from == e.to:
			c.fail("C20.L1", key, e.site.Pos(), "self-deadlock: "+detail+" (the mutex is not reentrant)")
		case reaches(e.to, e.from):
			c.fail("C20.L1", key, e.site.Pos(), "lock-order cycle: "+detail+", and the reverse order also exists: two goroutines taking the locks in opposite orders deadlock")
		default:
			c.ok("C20.L1", key, e.site.Pos(), detail+"; no path back")
		}
	}
}

var ownedTypes = []struct{ rel, typ, ownerRel, ownerTyp, mu string }{
	{upPkg, "loadBalancer", upPkg, "LoadBalancedManager", "mu"},
	{gsPkg, "nodeState", gsPkg, "clusterState", "mu"},
	{gsPkg, "arrivalWindow", gsPkg, "accrualFailureDetector", "mu"},
	{gsPkg, "arrivalIntervals", gsPkg, "accrualFailureDetector", "mu"},
}

func c20L2(c *Ctx, li *LockInfo, guarded map[*types.Var]*types.Var) {
	p := c.P
	c.floor("C20.L2", 60)
	// immutable: no store outside constructors
	immutable := map[*types.Var]bool{}
	for f := range guarded {
		im := true
		for _, s := range p.storesToField(f, false) {
			if !isCtorLike(s.Fn) || s.Kind != "store" {
				im = false
			}
		}
		// maps/slices are mutated through their contents: only scalars/strings/pointers-never-written count
		switch f.Type().Underlying().(type) {
		case *types.Map, *types.Slice:
			im = false
		}
		immutable[f] = im
	}
	owned := map[string]*types.Var{}
	for _, o := range ownedTypes {
		if t := p.NamedType(o.rel, o.typ); t != nil {
			if m := p.Field(o.ownerRel, o.ownerTyp, o.mu); m != nil {
				owned[t.String()] = m
			}
		}
	}
	type agg struct {
		n   int
		bad []string
		pos token.Pos
	}
	byKey := map[string]*agg{}
	var order []string
	for _, fn := range li.funcs {
		if isCtorLike(fn) {
			continue
		}
		allInstrs(fn, func(i ssa.Instruction) {
			fa, ok := i.(*ssa.FieldAddr)
			if !ok {
				return
			}
			fv, _ := fieldVarOf(fa)
			var mu *types.Var
			what := ""
			if m, ok := guarded[fv]; ok && !immutable[fv] {
				mu, what = m, "guarded field "+fv.Name()
			} else if pt, ok := fa.X.Type().Underlying().(*types.Pointer); ok {
				if m, ok := owned[pt.Elem().String()]; ok {
					// objects created in this function are not yet shared
					if al, isAl := fa.X.(*ssa.Alloc); isAl && al.Parent() == fn {
						return
					}
					mu, what = m, "field "+fv.Name()+" of owned type "+pt.Elem().(*types.Named).Obj().Name()
				}
			}
			if mu == nil {
				return
			}
			k := fnName(fn) + "/" + what
			a := byKey[k]
			if a == nil {
				a = &agg{pos: fa.Pos()}
				byKey[k] = a
				order = append(order, k)
			}
			a.n++
			if !li.must[i][mu] {
				a.bad = append(a.bad, fmt.Sprintf("%s (held: %s)", p.pos(fa.Pos()), li.must[i].names()))
			} else if li.shared[i][mu] && !readOnlyAccess(fa) {
				a.bad = append(a.bad, fmt.Sprintf("%s (written while %s may be held for reading only: RLock admits other holders)", p.pos(fa.Pos()), lockName(mu)))
			}
		})
	}
	for _, k := range order {
		a := byKey[k]
		c.check(len(a.bad) == 0, "C20.L2", k, a.pos, fmt.Sprintf("%d accesses, all with the owner's lock held", a.n),
			"accessed without the protecting mutex certainly held at "+strings.Join(a.bad, ", ")+": a data race with the writers that do hold it")
	}
}

// readOnlyAccess: the field address is only loaded from, and the loaded value
// (a map or slice header) is not updated in place. Anything else - a store, an
// address that escapes into a call, a map update or delete, an element store -
// counts as a write.
func readOnlyAccess(fa *ssa.FieldAddr) bool {
	for _, r := range *fa.Referrers() {
		switch r := r.(type) {
		case *ssa.DebugRef:
		case *ssa.UnOp:
			if r.Op != token.MUL {
				return false
			}
			for _, u := range *r.Referrers() {
				switch u := u.(type) {
				case *ssa.MapUpdate:
					if u.Map == ssa.Value(r) {
						return false
					}
				case *ssa.IndexAddr:
					for _, w := range *u.Referrers() {
						if st, ok := w.(*ssa.Store); ok && st.Addr == ssa.Value(u) {
							return false
						}
					}
				case *ssa.Call:
					if b, ok := u.Call.Value.(*ssa.Builtin); ok && (b.Name() == "delete" || b.Name() == "clear") {
						return false
					}
				}
			}
		default:
			return false
		}
	}
	return true
}

func isCtorLike(f *ssa.Function) bool {
	t := topFn(f)
	n := t.Name()
	return strings.HasPrefix(n, "New") || strings.HasPrefix(n, "new") || n == "init"
}

func c20L3(c *Ctx, guarded map[*types.Var]*types.Var) {
	p := c.P
	c.floor("C20.L3", 10)
	isRefType := func(t types.Type) bool {
		switch t.Underlying().(type) {
		case *types.Pointer, *types.Map, *types.Slice:
			return true
		}
		return false
	}
	for _, st := range []struct{ rel, typ string }{{gsPkg, "clusterState"}, {clPkg, "State"}, {upPkg, "LoadBalancedManager"}, {gsPkg, "accrualFailureDetector"}, {sgPkg, "syncer"}} {
		for _, fn := range methodsOf(p, st.rel, st.typ) {
			if fn.Object() == nil || !fn.Object().Exported() {
				continue
			}
			for k, r := range returnsOf(fn) {
				for ri, v := range returnValues(r) {
					if !isRefType(v.Type()) {
						continue
					}
					key := fmt.Sprintf("%s/return[%d.%d]", fnName(fn), k, ri)
					why := escapesGuarded(v, guarded, 0)
					c.check(why == "", "C20.L3", key, r.Pos(), "returns a copy / fresh value", "an exported method hands out "+why+": callers read or modify shared state without the lock")
				}
			}
		}
	}
}

// escapesGuarded: non-empty description when v is a guarded map/slice/pointer
// itself or an element pointer stored in a guarded container.
func escapesGuarded(v ssa.Value, guarded map[*types.Var]*types.Var, d int) string {
	if d > 6 {
		return ""
	}
	v = strip(v)
	switch x := v.(type) {
	case *ssa.UnOp:
		if x.Op == token.MUL {
			if fa, ok := x.X.(*ssa.FieldAddr); ok {
				if fv, _ := fieldVarOf(fa); guarded[fv] != nil {
					return "the guarded field " + fv.Name() + " itself"
				}
			}
			if ia, ok := x.X.(*ssa.IndexAddr); ok {
				return escapesGuarded(ia.X, guarded, d+1)
			}
		}
	case *ssa.Lookup:
		if s := escapesGuarded(x.X, guarded, d+1); s != "" {
			return "an element stored in " + strings.TrimSuffix(strings.TrimPrefix(s, "the guarded field "), " itself")
		}
	case *ssa.Extract:
		return escapesGuarded(x.Tuple, guarded, d+1)
	case *ssa.Phi:
		for _, e := range x.Edges {
			if s := escapesGuarded(e, guarded, d+1); s != "" {
				return s
			}
		}
	case *ssa.Next:
		if rg, ok := x.Iter.(*ssa.Range); ok {
			if s := escapesGuarded(rg.X, guarded, d+1); s != "" {
				return "an element stored in " + s
			}
		}
	}
	return ""
}

var blockingCallees = []string{
	"time.Sleep", "(*sync.WaitGroup).Wait", "net.Dial", "net.DialTimeout", "(*net.Dialer).Dial", "(*net.Dialer).DialContext", "crypto/tls.Dial",
	"(*github.com/andydunstall/yamux.Session).Close", "(*github.com/andydunstall/yamux.Session).OpenStream", "(*github.com/andydunstall/yamux.Session).GoAway",
	"(*github.com/andydunstall/yamux.Session).AcceptStream", "(*github.com/andydunstall/yamux.Session).AcceptStreamWithContext",
	"(*net/http.Server).Shutdown", "(*net/http.Server).Serve", "(*net/http.Client).Do", "io.Copy",
	"(*github.com/gorilla/websocket.Conn).ReadMessage", "(*github.com/gorilla/websocket.Conn).NextReader", "(*github.com/gorilla/websocket.Conn).WriteMessage",
	"(*github.com/gorilla/websocket.Dialer).DialContext",
}

func c20L4(c *Ctx, li *LockInfo) {
	p := c.P
	c.floor("C20.L4", 1)
	blockName := map[string]bool{}
	for _, b := range blockingCallees {
		blockName[b] = true
	}
	// module functions that may block (directly or through synchronous module callees)
	direct := map[*ssa.Function]string{}
	for _, f := range li.funcs {
		allInstrs(f, func(i ssa.Instruction) {
			switch x := i.(type) {
			case *ssa.Send:
				direct[f] = "channel send at " + p.pos(x.Pos())
			case *ssa.Select:
				if x.Blocking {
					direct[f] = "select at " + p.pos(x.Pos())
				}
			case *ssa.UnOp:
				if x.Op == token.ARROW {
					direct[f] = "channel receive at " + p.pos(x.Pos())
				}
			case *ssa.Call:
				n := commonName(&x.Call)
				if blockName[n] {
					direct[f] = n + " at " + p.pos(x.Pos())
				}
				if x.Call.IsInvoke() && (x.Call.Method.Name() == "Read" || x.Call.Method.Name() == "Write" || x.Call.Method.Name() == "Accept") && strings.HasPrefix(x.Call.Method.FullName(), "(net.") {
					direct[f] = x.Call.Method.FullName() + " at " + p.pos(x.Pos())
				}
			}
		})
	}
	mayBlock := func(f *ssa.Function) string {
		seen := map[*ssa.Function]bool{f: true}
		q := []*ssa.Function{f}
		for len(q) > 0 {
			g := q[0]
			q = q[1:]
			if s, ok := direct[g]; ok {
				return fnName(g) + ": " + s
			}
			if n := p.CG.Nodes[g]; n != nil {
				for _, e := range n.Out {
					if _, isGo := e.Site.(*ssa.Go); isGo {
						continue
					}
					cal := e.Callee.Func
					if cal == nil || seen[cal] {
						continue
					}
					if !inModule(cal) {
						nm := cal.String()
						if cal.Object() != nil {
							nm = cal.Object().(*types.Func).FullName()
						}
						if blockName[nm] {
							return fnName(g) + " calls " + nm
						}
						continue
					}
					seen[cal] = true
					q = append(q, cal)
				}
			}
		}
		return ""
	}
	sites := 0
	var edgesBySite = map[ssa.Instruction][]*callgraph.Edge{}
	for _, f := range li.funcs {
		if n := p.CG.Nodes[f]; n != nil {
			for _, e := range n.Out {
				edgesBySite[e.Site] = append(edgesBySite[e.Site], e)
			}
		}
	}
	for _, f := range li.funcs {
		allInstrs(f, func(i ssa.Instruction) {
			held := li.may[i]
			if len(held) == 0 {
				return
			}
			if _, isGo := i.(*ssa.Go); isGo {
				return
			}
			if _, isDefer := i.(*ssa.Defer); isDefer {
				return
			}
			why := ""
			switch x := i.(type) {
			case *ssa.Send:
				why = "channel send"
			case *ssa.Select:
				if x.Blocking {
					why = "blocking select"
				}
			case *ssa.UnOp:
				if x.Op == token.ARROW {
					why = "channel receive"
				}
			case *ssa.Call:
				if _, isLock := lockOpOf(i); isLock {
					return
				}
				n := commonName(&x.Call)
				if blockName[n] {
					why = "call of " + n
				}
				if why == "" {
					for _, e := range edgesBySite[i] {
						if e.Callee.Func != nil && inModule(e.Callee.Func) {
							if s := mayBlock(e.Callee.Func); s != "" {
								why = "call reaching " + s
							}
						}
					}
				}
				sites++
			}
			if why != "" {
				c.fail("C20.L4", fnName(f)+"/blocking-under-lock", i.Pos(), why+" with "+held.names()+" held: every other goroutine needing that lock stalls behind it (and a close handler needing the same lock deadlocks)")
			}
		})
	}
	c.ok("C20.L4", "calls-under-locks-scanned", token.NoPos, fmt.Sprintf("%d call sites made with a lock possibly held; none reaches a blocking operation", sites))
}

func c20L5(c *Ctx, li *LockInfo) {
	p := c.P
	c.floor("C20.L5", 2)
	stateMu := p.Field(clPkg, "State", "mu")
	for _, name := range []string{"localEndpointSubscribers", "remoteEndpointSubscribers"} {
		subs := p.Field(clPkg, "State", name)
		if subs == nil || stateMu == nil {
			c.fail("C20.L5", "anchor/State."+name, token.NoPos, "not found")
			continue
		}
		for _, fn := range methodsOf(p, clPkg, "State") {
			allInstrs(fn, func(i ssa.Instruction) {
				cl, ok := i.(*ssa.Call)
				if !ok || cl.Call.IsInvoke() || cl.Call.StaticCallee() != nil {
					return
				}
				if _, isB := cl.Call.Value.(*ssa.Builtin); isB {
					return
				}
				if !derivesFromField(cl.Call.Value, subs, 0) {
					return
				}
				c.check(!li.may[i][stateMu], "C20.L5", fnName(fn)+"/"+name+"-called-unlocked", cl.Pos(), "subscribers run after State.mu is released", "a subscriber callback runs with cluster.State.mu held: the publisher calls back into the state (LocalEndpointListeners) and deadlocks")
			})
		}
	}
}

func c20L6(c *Ctx, li *LockInfo) {
	p := c.P
	nOps := 0
	for _, f := range li.funcs {
		allInstrs(f, func(i ssa.Instruction) {
			if _, ok := lockOpOf(i); ok {
				nOps++
			}
		})
	}
	for _, i := range li.badUnlock {
		c.fail("C20.L6", fnName(i.Parent())+"/unlock-not-held", i.Pos(), "unlock of a mutex that is not held on any path here (runtime fatal error: unlock of unlocked mutex)")
	}
	for _, i := range li.leaks {
		c.fail("C20.L6", fnName(i.Parent())+"/returns-holding-lock", i.Pos(), "a path returns while still holding "+li.may[i].names()+" with no deferred unlock: the next acquirer blocks forever")
	}
	c.check(nOps >= 60, "C20.L6", "lock-operations-paired", token.NoPos, fmt.Sprintf("%d lock/unlock operations; every unlock releases a possibly-held lock and no return leaks a lock", nOps), fmt.Sprintf("only %d lock operations found", nOps))
	_ = p
}

// wsContract: the WebSocket library allows one concurrent reader and one
// concurrent writer; only Close and WriteControl may be called concurrently with
// everything else. The stream adapter keeps that contract by construction:
// data frames are written only by the write side of the adapter (Write /
// ReadFrom) and read only by its read side (Read / WriteTo). A data write from
// Close, a deadline setter or any other function races with the copy loop.
func wsContract(c *Ctx, rule string) {
	p := c.P
	c.floor(rule, 2)
	const gor = "(*github.com/gorilla/websocket.Conn)."
	writeSide := map[string]bool{"Write": true, "ReadFrom": true}
	readSide := map[string]bool{"Read": true, "WriteTo": true}
	dataWrite := map[string]bool{"WriteMessage": true, "NextWriter": true, "WriteJSON": true, "WritePreparedMessage": true}
	dataRead := map[string]bool{"NextReader": true, "ReadMessage": true, "ReadJSON": true}
	for _, fn := range p.ModFuncs {
		if isTestFile(p.Fset, fn.Pos()) {
			continue
		}
		allInstrs(fn, func(i ssa.Instruction) {
			cc := callCommon(i)
			if cc == nil {
				return
			}
			name := commonName(cc)
			if !strings.HasPrefix(name, gor) {
				return
			}
			m := strings.TrimPrefix(name, gor)
			top := topFn(fn)
			onAdapter := top.Signature.Recv() != nil && strings.HasSuffix(top.Signature.Recv().Type().String(), "pkg/websocket.Conn")
			switch {
			case dataWrite[m]:
				_, isGo := i.(*ssa.Go)
				ok := onAdapter && writeSide[top.Name()] && fn == top && !isGo
				c.check(ok, rule, fnName(top)+"/"+m+"/single-writer", i.Pos(), "data frames are written only by the adapter's write side",
					"a WebSocket data/close frame is written by "+fnName(fn)+", which is not the adapter's write side (Write/ReadFrom): the library allows one concurrent writer, and this call can run while the copy loop is inside Write (only Close and WriteControl are safe to call concurrently)")
			case dataRead[m]:
				_, isGo := i.(*ssa.Go)
				ok := onAdapter && readSide[top.Name()] && fn == top && !isGo
				c.check(ok, rule, fnName(top)+"/"+m+"/single-reader", i.Pos(), "data frames are read only by the adapter's read side",
					"a WebSocket frame is read by "+fnName(fn)+", which is not the adapter's read side (Read/WriteTo): the library allows one concurrent reader")
			}
		})
	}
}

// c20ReusedBuffer (C20.L10): a buffer that a loop refills on every iteration
// (the target of Read/ReadFrom in that loop) is not handed to a goroutine
// started in the loop - neither itself nor a slice of it - unless it was copied.
// The goroutine would decode while the next datagram overwrites the bytes.
func c20ReusedBuffer(c *Ctx) {
	p := c.P
	n := 0
	base := func(v ssa.Value) ssa.Value {
		for {
			v = strip(v)
			switch x := v.(type) {
			case *ssa.Slice:
				v = x.X
				continue
			case *ssa.UnOp:
				if x.Op == token.MUL {
					if _, isF := x.X.(*ssa.FieldAddr); isF {
						return x.X // identify a field buffer by its address expression path
					}
				}
			}
			return v
		}
	}
	for _, fn := range p.ModFuncs {
		if isTestFile(p.Fset, fn.Pos()) || fn.Parent() != nil {
			continue
		}
		// buffers refilled in a loop
		type refill struct {
			hdr *ssa.BasicBlock
			buf ssa.Value
		}
		var refills []refill
		allInstrs(fn, func(i ssa.Instruction) {
			cc := callCommon(i)
			if cc == nil || !cc.IsInvoke() {
				return
			}
			m := cc.Method.Name()
			if m != "Read" && m != "ReadFrom" && m != "ReadFromUDP" {
				return
			}
			hdr := loopHeader(i.Block())
			if hdr == nil || len(cc.Args) == 0 {
				return
			}
			refills = append(refills, refill{hdr, base(cc.Args[0])})
		})
		if len(refills) == 0 {
			continue
		}
		same := func(a, b ssa.Value) bool {
			if a == b {
				return true
			}
			// the same field of the same struct type, addressed twice (within one function: the same object)
			fa, ok1 := a.(*ssa.FieldAddr)
			fb, ok2 := b.(*ssa.FieldAddr)
			if ok1 && ok2 {
				va, _ := fieldVarOf(fa)
				vb, _ := fieldVarOf(fb)
				return va != nil && va == vb
			}
			return false
		}
		for _, g := range withAnon(fn) {
			allInstrs(g, func(i ssa.Instruction) {
				gi, ok := i.(*ssa.Go)
				if !ok || g != fn {
					return
				}
				hdr := loopHeader(gi.Block())
				if hdr == nil {
					return
				}
				var handed []ssa.Value
				handed = append(handed, gi.Call.Args...)
				if mc, ok := gi.Call.Value.(*ssa.MakeClosure); ok {
					for _, b := range mc.Bindings {
						// a captured variable: what is stored in its cell
						if al, ok := b.(*ssa.Alloc); ok {
							for _, r := range *al.Referrers() {
								if st, ok := r.(*ssa.Store); ok && st.Addr == ssa.Value(al) {
									handed = append(handed, st.Val)
								}
							}
						} else {
							handed = append(handed, b)
						}
					}
				}
				for _, rf := range refills {
					if rf.hdr != hdr {
						continue
					}
					n++
					bad := ""
					for _, h := range handed {
						if _, isSlice := h.Type().Underlying().(*types.Slice); !isSlice {
							continue
						}
						if same(base(h), rf.buf) {
							bad = "the goroutine started at " + p.pos(gi.Pos()) + " receives (a slice of) the buffer that the loop refills"
						}
					}
					c.check(bad == "", "C20.L10", fnName(fn)+"/refilled-buffer-not-shared", gi.Pos(), "the refilled buffer is not handed to the goroutine", bad+": the handler reads bytes while the next Read overwrites them (unsynchronised access; packets are mis-decoded or applied twice)")
				}
			})
		}
	}
	c.note("C20.L10: %d (loop-refilled buffer, goroutine) pairs examined", n)
}

// c20DeepCopy (C20.L3b): cluster.Node.Copy is what every reader outside
// State.mu receives; its map field must be a fresh map (or nil), never the
// receiver's own map - a shallow copy shares the live Endpoints map with
// writers that hold the lock, and the readers iterate it without.
func c20DeepCopy(c *Ctx) {
	p := c.P
	fn := p.Func(clPkg, "Node.Copy")
	endp := p.Field(clPkg, "Node", "Endpoints")
	if fn == nil || endp == nil {
		c.fail("C20.anchor", "cluster.Node.Copy", token.NoPos, "not found")
		return
	}
	c.analysed(fnName(fn))
	recv := ssa.Value(fn.Params[0])
	bad := ""
	n := 0
	var fresh func(v ssa.Value, d int) bool
	fresh = func(v ssa.Value, d int) bool {
		v = strip(v)
		if d > 6 {
			return false
		}
		switch x := v.(type) {
		case *ssa.MakeMap:
			return true
		case *ssa.Const:
			return x.IsNil()
		case *ssa.Phi:
			for _, e := range x.Edges {
				if !fresh(e, d+1) {
					return false
				}
			}
			return true
		case *ssa.Call:
			nm := commonName(&x.Call)
			return nm == "maps.Clone" || nm == "maps.Collect"
		case *ssa.UnOp:
			if al, ok := x.X.(*ssa.Alloc); ok {
				ok2 := true
				for _, r := range *al.Referrers() {
					if st, ok := r.(*ssa.Store); ok && st.Addr == ssa.Value(al) && !fresh(st.Val, d+1) {
						ok2 = false
					}
				}
				return ok2
			}
		}
		return false
	}
	for _, r := range returnsOf(fn) {
		rv := strip(returnValues(r)[0])
		al, ok := rv.(*ssa.Alloc)
		if !ok {
			bad = "Copy does not return a newly allocated Node"
			continue
		}
		var whole ssa.Instruction
		var freshStores []ssa.Instruction
		for _, r2 := range *al.Referrers() {
			switch x := r2.(type) {
			case *ssa.Store:
				// whole-struct copy: *cp = *n
				if x.Addr == ssa.Value(al) {
					if u, ok := strip(x.Val).(*ssa.UnOp); ok && strip(u.X) == recv {
						whole = x
					}
				}
			case *ssa.FieldAddr:
				if fv, _ := fieldVarOf(x); fv == endp {
					for _, rr := range *x.Referrers() {
						if st, ok := rr.(*ssa.Store); ok {
							n++
							if !fresh(st.Val, 0) {
								bad = "the copy's Endpoints is not a fresh map"
							} else {
								freshStores = append(freshStores, st)
							}
						}
					}
				}
			}
		}
		if whole != nil {
			n++
			// sharing is only undone if a fresh map is stored on every path from the struct copy to the return
			isFresh := func(i ssa.Instruction) bool {
				for _, f := range freshStores {
					if f == i {
						return true
					}
				}
				return false
			}
			if everyPathFrom(whole, isFresh, nil, true) != nil {
				bad = "the copy is a whole-struct copy of the receiver and its Endpoints is not replaced by a fresh map on every path"
			}
		}
	}
	c.check(bad == "" && n > 0, "C20.L3", fnName(fn)+"/deep-copy", fn.Pos(), "the returned node owns a fresh Endpoints map", "Node.Copy is shallow ("+bad+"): snapshots handed out by State share the live Endpoints map, which is written under State.mu and read (ranged, JSON-encoded) without it")
}
