package main

import (
	"fmt"
	"go/token"
	"go/types"

	"golang.org/x/tools/go/ssa"
)

func init() {
	register(&propDef{
		id: "C17",
		meta: propMeta{
			explanation: "Decides three structural clauses of the last-write-wins claim for a node's own state, over every function that writes s.nodes[s.localID].Entries (role, not names): (R1) an automaton clean/bumped over the CFG shows every entry store is preceded by exactly one Version++ since the previous store, stores that very version, and no path exits between a bump and its store; (R2) a path through an upsert-style writer that returns without bump+store carries the facts {found, same value, not deleted}, through a delete-style writer {not found} or {already deleted}, and such a no-op return exists (no-op writes consume no version) - this is the rule that found defect D2; (R3) compaction re-inserts every snapshot element except deleted ones and the previous compaction marker, unchanged apart from Version, and publishes the last pre-compaction version. Not decided: that observers converge afterwards (C03), values beyond these shapes. Second round: LeaveLocal is a no-op only when already left; (R6) compaction is driven by the scheduler and the Gossip facades forward to the state.",
			ruleText:    "obligation = one store / return / loop edge in a local-writer function; non-trivial = construct exists; distinct = distinct keys",
			assumptions: []string{"local writers are only entered with clusterState.mu held (C20.L2)", "Entry values are copied by value into the map (Go semantics)"},
		},
		run: runC17,
		mutants: []mutant{
			{Name: "drop !existing.Deleted (re-introduces D2)", File: "pkg/gossip/state.go", Old: "if existing.Value == value && !existing.Deleted {", New: "if existing.Value == value {", Rule: "C17.R2"},
			{Name: "DeleteLocal without version bump", File: "pkg/gossip/state.go", Old: "\tstate.Version++\n\n\tstate.Entries[key] = Entry{\n\t\tKey:      existing.Key,", New: "\tstate.Entries[key] = Entry{\n\t\tKey:      existing.Key,", Rule: "C17.R1"},
			{Name: "compaction skips all internal keys", File: "pkg/gossip/state.go", Old: "\t\tif entry.Internal && entry.Key == compactKey {", New: "\t\tif entry.Internal {", Rule: "C17.R3"},
			{Name: "one bump shared by left marker and a second store", File: "pkg/gossip/state.go", Old: "\ts.metricsAddEntry(state.ID, state.Entries[leftKey])\n", New: "\tstate.Entries[\"left_at\"] = Entry{Key: \"left_at\", Version: state.Version}\n\ts.metricsAddEntry(state.ID, state.Entries[leftKey])\n", Rule: "C17.R1"},
			{Name: "upsert always bumps (no-op writes consume versions)", File: "pkg/gossip/state.go", Old: "\t\tif existing.Value == value && !existing.Deleted {\n\t\t\treturn\n\t\t}\n", New: "\t\t_ = existing\n", Rule: "C17.R2"},
			{Name: "stored version is pre-bump value", File: "pkg/gossip/state.go", Old: "\tstate.Version++\n\tstate.Entries[key] = Entry{\n\t\tKey:     key,\n\t\tValue:   value,\n\t\tVersion: state.Version,\n\t}", New: "\tv := state.Version\n\tstate.Version++\n\tstate.Entries[key] = Entry{\n\t\tKey:     key,\n\t\tValue:   value,\n\t\tVersion: v,\n\t}", Rule: "C17.R1"},
			{Name: "compaction marker is not the last discarded version", File: "pkg/gossip/state.go", Old: "Value:    strconv.FormatUint(compactVersion, 10),", New: "Value:    strconv.FormatUint(compactVersion+state.Version, 10),", Rule: "C17.R3"},
			{Name: "benign: no-op test operands swapped", Benign: true, File: "pkg/gossip/state.go", Old: "if existing.Value == value && !existing.Deleted {", New: "if !existing.Deleted && value == existing.Value {"},
			{Name: "benign: delete guards merged", Benign: true, File: "pkg/gossip/state.go", Old: "\tif !ok {\n\t\treturn\n\t}\n\t// If the entry is already deleted do nothing.\n\tif existing.Deleted {\n\t\treturn\n\t}\n", New: "\tif !ok || existing.Deleted {\n\t\treturn\n\t}\n"},
		},
	})
}

func runC17(c *Ctx) {
	driverRule(c, "C17.R6", []string{"clusterState).CompactLocal"})
	facadeRule(c, "C17.R6", []facadeSpec{
		{gsPkg, "Gossip.UpsertLocal", "clusterState).UpsertLocal", "", false},
		{gsPkg, "Gossip.DeleteLocal", "clusterState).DeleteLocal", "", false},
	})
	g := newGossipAnchors(c.P)
	if !g.ok {
		c.fail("C17.anchor", "pkg/gossip state types", token.NoPos, "unresolved:"+g.missing)
		return
	}
	c17All(c, g)
}

// c17All: the local-writer rules (also run by C02, C03 and C04, whose
// statements about compaction and deletion markers rest on them).
func c17All(c *Ctx, g *gossipAnchors) {
	c.floor("C17.R1", 5)
	c.floor("C17.R2", 3)
	c.floor("C17.R3", 4)
	c.floor("C17.R4", 5)
	writers := 0
	for _, fn := range g.stateFuncs() {
		ws := g.writes(fn)
		local := false
		for _, w := range ws {
			if (w.kind == "entries-update" || w.kind == "entries-reset" || w.kind == "field:Version") && g.isLocalState(w.root) {
				local = true
			}
		}
		if !local {
			continue
		}
		writers++
		c.analysed(fnName(fn))
		c17R1(c, g, fn, ws)
		c17R2(c, g, fn, ws)
		c17R3(c, g, fn, ws)
	}
	// R5: the full local delta is exactly the local node's state from version 0, unfiltered
	if fn := c.P.Func(gsPkg, "clusterState.LocalDelta"); fn != nil {
		c.analysed(fnName(fn))
		shape := false
		for _, r := range returnsOf(fn) {
			rv := returnValues(r)[0]
			// delta{call}: a slice of a one-element array whose element is the deltaEntry call
			if sl, ok := rv.(*ssa.Slice); ok {
				if al, ok := sl.X.(*ssa.Alloc); ok {
					if arr, ok := al.Type().Underlying().(*types.Pointer).Elem().Underlying().(*types.Array); ok && arr.Len() == 1 {
						for _, rr := range *al.Referrers() {
							if ia, ok := rr.(*ssa.IndexAddr); ok {
								for _, r3 := range *ia.Referrers() {
									if st, ok := r3.(*ssa.Store); ok {
										if cl, ok := st.Val.(*ssa.Call); ok && commonName(&cl.Call) == gsFn("clusterState).deltaEntry") {
											_, idOK := loadedField(cl.Call.Args[1], g.localIDF)
											k, isK := constInt(cl.Call.Args[2])
											shape = idOK && isK && k == 0
										}
									}
								}
							}
						}
					}
				}
			}
		}
		loops := false
		for _, b := range fn.Blocks {
			for _, s2 := range b.Succs {
				if s2.Dominates(b) {
					loops = true
				}
			}
		}
		c.check(shape && !loops, "C17.R5", fnName(fn)+"/full-unfiltered", fn.Pos(), "LocalDelta() = delta{deltaEntry(localID, 0)}: every entry, tombstones included",
			"the full local delta is filtered or not taken from version 0: observers that synchronise through a join/leave stream skip past deletion markers and keep deleted keys live")
	} else {
		c.fail("C17.R5", "anchor/clusterState.LocalDelta", token.NoPos, "not found")
	}
	if writers < 4 {
		c.fail("C17.R1", "local-writer-set", token.NoPos, fmt.Sprintf("found %d functions writing the local node's entries, expected at least 4 (upsert, delete, leave, compact)", writers))
	}
}

// isBump: Store of load(&R.Version)+1 into &R.Version for the local state.
func (g *gossipAnchors) isBump(w gWrite) bool {
	if w.kind != "field:Version" {
		return false
	}
	st := w.instr.(*ssa.Store)
	bo, ok := st.Val.(*ssa.BinOp)
	if !ok || bo.Op != token.ADD {
		return false
	}
	if one, ok := constInt(bo.Y); !ok || one != 1 {
		return false
	}
	base, ok := loadedField(bo.X, g.versionF)
	if !ok {
		return false
	}
	if inner, ok := base.(*ssa.FieldAddr); ok {
		if iv, ib := fieldVarOf(inner); iv == g.metaF {
			base = ib
		}
	}
	return strip(base) == strip(w.root)
}

// R1: clean/bumped automaton.
func c17R1(c *Ctx, g *gossipAnchors, fn *ssa.Function, ws []gWrite) {
	p := c.P
	ev := map[ssa.Instruction]string{}
	for _, w := range ws {
		if !g.isLocalState(w.root) {
			continue
		}
		switch w.kind {
		case "field:Version":
			if g.isBump(w) {
				ev[w.instr] = "bump"
			} else {
				c.fail("C17.R1", fnName(fn)+"/version-store", w.instr.Pos(), "the local node's Version is written by something other than Version = Version + 1")
			}
		case "entries-update":
			ev[w.instr] = "store"
		}
	}
	// forward may-analysis of automaton states
	const clean, bumped = 1, 2
	in := map[*ssa.BasicBlock]int{fn.Blocks[0]: clean}
	work := []*ssa.BasicBlock{fn.Blocks[0]}
	reported := map[ssa.Instruction]bool{}
	okStore := map[ssa.Instruction]bool{}
	for len(work) > 0 {
		b := work[0]
		work = work[1:]
		st := in[b]
		for _, i := range b.Instrs {
			switch ev[i] {
			case "bump":
				if st&bumped != 0 && !reported[i] {
					reported[i] = true
					c.fail("C17.R1", fnName(fn)+"/double-bump", i.Pos(), "Version++ can execute twice without an entry store in between: a version is consumed by no write")
				}
				st = bumped
			case "store":
				if st&clean != 0 && !reported[i] {
					reported[i] = true
					c.fail("C17.R1", fnName(fn)+"/store-without-bump", i.Pos(), "an entry of the local node can be stored without a fresh Version++ since the previous store: two writes share a version or a write keeps an old one")
				} else if st == bumped {
					okStore[i] = true
				}
				st = clean
			}
			if r, ok := i.(*ssa.Return); ok && st&bumped != 0 && !reported[i] {
				reported[i] = true
				c.fail("C17.R1", fnName(fn)+"/exit-bumped", r.Pos(), "the function can return after Version++ without storing an entry at that version")
			}
		}
		for _, s := range b.Succs {
			if s == fn.Recover {
				continue
			}
			if in[s]|st != in[s] {
				in[s] |= st
				work = append(work, s)
			}
		}
	}
	// the stored entry carries the freshly bumped version
	for _, w := range ws {
		if ev[w.instr] != "store" || reported[w.instr] {
			continue
		}
		key := fnName(fn) + "/store[" + keyDesc(w.key) + "]"
		okv, why := g.storesFreshVersion(w, ev)
		if okv && okStore[w.instr] {
			c.ok("C17.R1", key, w.instr.Pos(), "preceded by exactly one Version++ and stores the bumped version")
		} else if !okv {
			c.fail("C17.R1", key, w.instr.Pos(), why)
		} else {
			c.undecided("C17.R1", key, w.instr.Pos(), "store is reachable in more than one automaton state")
		}
		// R4: shape of the stored entry
		c17R4(c, g, fn, w)
	}
	_ = p
}

// R4: a locally written entry is built field by field (never copied from
// another entry, except the compaction re-insert which R3 covers), is stored
// under its own Key, and is marked Deleted exactly when it is a tombstone with
// an empty value.
func c17R4(c *Ctx, g *gossipAnchors, fn *ssa.Function, w gWrite) {
	al, _ := entryVarOf(w.val).(*ssa.Alloc)
	key := fnName(fn) + "/entry-shape[" + keyDesc(w.key) + "]"
	if al == nil {
		c.undecided("C17.R4", key, w.instr.Pos(), "stored entry is not a local Entry value")
		return
	}
	copied := false
	for _, r := range *al.Referrers() {
		if st, ok := r.(*ssa.Store); ok && st.Addr == ssa.Value(al) {
			copied = true
		}
	}
	if copied {
		// only the compaction re-insert may copy (checked field-by-field in R3)
		isCompaction := false
		for _, w2 := range g.writes(fn) {
			if w2.kind == "entries-reset" {
				isCompaction = true
			}
		}
		c.check(isCompaction, "C17.R4", key, w.instr.Pos(), "compaction re-inserts the snapshot element (see R3)",
			"the stored entry is a copy of another entry with some fields overwritten: flags such as Deleted carry over into the new write")
		return
	}
	var keyV, delV, valV ssa.Value
	for _, fsx := range fieldStores(al) {
		switch fsx.f {
		case g.eKey:
			keyV = fsx.st.Val
		case g.eDeleted:
			delV = fsx.st.Val
		case g.eValue:
			valV = fsx.st.Val
		}
	}
	keyOK := keyV != nil && sameValue(keyV, w.key)
	if !keyOK && keyV != nil {
		// Key copied from the entry looked up under the same key
		if b, ok := loadedField(keyV, g.eKey); ok {
			if a2, ok := b.(*ssa.Alloc); ok {
				if v, _ := singleStore(a2); v != nil {
					if ex, ok := v.(*ssa.Extract); ok {
						if lk, ok := ex.Tuple.(*ssa.Lookup); ok && sameValue(lk.Index, w.key) {
							keyOK = true
						}
					}
				}
			}
		}
	}
	tomb := false
	if delV != nil {
		b, isC := constBool(delV)
		if !isC {
			c.fail("C17.R4", key, w.instr.Pos(), "the stored entry's Deleted flag is not a constant: it may carry a stale tombstone flag into a live write")
			return
		}
		tomb = b
	}
	valOK := true
	if tomb {
		sv, ok := constString(valV)
		valOK = valV == nil || (ok && sv == "")
	}
	c.check(keyOK && valOK, "C17.R4", key, w.instr.Pos(), "entry built field by field, stored under its own key, Deleted constant",
		"the stored entry's Key is not the key it is stored under, or a tombstone carries a value")
}

func keyDesc(v ssa.Value) string {
	if s, ok := constString(v); ok {
		return s
	}
	return path(v)
}

// storesFreshVersion: within the store's block, the entry's Version field is
// set from a load of R.Version that comes after the last bump.
func (g *gossipAnchors) storesFreshVersion(w gWrite, ev map[ssa.Instruction]string) (bool, string) {
	mu := w.instr.(*ssa.MapUpdate)
	ld, ok := mu.Value.(*ssa.UnOp)
	if !ok || ld.Op != token.MUL {
		return false, "stored entry is not a local Entry value whose Version can be traced"
	}
	al, ok := ld.X.(*ssa.Alloc)
	if !ok {
		return false, "stored entry is not a local Entry value whose Version can be traced"
	}
	b := w.instr.Block()
	idx := indexOf(w.instr)
	lastBump := -1
	var verStore *ssa.Store
	verIdx := -1
	for i := 0; i < idx; i++ {
		in := b.Instrs[i]
		if ev[in] == "bump" {
			lastBump = i
		}
		if st, ok := in.(*ssa.Store); ok {
			if base, ok := addrOfField(st.Addr, g.eVersion); ok && base == ssa.Value(al) {
				verStore, verIdx = st, i
			}
		}
	}
	if lastBump < 0 {
		return false, "no Version++ in the block of the store: cannot show the stored version is fresh (undecided)"
	}
	if verStore == nil || verIdx < lastBump {
		return false, "the stored entry's Version field is not assigned after the Version++"
	}
	src, ok := verStore.Val.(*ssa.UnOp)
	if !ok || src.Op != token.MUL {
		return false, "the stored entry's Version is not a read of the node's Version"
	}
	base, ok := loadedField(src, g.versionF)
	if !ok {
		return false, "the stored entry's Version is not a read of the node's Version"
	}
	if inner, ok := base.(*ssa.FieldAddr); ok {
		if iv, ib := fieldVarOf(inner); iv == g.metaF {
			base = ib
		}
	}
	if strip(base) != strip(w.root) {
		return false, "the stored entry's Version is read from a different node"
	}
	if indexOf(src) < lastBump || src.Block() != b {
		return false, "the stored entry's Version is the value read before the Version++ (stale version)"
	}
	return true, ""
}

// R2: no-op guards.
func c17R2(c *Ctx, g *gossipAnchors, fn *ssa.Function, ws []gWrite) {
	// the function looks up Entries[param]
	var lookup *ssa.Lookup
	allInstrs(fn, func(i ssa.Instruction) {
		// (a lookup without the ok result counts too: then nothing can establish "found")
		if lk, ok := i.(*ssa.Lookup); ok && (lk.CommaOk || lookup == nil) {
			if base, ok := loadedField(lk.X, g.entriesF); ok && g.isLocalState(base) {
				if _, isP := strip(lk.Index).(*ssa.Parameter); isP {
					lookup = lk
				}
			}
		}
	})
	if lookup == nil {
		// leave-style writer: publishes the leave marker; it may return without writing only when already left
		isLeave := false
		var stores []ssa.Instruction
		for _, w := range ws {
			if w.kind == "entries-update" && g.isLocalState(w.root) {
				stores = append(stores, w.instr)
				if s, ok := constString(w.key); ok && s == g.leftKey {
					isLeave = true
				}
			}
		}
		if !isLeave {
			return
		}
		fs := computeFacts(fn)
		for _, r := range returnsOf(fn) {
			if !blockReachesAvoiding(fn.Blocks[0], r, stores) {
				continue
			}
			facts := fs.At(r.Block())
			already := anyFact(facts, func(f Fact) bool {
				b, ok := loadedField(f.V, g.leftF)
				return ok && f.T && g.isLocalState(metaRoot(b, g))
			})
			c.check(already, "C17.R2", fnName(fn)+"/noop-return[leave]", r.Pos(), "returns without publishing the marker only when the node already left",
				"the leave can be dropped although the node has not left yet (guard missing or inverted): the departure is never published; facts "+factStrings(facts))
		}
		return
	}
	var existing, okv ssa.Value
	if !lookup.CommaOk {
		existing = lookup
	}
	for _, r := range *lookup.Referrers() {
		if ex, ok := r.(*ssa.Extract); ok {
			if ex.Index == 0 {
				existing = ex
			} else {
				okv = ex
			}
		}
	}
	// `existing` is usually spilled into a local
	var existingAlloc ssa.Value
	if existing != nil {
		for _, r := range *existing.Referrers() {
			if st, ok := r.(*ssa.Store); ok {
				if a, ok := st.Addr.(*ssa.Alloc); ok {
					existingAlloc = a
				}
			}
		}
	}
	isExistingField := func(v ssa.Value, f interface{ Name() string }) bool {
		u, ok := strip(v).(*ssa.UnOp)
		if ok && u.Op == token.MUL {
			if fa, ok := u.X.(*ssa.FieldAddr); ok {
				fv, base := fieldVarOf(fa)
				return fv.Name() == f.Name() && existingAlloc != nil && base == existingAlloc
			}
		}
		if fl, ok := strip(v).(*ssa.Field); ok {
			fv, base := fieldVarOf(fl)
			return fv.Name() == f.Name() && base == existing
		}
		return false
	}
	// style: does the store write Deleted: true?
	var stores []ssa.Instruction
	deleteStyle := false
	var valueParam ssa.Value
	for _, w := range ws {
		if w.kind != "entries-update" || !g.isLocalState(w.root) {
			continue
		}
		stores = append(stores, w.instr)
		if al := entryVarOf(w.val); al != nil {
			if a, ok := al.(*ssa.Alloc); ok {
				for _, fsx := range fieldStores(a) {
					if fsx.f == g.eDeleted {
						if b, ok := constBool(fsx.st.Val); ok && b {
							deleteStyle = true
						}
					}
					if fsx.f == g.eValue {
						if pv, ok := strip(fsx.st.Val).(*ssa.Parameter); ok {
							valueParam = pv
						}
					}
				}
			}
		}
	}
	if len(stores) == 0 {
		return
	}
	fs := computeFacts(fn)
	style := "upsert"
	if deleteStyle {
		style = "delete"
	}
	found := func(a []Fact) bool { return anyFact(a, func(f Fact) bool { return f.V == okv && f.T }) }
	notFound := func(a []Fact) bool { return anyFact(a, func(f Fact) bool { return f.V == okv && !f.T }) }
	deleted := func(a []Fact, want bool) bool {
		return anyFact(a, func(f Fact) bool { return f.T == want && isExistingField(f.V, g.eDeleted) })
	}
	sameVal := func(a []Fact) bool {
		return anyFact(a, func(f Fact) bool {
			return cmpFact(f, token.EQL, func(v ssa.Value) bool { return isExistingField(v, g.eValue) },
				func(v ssa.Value) bool { return valueParam != nil && strip(v) == valueParam })
		})
	}
	noops := 0
	for _, r := range returnsOf(fn) {
		if !blockReachesAvoiding(fn.Blocks[0], r, stores) {
			continue
		}
		for k, alt := range factAlternatives(fs, r.Block(), 3) {
			key := fmt.Sprintf("%s/noop-return[%s alt %d]", fnName(fn), style, k)
			switch style {
			case "upsert":
				good := found(alt) && sameVal(alt) && deleted(alt, false)
				if good {
					noops++
				}
				c.check(good, "C17.R2", key, r.Pos(), "returns without writing only when the key exists with the same value and is not deleted",
					"an upsert can be dropped as a no-op although it changes the state: the early return needs {found, existing.Value == value, !existing.Deleted}, facts here are "+factStrings(alt))
			case "delete":
				good := notFound(alt) || (found(alt) && deleted(alt, true)) || deleted(alt, true)
				if good {
					noops++
				}
				c.check(good, "C17.R2", key, r.Pos(), "returns without writing only when the key is absent or already deleted",
					"a delete can be dropped although the key is live: facts here are "+factStrings(alt))
			}
		}
	}
	want := 1
	if style == "delete" {
		want = 2
	}
	c.check(noops >= want, "C17.R2", fnName(fn)+"/noop-exists["+style+"]", fn.Pos(),
		"no-op writes return before the version bump", fmt.Sprintf("expected %d no-op return arm(s) before the version bump, found %d: a write that changes nothing would consume a version", want, noops))
}

// R3: compaction retention.
func c17R3(c *Ctx, g *gossipAnchors, fn *ssa.Function, ws []gWrite) {
	p := c.P
	var reset *gWrite
	for i, w := range ws {
		if w.kind == "entries-reset" && g.isLocalState(w.root) {
			reset = &ws[i]
		}
	}
	if reset == nil {
		return
	}
	fs := computeFacts(fn)
	// the re-insert store: MapUpdate with key entry.Key of a loop variable, after the reset
	var reins *gWrite
	var marker *gWrite
	for i, w := range ws {
		if w.kind != "entries-update" || !g.isLocalState(w.root) {
			continue
		}
		if s, ok := constString(w.key); ok && s == g.compactKey {
			marker = &ws[i]
		} else if dominatesInstr(reset.instr, w.instr) {
			reins = &ws[i]
		}
	}
	if reins == nil || marker == nil {
		c.fail("C17.R3", fnName(fn)+"/shape", fn.Pos(), "compaction does not re-insert entries and publish a compaction marker after resetting the map")
		return
	}
	entryAl, _ := entryVarOf(reins.val).(*ssa.Alloc)
	if entryAl == nil {
		c.fail("C17.R3", fnName(fn)+"/reinsert-value", reins.instr.Pos(), "re-inserted value is not the loop's snapshot element")
		return
	}
	// (a) key is entry.Key; only Version is overwritten on the snapshot element
	keyOK := loadOfAllocField(reins.key, entryAl, g.eKey)
	fieldStoresOK := true
	var whole *ssa.Store
	for _, r := range *entryAl.Referrers() {
		if st, ok := r.(*ssa.Store); ok && st.Addr == ssa.Value(entryAl) {
			whole = st
		}
	}
	for _, fsx := range fieldStores(entryAl) {
		if fsx.f != g.eVersion {
			fieldStoresOK = false
		}
	}
	c.check(keyOK && fieldStoresOK && whole != nil, "C17.R3", fnName(fn)+"/reinsert-unchanged", reins.instr.Pos(),
		"live entries are re-inserted under their own key with only Version rewritten",
		"the re-inserted entry is keyed or modified other than by its Version: a live key/value changes during compaction")
	// (b) skip edges of the loop
	hdr := loopHeader(reins.instr.Block())
	if hdr == nil {
		c.fail("C17.R3", fnName(fn)+"/reinsert-loop", reins.instr.Pos(), "re-insert store is not in a loop over the snapshot")
		return
	}
	isEntryField := func(v ssa.Value, f interface{ Name() string }) bool {
		u, ok := strip(v).(*ssa.UnOp)
		if !ok || u.Op != token.MUL {
			return false
		}
		fa, ok := u.X.(*ssa.FieldAddr)
		if !ok || fa.X != ssa.Value(entryAl) {
			return false
		}
		fv, _ := fieldVarOf(fa)
		return fv.Name() == f.Name()
	}
	nSkip := 0
	for _, pb := range hdr.Preds {
		if !hdr.Dominates(pb) {
			continue // loop entry edge
		}
		if reins.instr.Block().Dominates(pb) || reins.instr.Block() == pb {
			continue // passes the re-insert
		}
		nSkip++
		facts := fs.OnEdge(pb, hdr)
		del := anyFact(facts, func(f Fact) bool { return f.T && isEntryField(f.V, g.eDeleted) })
		oldMarker := anyFact(facts, func(f Fact) bool { return f.T && isEntryField(f.V, g.eInternal) }) &&
			anyFact(facts, func(f Fact) bool {
				return cmpFact(f, token.EQL, func(v ssa.Value) bool { return isEntryField(v, g.eKey) },
					func(v ssa.Value) bool { s, ok := constString(v); return ok && s == g.compactKey })
			})
		c.check(del || oldMarker, "C17.R3", fmt.Sprintf("%s/skip-edge[%d]", fnName(fn), nSkip), pb.Instrs[len(pb.Instrs)-1].Pos(),
			"an entry is dropped only when deleted or when it is the previous compaction marker",
			"compaction can drop an entry that is neither deleted nor the previous compaction marker: facts on the skipping edge "+factStrings(facts))
	}
	// (c) the snapshot holds every entry: unconditional append of each ranged element before the reset
	snapOK := false
	allInstrs(fn, func(i ssa.Instruction) {
		rg, ok := i.(*ssa.Range)
		if !ok {
			return
		}
		base, ok := loadedField(rg.X, g.entriesF)
		if !ok || !g.isLocalState(base) || !dominatesInstr(rg, reset.instr) {
			return
		}
		// find append in the loop body with only the range `ok` fact beyond the range's own block facts
		allInstrs(fn, func(j ssa.Instruction) {
			cl, ok := j.(*ssa.Call)
			if !ok {
				return
			}
			if b, ok := cl.Call.Value.(*ssa.Builtin); !ok || b.Name() != "append" {
				return
			}
			extra := 0
			base := map[Fact]bool{}
			for _, f := range fs.At(rg.Block()) {
				base[f] = true
			}
			fromThis := false
			for _, f := range fs.At(cl.Block()) {
				if base[f] {
					continue
				}
				if ex, ok := f.V.(*ssa.Extract); ok {
					if nx, ok := ex.Tuple.(*ssa.Next); ok && nx.Iter == ssa.Value(rg) && f.T {
						fromThis = true
						continue
					}
				}
				extra++
			}
			if fromThis && extra == 0 {
				snapOK = true
			}
		})
	})
	// or: the snapshot is produced by a helper that returns every entry of the node, sorted by version
	helperSorted := false
	allInstrs(fn, func(i ssa.Instruction) {
		cl, ok := i.(*ssa.Call)
		if !ok || !dominatesInstr(cl, reset.instr) {
			return
		}
		cal := cl.Call.StaticCallee()
		if cal == nil || !inModule(cal) || len(cl.Call.Args) == 0 || !g.isLocalState(cl.Call.Args[0]) {
			return
		}
		if g.isSortedSnapshotFn(cal) {
			helperSorted = true
			snapOK = true
		}
	})
	// or: the library form slices.Collect(maps.Values(local.Entries)) (every value, by the library's contract)
	allInstrs(fn, func(i ssa.Instruction) {
		cl, ok := i.(*ssa.Call)
		if !ok || commonName(&cl.Call) != "slices.Collect" || !dominatesInstr(cl, reset.instr) || len(cl.Call.Args) != 1 {
			return
		}
		src, ok := strip(cl.Call.Args[0]).(*ssa.Call)
		if !ok || commonName(&src.Call) != "maps.Values" || len(src.Call.Args) != 1 {
			return
		}
		if base, ok := loadedField(src.Call.Args[0], g.entriesF); ok && g.isLocalState(base) {
			snapOK = true
		}
	})
	c.check(snapOK, "C17.R3", fnName(fn)+"/snapshot-complete", reset.instr.Pos(),
		"every entry is copied to the snapshot before the map is reset",
		"the snapshot taken before resetting the entries does not unconditionally include every entry")
	// (d) marker value = FormatUint(last version of the sorted snapshot)
	mAl, _ := entryVarOf(marker.val).(*ssa.Alloc)
	markOK, why := false, "compaction marker value is not the decimal of the last pre-compaction version"
	if mAl != nil {
		for _, fsx := range fieldStores(mAl) {
			st := fsx.st
			if fsx.f != g.eValue {
				continue
			}
			cl, ok := st.Val.(*ssa.Call)
			if !ok || commonName(&cl.Call) != "strconv.FormatUint" {
				continue
			}
			if k, ok := constInt(cl.Call.Args[1]); !ok || k != 10 {
				continue
			}
			// arg: load of (&snapshot[len-1]).Version, read before the reset
			src := cl.Call.Args[0]
			if u, ok := src.(*ssa.UnOp); ok && u.Op == token.MUL {
				if fa, ok := u.X.(*ssa.FieldAddr); ok {
					if fv, b := fieldVarOf(fa); fv == g.eVersion {
						if ia, ok := b.(*ssa.IndexAddr); ok {
							if bo, ok := ia.Index.(*ssa.BinOp); ok && bo.Op == token.SUB {
								if one, ok := constInt(bo.Y); ok && one == 1 {
									if sortedBefore(fn, u, g) || helperSorted {
										markOK = true
									} else {
										why = "the snapshot is not sorted by Version before its last element is taken as the compaction version"
									}
								}
							}
						}
					}
				}
			}
		}
	}
	c.check(markOK, "C17.R3", fnName(fn)+"/marker-value", marker.instr.Pos(), "marker = FormatUint(last version of the version-sorted snapshot, 10)", why)
	_ = p
}

// sortedBefore: a sort.Slice (or slices.SortFunc) whose comparator orders by
// Entry.Version with < dominates the instruction.
func sortedBefore(fn *ssa.Function, at ssa.Instruction, g *gossipAnchors) bool {
	ok := false
	allInstrs(fn, func(i ssa.Instruction) {
		cl, isCall := i.(*ssa.Call)
		if !isCall {
			return
		}
		n := commonName(&cl.Call)
		if n != "sort.Slice" && n != "sort.SliceStable" && n != "slices.SortFunc" && n != "slices.SortStableFunc" {
			return
		}
		if !dominatesInstr(cl, at) {
			return
		}
		var cmp *ssa.Function
		for _, a := range cl.Call.Args {
			if mc, isMC := a.(*ssa.MakeClosure); isMC {
				cmp, _ = mc.Fn.(*ssa.Function)
			} else if f, isF := a.(*ssa.Function); isF {
				cmp = f
			}
		}
		if cmp != nil && comparatorByVersion(cmp, g) {
			ok = true
		}
	})
	return ok
}

// comparatorByVersion: every return of the comparator is `a.Version < b.Version`
// (sort.Slice) or derives only from Version fields (SortFunc with cmp.Compare).
func comparatorByVersion(cmp *ssa.Function, g *gossipAnchors) bool {
	good := true
	n := 0
	for _, r := range returnsOf(cmp) {
		if len(r.Results) != 1 {
			return false
		}
		n++
		switch x := r.Results[0].(type) {
		case *ssa.BinOp:
			if x.Op != token.LSS {
				good = false
			}
			for _, side := range []ssa.Value{x.X, x.Y} {
				if _, ok := loadedField(side, g.eVersion); !ok {
					good = false
				}
			}
			// left operand indexed by the first parameter, right by the second
			if !indexedByParam(x.X, cmp, 0) || !indexedByParam(x.Y, cmp, 1) {
				good = false
			}
		case *ssa.Call:
			if commonName(&x.Call) != "cmp.Compare" || len(x.Call.Args) != 2 {
				good = false
				break
			}
			for k, side := range x.Call.Args {
				b, ok := loadedField(side, g.eVersion)
				if !ok {
					good = false
					continue
				}
				if pv, ok := strip(b).(*ssa.Parameter); !ok || len(cmp.Params) < 2 || pv != cmp.Params[k] {
					if al, ok := b.(*ssa.Alloc); ok {
						if v, _ := singleStore(al); v == nil || strip(v) != ssa.Value(cmp.Params[k]) {
							good = false
						}
					} else {
						good = false
					}
				}
			}
		default:
			good = false
		}
	}
	return good && n > 0
}

func indexedByParam(v ssa.Value, fn *ssa.Function, k int) bool {
	u, ok := strip(v).(*ssa.UnOp)
	if !ok {
		return false
	}
	fa, ok := u.X.(*ssa.FieldAddr)
	if !ok {
		return false
	}
	ia, ok := fa.X.(*ssa.IndexAddr)
	if !ok {
		return false
	}
	pv, ok := strip(ia.Index).(*ssa.Parameter)
	return ok && len(fn.Params) > k && pv == fn.Params[k]
}

// isSortedSnapshotFn: f(receiver *nodeState) returns a slice holding every
// entry of the receiver (unconditional append in a range over its Entries),
// sorted ascending by Version on every path to return.
func (g *gossipAnchors) isSortedSnapshotFn(f *ssa.Function) bool {
	if len(f.Params) == 0 || len(f.Blocks) == 0 {
		return false
	}
	fs := computeFacts(f)
	complete := false
	allInstrs(f, func(i ssa.Instruction) {
		rg, ok := i.(*ssa.Range)
		if !ok {
			return
		}
		base, ok := loadedField(rg.X, g.entriesF)
		if !ok || strip(base) != ssa.Value(f.Params[0]) {
			return
		}
		allInstrs(f, func(j ssa.Instruction) {
			cl, ok := j.(*ssa.Call)
			if !ok {
				return
			}
			if b, ok := cl.Call.Value.(*ssa.Builtin); !ok || b.Name() != "append" {
				return
			}
			extra, fromThis := 0, false
			for _, fc := range fs.At(cl.Block()) {
				if ex, ok := fc.V.(*ssa.Extract); ok {
					if nx, ok := ex.Tuple.(*ssa.Next); ok && nx.Iter == ssa.Value(rg) && fc.T {
						fromThis = true
						continue
					}
				}
				extra++
			}
			if fromThis && extra == 0 {
				complete = true
			}
		})
	})
	if !complete {
		return false
	}
	for _, r := range returnsOf(f) {
		if !sortedBefore(f, r, g) {
			return false
		}
	}
	return true
}
