package main

import (
	"fmt"
	"go/token"
	"go/types"
	"sort"
	"strings"

	"golang.org/x/tools/go/ssa"
)

const sgPkg = "server/gossip"

func init() {
	register(&propDef{
		id: "C04",
		meta: propMeta{
			explanation: "Decides the structural clauses of 'the routing table mirrors what each node advertises': (R1) fully decides the lookup sentence - every `return node, true` of State.LookupEndpoint carries the facts node.ID != localID, node.Status == active, Endpoints[param] present and > 0, and returns a copy of that node; (R2) the gossip key schema agrees between the publishing side and the watcher side (same constants, Itoa/Atoi); (R3) every watcher method of the syncer reaches its cluster.State mutator with the matching constant on every path except those carrying an allowed skip fact (local id, non-endpoint key, unparsable count), and handles the pending node when the mutator reports the node is not in the table; (R4) a pending node is promoted only when both addresses are known, after being removed from pending, and keeps a non-active status recorded while pending; (R5) the owner publishes count>0 as upsert else delete (same rule as C05.R3); (R6) the remote mutators of cluster.State refuse the local id. Deletes learnt only through compaction are C14. Not decided: equality of table and advertisement over all delivery histories. Second round: (R10) the routing-table mutators report success only after their write (in the mutator or the locked helper it tests) and AddNode stores under the node's own id; (R11) State loops complete; (R12) OnJoin records a pending node exactly for unknown remote nodes and pending nodes record their addresses.",
			ruleText:    "obligation = one return / call site / path class / constant; distinct = distinct keys",
			assumptions: []string{"gossip delivers every visible key change as a watcher notification (C14)"},
		},
		run: runC04,
		mutants: []mutant{
			{Name: "OnDeleteKey no longer removes the endpoint", File: "server/gossip/syncer.go", Old: "\tif s.clusterState.RemoveRemoteEndpoint(nodeID, endpointID) {\n", New: "\tif _, ok := s.clusterState.Node(nodeID); ok && false {\n", Rule: "C04.R3"},
			{Name: "LookupEndpoint drops the status test", File: "server/cluster/state.go", Old: "\t\tif node.Status != NodeStatusActive {\n\t\t\t// Ignore unreachable and left nodes.\n\t\t\tcontinue\n\t\t}\n\t\tif listeners, ok", New: "\t\tif listeners, ok", Rule: "C04.R1"},
			{Name: "promotion with one address", File: "server/gossip/syncer.go", Old: "\tif node.ProxyAddr != \"\" && node.AdminAddr != \"\" {", New: "\tif node.ProxyAddr != \"\" || node.AdminAddr != \"\" {", Rule: "C04.R4"},
			{Name: "writer prefix endpoints:", File: "server/gossip/syncer.go", Old: "func (s *syncer) onLocalEndpointUpdate(endpointID string) {\n\tkey := \"endpoint:\" + endpointID", New: "func (s *syncer) onLocalEndpointUpdate(endpointID string) {\n\tkey := \"endpoints:\" + endpointID", Rule: "C04.R"},
			{Name: "zero counts published", File: "server/gossip/syncer.go", Old: "\tif listeners > 0 {\n\t\ts.gossiper.UpsertLocal(key, strconv.Itoa(listeners))", New: "\tif listeners >= 0 {\n\t\ts.gossiper.UpsertLocal(key, strconv.Itoa(listeners))", Rule: "C04.R5"},
			{Name: "OnLeave maps to unreachable", File: "server/gossip/syncer.go", Old: "s.clusterState.UpdateRemoteStatus(nodeID, cluster.NodeStatusLeft)", New: "s.clusterState.UpdateRemoteStatus(nodeID, cluster.NodeStatusUnreachable)", Rule: "C04.R3"},
			{Name: "endpoint updates ignored for non-active nodes", File: "server/gossip/syncer.go", Old: "\t\tif s.clusterState.UpdateRemoteEndpoint(nodeID, endpointID, listeners) {\n\t\t\treturn\n\t\t}", New: "\t\tif n, ok := s.clusterState.Node(nodeID); ok && n.Status != cluster.NodeStatusActive {\n\t\t\treturn\n\t\t}\n\t\tif s.clusterState.UpdateRemoteEndpoint(nodeID, endpointID, listeners) {\n\t\t\treturn\n\t\t}", Rule: "C04.R3"},
			{Name: "promotion resets a recorded unreachable status", File: "server/gossip/syncer.go", Old: "\t\tif node.Status == \"\" {\n", New: "\t\tif node.Status != cluster.NodeStatusLeft {\n", Rule: "C04.R4"},
			{Name: "lookup accepts zero listeners", File: "server/cluster/state.go", Old: "ok && listeners > 0 {", New: "ok && listeners >= 0 {", Rule: "C04.R1"},
			{Name: "UpdateRemoteStatus accepts the local id", File: "server/cluster/state.go", Old: "\tif id == s.localID {\n\t\ts.logger.Warn(\"update remote status: cannot update local node\")\n\t\treturn false\n\t}\n", New: "", Rule: "C04.R6"},
			{Name: "benign: CutPrefix replaced by TrimPrefix", Benign: true, File: "server/gossip/syncer.go", Old: "\tendpointID, _ := strings.CutPrefix(key, \"endpoint:\")\n\tif s.clusterState.RemoveRemoteEndpoint", New: "\tendpointID := strings.TrimPrefix(key, \"endpoint:\")\n\tif s.clusterState.RemoveRemoteEndpoint"},
		},
	})
}

func runC04(c *Ctx) {
	c04R1(c)
	c04R2(c)
	c04StatusRules(c, "C04.R3")
	c04KeyRules(c)
	c05R3(c, "C04.R5")
	c04R6(c)
	c04Effects(c)
	c04PendingRules(c)
	// what the observer applies: only entries newer than everything applied
	// for that node, so a withdrawn endpoint cannot be resurrected by a late delta
	if g := newGossipAnchors(c.P); g.ok {
		c02R2(c, g, "C04.R7")
		pairingRule(c, g, "C04.R8", map[string]bool{"entries-update": true, "entries-delete": true})
		// withdrawn endpoints reach observers: complete version-ordered deltas, whole-entry prefixes, consistent compaction
		c02R3(c, g)
		c13Encode(c, "C04.R9", "C04.R9")
		c17All(c, g)
	} else {
		c.fail("C04.anchor", "pkg/gossip state types", token.NoPos, "unresolved:"+g.missing)
	}
}

type clusterAnchors struct {
	nodesF, localIDF                      *types.Var
	nID, nStatus, nProxy, nAdmin, nEndpts *types.Var
	statusConst                           map[string]string // const name -> value
}

func newClusterAnchors(c *Ctx) *clusterAnchors {
	p := c.P
	a := &clusterAnchors{statusConst: map[string]string{}}
	a.nodesF, a.localIDF = p.Field(clPkg, "State", "nodes"), p.Field(clPkg, "State", "localID")
	a.nID, a.nStatus = p.Field(clPkg, "Node", "ID"), p.Field(clPkg, "Node", "Status")
	a.nProxy, a.nAdmin, a.nEndpts = p.Field(clPkg, "Node", "ProxyAddr"), p.Field(clPkg, "Node", "AdminAddr"), p.Field(clPkg, "Node", "Endpoints")
	if sp := p.Pkg(clPkg); sp != nil {
		for _, n := range []string{"NodeStatusActive", "NodeStatusUnreachable", "NodeStatusLeft"} {
			if k := sp.Const(n); k != nil {
				if s, ok := constString(k.Value); ok {
					a.statusConst[n] = s
				}
			}
		}
	}
	if a.nodesF == nil || a.localIDF == nil || a.nID == nil || a.nStatus == nil || a.nEndpts == nil || len(a.statusConst) != 3 {
		c.fail("C04.anchor", "server/cluster types", token.NoPos, "State/Node fields or status constants unresolved")
		return nil
	}
	return a
}

// ---- R1: lookup guards ----

func c04R1(c *Ctx) {
	p := c.P
	a := newClusterAnchors(c)
	if a == nil {
		return
	}
	fn := p.Func(clPkg, "State.LookupEndpoint")
	if fn == nil {
		c.fail("C04.anchor", "State.LookupEndpoint", token.NoPos, "not found")
		return
	}
	c.analysed(fnName(fn))
	c.floor("C04.R1", 1)
	fs := computeFacts(fn)
	param := ssa.Value(fn.Params[1])
	n := 0
	for _, r := range returnsOf(fn) {
		if len(r.Results) != 2 {
			continue
		}
		rv := returnValues(r)
		if b, ok := constBool(rv[1]); ok && !b {
			continue
		}
		n++
		key := fmt.Sprintf("%s/return-found[%d]", fnName(fn), n)
		// returned node: X.Copy()
		var node ssa.Value
		if cl, ok := rv[0].(*ssa.Call); ok && commonName(&cl.Call) == "(*"+modPath+"/server/cluster.Node).Copy" {
			node = cl.Call.Args[0]
		}
		if node == nil {
			c.fail("C04.R1", key, r.Pos(), "the lookup does not return a copy of a table node (or found is not a constant)")
			continue
		}
		facts := fs.At(r.Block())
		ofNode := func(v ssa.Value, f *types.Var) bool {
			b, ok := loadedField(v, f)
			return ok && strip(b) == strip(node)
		}
		notLocal := anyFact(facts, func(f Fact) bool {
			return cmpFact(f, token.NEQ, func(v ssa.Value) bool { return ofNode(v, a.nID) }, func(v ssa.Value) bool { _, ok := loadedField(v, a.localIDF); return ok })
		})
		active := anyFact(facts, func(f Fact) bool {
			return cmpFact(f, token.EQL, func(v ssa.Value) bool { return ofNode(v, a.nStatus) }, func(v ssa.Value) bool { s, ok := constString(v); return ok && s == a.statusConst["NodeStatusActive"] })
		})
		var lk *ssa.Lookup
		present := anyFact(facts, func(f Fact) bool {
			ex, ok := f.V.(*ssa.Extract)
			if !ok || ex.Index != 1 || !f.T {
				return false
			}
			l, ok := ex.Tuple.(*ssa.Lookup)
			if !ok || !ofNode(l.X, a.nEndpts) || strip(l.Index) != param {
				return false
			}
			lk = l
			return true
		})
		positive := present && anyFact(facts, func(f Fact) bool {
			isL := func(v ssa.Value) bool {
				ex, ok := v.(*ssa.Extract)
				return ok && ex.Index == 0 && ex.Tuple == ssa.Value(lk)
			}
			isK := func(k int64) func(ssa.Value) bool {
				return func(v ssa.Value) bool { n, ok := constInt(v); return ok && n == k }
			}
			return cmpFact(f, token.GTR, isL, isK(0)) || cmpFact(f, token.GEQ, isL, isK(1))
		})
		c.check(notLocal && active && present && positive, "C04.R1", key, r.Pos(),
			"returned node is not local, is active, and advertises > 0 upstreams for the requested endpoint",
			fmt.Sprintf("a lookup can return a node that is local (%v), not active (%v), or does not advertise the endpoint with a positive count (present %v, positive %v); facts %s", !notLocal, !active, present, positive, factStrings(facts)))
	}
	if n == 0 {
		c.fail("C04.R1", fnName(fn)+"/return-found", fn.Pos(), "no successful return found")
	}
}

// ---- R2: key schema ----

func c04R2(c *Ctx) {
	p := c.P
	writer := map[string]bool{}
	reader := map[string]bool{}
	itoa, atoi := false, false
	for _, fn := range methodsOf(p, sgPkg, "syncer") {
		for _, f := range withAnon(fn) {
			allInstrs(f, func(i ssa.Instruction) {
				cc := callCommon(i)
				if cc == nil {
					return
				}
				n := commonName(cc)
				switch {
				case cc.IsInvoke() && (cc.Method.Name() == "UpsertLocal" || cc.Method.Name() == "DeleteLocal"):
					k := cc.Args[0]
					if s, ok := constString(k); ok {
						writer[s] = true
					} else if bo, ok := strip(k).(*ssa.BinOp); ok && bo.Op == token.ADD {
						if s, ok := constString(bo.X); ok {
							writer[s+"*"] = true
						}
					} else {
						writer["?"+path(k)] = true
					}
					if cc.Method.Name() == "UpsertLocal" && len(cc.Args) == 2 {
						if vc, ok := cc.Args[1].(*ssa.Call); ok && commonName(&vc.Call) == "strconv.Itoa" {
							itoa = true
						}
					}
				case n == "strings.HasPrefix" || n == "strings.CutPrefix" || n == "strings.TrimPrefix":
					if _, isP := strip(cc.Args[0]).(*ssa.Parameter); isP {
						if s, ok := constString(cc.Args[1]); ok {
							reader[s+"*"] = true
						}
					}
				case n == "strconv.Atoi":
					atoi = true
				}
			})
			// comparisons key == "const"
			allInstrs(f, func(i ssa.Instruction) {
				bo, ok := i.(*ssa.BinOp)
				if !ok || (bo.Op != token.EQL && bo.Op != token.NEQ) {
					return
				}
				for _, pair := range [][2]ssa.Value{{bo.X, bo.Y}, {bo.Y, bo.X}} {
					if pv, isP := strip(pair[0]).(*ssa.Parameter); isP && pv.Name() == "key" {
						if s, ok := constString(pair[1]); ok {
							reader[s] = true
						}
					}
				}
			})
		}
	}
	c.floor("C04.R2", 4)
	all := map[string]bool{}
	for k := range writer {
		all[k] = true
	}
	for k := range reader {
		all[k] = true
	}
	var keys []string
	for k := range all {
		keys = append(keys, k)
	}
	sort.Strings(keys)
	for _, k := range keys {
		c.check(writer[k] && reader[k], "C04.R2", "gossip-key/"+k, token.NoPos, "published and consumed under the same key",
			fmt.Sprintf("gossip key %q is published=%v consumed=%v: the two sides of the key schema disagree", k, writer[k], reader[k]))
	}
	c.check(itoa && atoi, "C04.R2", "count-encoding", token.NoPos, "counts are written with strconv.Itoa and read with strconv.Atoi", "count encoding differs between publisher and consumer")
}

// ---- R3: watcher method -> table operation ----

func stateCall(name string) string {
	return "(*" + modPath + "/server/cluster.State)." + name
}

// skipFactAllowed: facts under which a watcher method may return without
// touching the routing table.
func skipFactAllowed(f Fact, fn *ssa.Function) string {
	// nodeID == LocalID()
	if cmpFact(f, token.EQL, func(v ssa.Value) bool { return strip(v) == ssa.Value(fn.Params[1]) }, func(v ssa.Value) bool {
		cl, ok := v.(*ssa.Call)
		return ok && commonName(&cl.Call) == stateCall("LocalID")
	}) {
		return "local id"
	}
	// key == "<const not an endpoint key>"
	if cmpFact(f, token.EQL, func(v ssa.Value) bool { pv, ok := strip(v).(*ssa.Parameter); return ok && pv.Name() == "key" }, func(v ssa.Value) bool {
		s, ok := constString(v)
		return ok && !strings.HasPrefix(s, "endpoint:")
	}) {
		return "non-endpoint key"
	}
	if cl, ok := f.V.(*ssa.Call); ok && commonName(&cl.Call) == "strings.HasPrefix" && !f.T {
		return "key without the endpoint prefix"
	}
	if ex, ok := f.V.(*ssa.Extract); ok && ex.Index == 1 && !f.T {
		if cl, ok := ex.Tuple.(*ssa.Call); ok && commonName(&cl.Call) == "strings.CutPrefix" {
			return "key without the endpoint prefix"
		}
	}
	// err != nil from Atoi
	if cmpFact(f, token.NEQ, func(v ssa.Value) bool {
		ex, ok := v.(*ssa.Extract)
		if !ok {
			return false
		}
		cl, ok := ex.Tuple.(*ssa.Call)
		return ok && commonName(&cl.Call) == "strconv.Atoi"
	}, isNilConst) {
		return "unparsable count"
	}
	return ""
}

func c04StatusRules(c *Ctx, rule string) {
	p := c.P
	a := newClusterAnchors(c)
	if a == nil {
		return
	}
	c.floor(rule, 8)
	pending := p.Field(sgPkg, "syncer", "pendingNodes")
	type spec struct {
		method, mutator, statusConst string
		pendingOp                    string // delete | status
	}
	specs := []spec{
		{"OnLeave", "UpdateRemoteStatus", "NodeStatusLeft", "delete"},
		{"OnReachable", "UpdateRemoteStatus", "NodeStatusActive", "status"},
		{"OnUnreachable", "UpdateRemoteStatus", "NodeStatusUnreachable", "status"},
		{"OnExpired", "RemoveNode", "", "delete"},
	}
	for _, sp := range specs {
		fn := p.Func(sgPkg, "syncer."+sp.method)
		if fn == nil {
			c.fail(rule, "anchor/syncer."+sp.method, token.NoPos, "watcher method not found")
			continue
		}
		c.analysed(fnName(fn))
		nodeID := ssa.Value(fn.Params[1])
		isTarget := func(i ssa.Instruction) bool {
			cl, ok := i.(*ssa.Call)
			if !ok || commonName(&cl.Call) != stateCall(sp.mutator) {
				return false
			}
			if strip(cl.Call.Args[1]) != nodeID {
				return false
			}
			if sp.statusConst != "" {
				s, ok := constString(cl.Call.Args[2])
				return ok && s == a.statusConst[sp.statusConst]
			}
			return true
		}
		var target *ssa.Call
		allInstrs(fn, func(i ssa.Instruction) {
			if isTarget(i) {
				target = i.(*ssa.Call)
			}
		})
		key := fnName(fn) + "/" + sp.mutator
		if target == nil {
			c.fail(rule, key, fn.Pos(), fmt.Sprintf("%s does not call State.%s(nodeID%s): the routing table does not follow this membership event", sp.method, sp.mutator, map[bool]string{true: ", " + sp.statusConst, false: ""}[sp.statusConst != ""]))
			continue
		}
		paths, complete := enumPathsAt(fn.Blocks[0], 0, isTarget, nil, func(pa *fpath) bool { return len(pa.seen) > 0 }, 200)
		bad := ""
		for _, pa := range paths {
			if len(pa.seen) > 0 || pa.endWhy != "return" {
				continue
			}
			why := ""
			for _, f := range pa.facts {
				if w := skipFactAllowed(f, fn); w != "" {
					why = w
				}
			}
			if why == "" {
				bad = "a path returns at " + p.pos(pa.end.Pos()) + " without updating the routing table and without an allowed reason; path facts " + factStrings(pa.facts)
			}
		}
		c.check(complete && bad == "", rule, key, target.Pos(), "reached on every path except the local-id return", bad)
		// pending arm: on the paths where the mutator returned false
		paths2, _ := enumPaths(target, func(i ssa.Instruction) bool {
			switch x := i.(type) {
			case *ssa.Call:
				if b, ok := x.Call.Value.(*ssa.Builtin); ok && b.Name() == "delete" {
					_, ok := loadedField(x.Call.Args[0], pending)
					return ok && strip(x.Call.Args[1]) == nodeID
				}
			case *ssa.Store:
				if _, ok := addrOfField(x.Addr, a.nStatus); ok {
					s, ok := constString(x.Val)
					return ok && sp.statusConst != "" && s == a.statusConst[sp.statusConst]
				}
			}
			return false
		}, nil, func(pa *fpath) bool { return len(pa.seen) > 0 }, 200)
		bad = ""
		for _, pa := range paths2 {
			if len(pa.seen) > 0 {
				continue
			}
			updated := anyFact(pa.facts, func(f Fact) bool { return f.V == ssa.Value(target) && f.T })
			unknown := anyFact(pa.facts, func(f Fact) bool {
				ex, ok := f.V.(*ssa.Extract)
				if !ok || ex.Index != 1 || f.T {
					return false
				}
				lk, ok := ex.Tuple.(*ssa.Lookup)
				if !ok {
					return false
				}
				_, ok = loadedField(lk.X, pending)
				return ok
			})
			if !updated && !unknown {
				bad = "when the node is not yet in the routing table a path ends at " + p.pos(pa.end.Pos()) + " without recording the event on the pending node; facts " + factStrings(pa.facts)
			}
		}
		c.check(bad == "", rule, key+"/pending-arm", target.Pos(), "a pending node records the event ("+sp.pendingOp+")", bad)
	}
}

// c04KeyRules: OnUpsertKey / OnDeleteKey and promotion (R3, R4).
func c04KeyRules(c *Ctx) {
	p := c.P
	a := newClusterAnchors(c)
	if a == nil {
		return
	}
	pending := p.Field(sgPkg, "syncer", "pendingNodes")
	c.floor("C04.R4", 3)
	type spec struct{ method, mutator string }
	for _, sp := range []spec{{"OnUpsertKey", "UpdateRemoteEndpoint"}, {"OnDeleteKey", "RemoveRemoteEndpoint"}} {
		fn := p.Func(sgPkg, "syncer."+sp.method)
		if fn == nil {
			c.fail("C04.R3", "anchor/syncer."+sp.method, token.NoPos, "watcher method not found")
			continue
		}
		c.analysed(fnName(fn))
		nodeID := ssa.Value(fn.Params[1])
		keyP := ssa.Value(fn.Params[2])
		isEndpointOfKey := func(v ssa.Value) bool {
			v = strip(v)
			if ex, ok := v.(*ssa.Extract); ok && ex.Index == 0 {
				v = ex.Tuple
			}
			cl, ok := v.(*ssa.Call)
			if !ok {
				return false
			}
			n := commonName(&cl.Call)
			if n != "strings.CutPrefix" && n != "strings.TrimPrefix" {
				return false
			}
			s, ok := constString(cl.Call.Args[1])
			return ok && s == "endpoint:" && strip(cl.Call.Args[0]) == keyP
		}
		isTarget := func(i ssa.Instruction) bool {
			cl, ok := i.(*ssa.Call)
			if !ok || commonName(&cl.Call) != stateCall(sp.mutator) {
				return false
			}
			if strip(cl.Call.Args[1]) != nodeID || !isEndpointOfKey(cl.Call.Args[2]) {
				return false
			}
			if sp.mutator == "UpdateRemoteEndpoint" {
				ex, ok := cl.Call.Args[3].(*ssa.Extract)
				if !ok || ex.Index != 0 {
					return false
				}
				at, ok := ex.Tuple.(*ssa.Call)
				return ok && commonName(&at.Call) == "strconv.Atoi" && len(fn.Params) > 3 && strip(at.Call.Args[0]) == ssa.Value(fn.Params[3])
			}
			return true
		}
		var target *ssa.Call
		allInstrs(fn, func(i ssa.Instruction) {
			if isTarget(i) {
				target = i.(*ssa.Call)
			}
		})
		key := fnName(fn) + "/" + sp.mutator
		if target == nil {
			c.fail("C04.R3", key, fn.Pos(), sp.method+" does not call State."+sp.mutator+"(nodeID, <key without the endpoint: prefix>, <Atoi(value)>)")
			continue
		}
		// a path may skip the table update only with an allowed fact, or (upsert)
		// when it goes on to the pending arm having seen a non-endpoint key
		paths, complete := enumPathsAt(fn.Blocks[0], 0, isTarget, nil, func(pa *fpath) bool { return len(pa.seen) > 0 }, 400)
		bad := ""
		for _, pa := range paths {
			if len(pa.seen) > 0 || pa.endWhy != "return" {
				continue
			}
			ok := false
			for _, f := range pa.facts {
				if skipFactAllowed(f, fn) != "" {
					ok = true
				}
			}
			if !ok {
				bad = "a path returns at " + p.pos(pa.end.Pos()) + " without applying the key change to the routing table and without an allowed reason (local id, non-endpoint key, unparsable count); path facts " + factStrings(pa.facts)
			}
		}
		c.check(complete && bad == "", "C04.R3", key, target.Pos(), "reached on every path that carries an endpoint key of a remote node", bad)
		// pending arm after a false result: the pending node's Endpoints are updated
		paths2, _ := enumPaths(target, func(i ssa.Instruction) bool {
			switch x := i.(type) {
			case *ssa.MapUpdate:
				_, ok := loadedField(x.Map, a.nEndpts)
				return ok && isEndpointOfKey(x.Key)
			case *ssa.Call:
				if b, ok := x.Call.Value.(*ssa.Builtin); ok && b.Name() == "delete" {
					_, ok := loadedField(x.Call.Args[0], a.nEndpts)
					return ok && isEndpointOfKey(x.Call.Args[1])
				}
			}
			return false
		}, nil, func(pa *fpath) bool { return len(pa.seen) > 0 }, 400)
		bad = ""
		for _, pa := range paths2 {
			if len(pa.seen) > 0 {
				continue
			}
			updated := anyFact(pa.facts, func(f Fact) bool { return f.V == ssa.Value(target) && f.T })
			unknown := anyFact(pa.facts, func(f Fact) bool {
				ex, ok := f.V.(*ssa.Extract)
				if !ok || ex.Index != 1 || f.T {
					return false
				}
				lk, ok := ex.Tuple.(*ssa.Lookup)
				if !ok {
					return false
				}
				_, ok = loadedField(lk.X, pending)
				return ok
			})
			nilMap := anyFact(pa.facts, func(f Fact) bool {
				return cmpFact(f, token.EQL, func(v ssa.Value) bool { _, ok := loadedField(v, a.nEndpts); return ok }, isNilConst)
			})
			atoiErr := false
			for _, f := range pa.facts {
				if skipFactAllowed(f, fn) != "" {
					atoiErr = true // nothing endpoint-related to apply on this path
				}
			}
			if !updated && !unknown && !nilMap && !atoiErr {
				bad = "when the node is still pending a path ends at " + p.pos(pa.end.Pos()) + " without applying the endpoint change to the pending node; facts " + factStrings(pa.facts)
			}
		}
		c.check(bad == "", "C04.R3", key+"/pending-arm", target.Pos(), "a pending node's endpoints are updated instead", bad)
	}
	// ---- R4 promotion ----
	addNode := stateCall("AddNode")
	found := 0
	for _, fn := range methodsOf(p, sgPkg, "syncer") {
		for _, call := range findCalls(fn, addNode) {
			found++
			fs := computeFacts(fn)
			cl := call.(*ssa.Call)
			node := cl.Call.Args[1]
			facts := fs.At(cl.Block())
			nonEmpty := func(fv *types.Var) bool {
				return anyFact(facts, func(f Fact) bool {
					return cmpFact(f, token.NEQ, func(v ssa.Value) bool { b, ok := loadedField(v, fv); return ok && strip(b) == strip(node) },
						func(v ssa.Value) bool { s, ok := constString(v); return ok && s == "" })
				})
			}
			c.check(nonEmpty(a.nProxy) && nonEmpty(a.nAdmin), "C04.R4", fnName(fn)+"/promotion-guard", cl.Pos(),
				"a node enters the routing table only when both its proxy and admin address are known",
				"a pending node can be promoted without both addresses; facts "+factStrings(facts))
			// delete(pendingNodes, ·) precedes in the same block or dominates
			delOK := false
			allInstrs(fn, func(i ssa.Instruction) {
				if d, ok := i.(*ssa.Call); ok {
					if b, ok := d.Call.Value.(*ssa.Builtin); ok && b.Name() == "delete" {
						if _, ok := loadedField(d.Call.Args[0], pending); ok && dominatesInstr(d, cl) {
							if bb, ok := loadedField(d.Call.Args[1], a.nID); (ok && strip(bb) == strip(node)) || strip(d.Call.Args[1]) == ssa.Value(fn.Params[1]) {
								delOK = true
							}
						}
					}
				}
			})
			c.check(delOK, "C04.R4", fnName(fn)+"/promotion-unpends", cl.Pos(), "removed from pending before being added to the table", "a promoted node stays in pendingNodes: later events are applied to the stale pending copy")
			// status stores on the promoted node: only Active, only under Status == ""
			allInstrs(fn, func(i ssa.Instruction) {
				st, ok := i.(*ssa.Store)
				if !ok {
					return
				}
				b, ok := addrOfField(st.Addr, a.nStatus)
				if !ok || strip(b) != strip(node) || !dominatesInstr(st, cl) && !canReach(st, cl, nil) {
					return
				}
				sf := fs.At(st.Block())
				unset := anyFact(sf, func(f Fact) bool {
					return cmpFact(f, token.EQL, func(v ssa.Value) bool { bb, ok := loadedField(v, a.nStatus); return ok && strip(bb) == strip(node) },
						func(v ssa.Value) bool { s, ok := constString(v); return ok && s == "" })
				})
				s, isC := constString(st.Val)
				c.check(unset && isC && s == a.statusConst["NodeStatusActive"], "C04.R4", fnName(fn)+"/promotion-status", st.Pos(),
					"status defaults to active only when none was recorded while pending",
					"promotion overwrites a status recorded while the node was pending (an unreachable or left node becomes routable); facts "+factStrings(sf))
			})
		}
	}
	if found == 0 {
		c.fail("C04.R4", "promotion/AddNode", token.NoPos, "no call to State.AddNode in the syncer")
	}
}

// ---- R6: remote mutators refuse the local id ----

func c04R6(c *Ctx) {
	p := c.P
	a := newClusterAnchors(c)
	if a == nil {
		return
	}
	c.floor("C04.R6", 5)
	var isLocalNode func(v ssa.Value) bool
	isLocalNode = func(v ssa.Value) bool {
		v = strip(v)
		if ex, ok := v.(*ssa.Extract); ok && ex.Index == 0 {
			v = ex.Tuple
		}
		// an accessor helper all of whose returns are nodes[localID]
		if cl, ok := v.(*ssa.Call); ok {
			sc := cl.Call.StaticCallee()
			if sc == nil || !inModule(sc) || sc.Blocks == nil || len(sc.Params) != 1 {
				return false
			}
			rets := returnsOf(sc)
			if len(rets) == 0 {
				return false
			}
			for _, r := range rets {
				rv := returnValues(r)
				if len(rv) != 1 || !isLocalNode(rv[0]) {
					return false
				}
			}
			return true
		}
		lk, ok := v.(*ssa.Lookup)
		if !ok {
			return false
		}
		if _, ok := loadedField(lk.X, a.nodesF); !ok {
			return false
		}
		_, ok = loadedField(lk.Index, a.localIDF)
		return ok
	}
	for _, fn := range methodsOf(p, clPkg, "State") {
		fs := computeFacts(fn)
		allInstrs(fn, func(i ssa.Instruction) {
			var node, keyV ssa.Value
			what := ""
			switch x := i.(type) {
			case *ssa.Store:
				if b, ok := addrOfField(x.Addr, a.nStatus); ok {
					node, what = b, "Status store"
				} else if b, ok := addrOfField(x.Addr, a.nEndpts); ok {
					node, what = b, "Endpoints map store"
				}
			case *ssa.MapUpdate:
				if b, ok := loadedField(x.Map, a.nEndpts); ok {
					node, what = b, "Endpoints update"
				} else if _, ok := loadedField(x.Map, a.nodesF); ok {
					keyV, what = x.Key, "nodes insert"
				}
			case *ssa.Call:
				if b, ok := x.Call.Value.(*ssa.Builtin); ok && b.Name() == "delete" {
					if bb, ok := loadedField(x.Call.Args[0], a.nEndpts); ok {
						node, what = bb, "Endpoints delete"
					} else if _, ok := loadedField(x.Call.Args[0], a.nodesF); ok {
						keyV, what = x.Call.Args[1], "nodes delete"
					}
				}
			}
			if what == "" {
				return
			}
			key := fnName(fn) + "/" + what
			if node != nil && isLocalNode(node) {
				c.ok("C04.R6", key, i.Pos(), "write to the local node by a local mutator")
				return
			}
			facts := fs.At(i.Block())
			// inherit the caller's facts for *Locked helpers
			facts = append(facts, callerFacts(p, fn)...)
			notLocal := anyFact(facts, func(f Fact) bool {
				return cmpFact(f, token.NEQ, func(v ssa.Value) bool {
					v = strip(v)
					if _, ok := v.(*ssa.Parameter); ok {
						return true
					}
					_, ok := loadedField(v, a.nID)
					return ok
				}, func(v ssa.Value) bool { _, ok := loadedField(v, a.localIDF); return ok })
			})
			_ = keyV
			c.check(notLocal, "C04.R6", key, i.Pos(), "guarded by id != localID", "a remote mutator can modify the local node's entry in the routing table; facts "+factStrings(facts))
		})
	}
}

// c04Effects: a remote mutator that reports success has performed its write.
func c04Effects(c *Ctx) {
	p := c.P
	a := newClusterAnchors(c)
	if a == nil {
		return
	}
	c.floor("C04.R10", 5)
	type spec struct {
		fn   string
		what string
		is   func(fn *ssa.Function, i ssa.Instruction) bool
	}
	param := func(fn *ssa.Function, name string) ssa.Value {
		for _, pp := range fn.Params {
			if pp.Name() == name {
				return pp
			}
		}
		return nil
	}
	specs := []spec{
		{"State.UpdateRemoteStatus", "n.Status = status", func(fn *ssa.Function, i ssa.Instruction) bool {
			st, ok := i.(*ssa.Store)
			if !ok {
				return false
			}
			_, ok = addrOfField(st.Addr, a.nStatus)
			return ok && strip(st.Val) == param(fn, "status")
		}},
		{"State.RemoveNode", "delete(nodes, id)", func(fn *ssa.Function, i ssa.Instruction) bool {
			cl, ok := i.(*ssa.Call)
			if !ok {
				return false
			}
			b, ok := cl.Call.Value.(*ssa.Builtin)
			if !ok || b.Name() != "delete" {
				return false
			}
			_, ok = loadedField(cl.Call.Args[0], a.nodesF)
			return ok && strip(cl.Call.Args[1]) == param(fn, "id")
		}},
		{"State.UpdateRemoteEndpoint", "Endpoints[endpointID] = listeners", func(fn *ssa.Function, i ssa.Instruction) bool {
			mu, ok := i.(*ssa.MapUpdate)
			if !ok {
				return false
			}
			_, ok = loadedField(mu.Map, a.nEndpts)
			return ok && strip(mu.Key) == param(fn, "endpointID") && strip(mu.Value) == param(fn, "listeners")
		}},
		{"State.RemoveRemoteEndpoint", "delete(Endpoints, endpointID)", func(fn *ssa.Function, i ssa.Instruction) bool {
			cl, ok := i.(*ssa.Call)
			if !ok {
				return false
			}
			b, ok := cl.Call.Value.(*ssa.Builtin)
			if !ok || b.Name() != "delete" {
				return false
			}
			_, ok = loadedField(cl.Call.Args[0], a.nEndpts)
			return ok && strip(cl.Call.Args[1]) == param(fn, "endpointID")
		}},
	}
	nilMapExcuse := func(f Fact) bool {
		return cmpFact(f, token.EQL, func(v ssa.Value) bool { _, ok := loadedField(v, a.nEndpts); return ok }, isNilConst)
	}
	for _, sp := range specs {
		top := p.Func(clPkg, sp.fn)
		if top == nil {
			c.fail("C04.R10", "anchor/"+sp.fn, token.NoPos, "mutator not found")
			continue
		}
		c.analysed(fnName(top))
		nWrites := 0
		// successOK: every `true` that fn can report was preceded by the write, in fn itself or in a helper of the
		// same receiver whose own `true` means written and whose result fn has tested.
		var successOK func(fn *ssa.Function, depth int) (bool, string, int)
		successOK = func(fn *ssa.Function, depth int) (bool, string, int) {
			fs := computeFacts(fn)
			var writes []ssa.Instruction
			allInstrs(fn, func(i ssa.Instruction) {
				if sp.is(fn, i) {
					writes = append(writes, i)
				}
			})
			nWrites += len(writes)
			type hcall struct {
				call *ssa.Call
				ok   bool
			}
			var helpers []hcall
			if depth < 2 {
				allInstrs(fn, func(i ssa.Instruction) {
					cl, ok := i.(*ssa.Call)
					if !ok || cl.Call.IsInvoke() {
						return
					}
					sc := cl.Call.StaticCallee()
					if sc == nil || sc == fn || sc.Signature.Recv() == nil || fn.Signature.Recv() == nil || !types.Identical(sc.Signature.Recv().Type(), fn.Signature.Recv().Type()) {
						return
					}
					res := sc.Signature.Results()
					if res.Len() != 1 || !types.Identical(res.At(0).Type(), types.Typ[types.Bool]) {
						return
					}
					good, _, _ := successOK(sc, depth+1)
					helpers = append(helpers, hcall{cl, good})
				})
			}
			nTrue := 0
			for _, r := range returnsOf(fn) {
				rv := returnValues(r)
				if len(rv) == 0 {
					continue
				}
				facts := fs.At(r.Block())
				b, isK := constBool(rv[0])
				if !isK {
					tied := false
					for _, h := range helpers {
						if strip(rv[0]) == ssa.Value(h.call) && h.ok {
							tied = true
						}
					}
					if !tied {
						return false, "returns a value at " + p.pos(r.Pos()) + " that is not the result of a helper whose success means written", nTrue
					}
					nTrue++
					continue
				}
				helperSaid := func(want bool) bool {
					for _, h := range helpers {
						if h.ok && anyFact(facts, func(f Fact) bool { return f.V == ssa.Value(h.call) && f.T == want }) {
							return true
						}
					}
					return false
				}
				if !b {
					if helperSaid(true) {
						return false, "reports failure at " + p.pos(r.Pos()) + " although its helper reported that the table was updated", nTrue
					}
					continue
				}
				nTrue++
				if helperSaid(false) {
					return false, "reports success at " + p.pos(r.Pos()) + " although its helper reported that nothing was updated", nTrue
				}
				if helperSaid(true) {
					continue
				}
				if len(writes) == 0 || reachSkipping(fn, fs, r, writes, nilMapExcuse) {
					return false, "success is reported at " + p.pos(r.Pos()) + " on a path that did not perform `" + sp.what + "`", nTrue
				}
			}
			return true, "", nTrue
		}
		good, bad, nTrue := successOK(top, 0)
		if good && nWrites == 0 {
			good, bad = false, "the write `"+sp.what+"` is missing"
		}
		if good && nTrue == 0 {
			good, bad = false, "the mutator never reports success"
		}
		c.check(good, "C04.R10", fnName(top)+"/success-means-written", top.Pos(), "`"+sp.what+"` happens on every path that reports success (in the mutator or the locked helper it tests)", bad+": the syncer believes the routing table followed gossip while it did not, or applies the change to the wrong place")
	}
	// lookups and sweeps over the routing table visit every node
	loopsComplete(c, "C04.R11", methodsOf(p, clPkg, "State"), 3)
	// AddNode stores the node under its id on the non-local path
	if fn := p.Func(clPkg, "State.AddNode"); fn != nil {
		stored := false
		allInstrs(fn, func(i ssa.Instruction) {
			if mu, ok := i.(*ssa.MapUpdate); ok {
				if _, ok := loadedField(mu.Map, a.nodesF); ok {
					if b, ok := loadedField(mu.Key, a.nID); ok && strip(b) == strip(mu.Value) {
						stored = true
					}
				}
			}
		})
		c.check(stored, "C04.R10", fnName(fn)+"/stores-under-own-id", fn.Pos(), "nodes[node.ID] = node", "AddNode does not store the node under its own id")
	}
}

// reachSkipping: can the return be reached from the entry without executing
// one of the writes and without taking an edge on which `excuse` holds?
func reachSkipping(fn *ssa.Function, fs *Facts, r *ssa.Return, writes []ssa.Instruction, excuse func(Fact) bool) bool {
	blocked := map[*ssa.BasicBlock]bool{}
	for _, w := range writes {
		blocked[w.Block()] = true
	}
	seen := map[*ssa.BasicBlock]bool{}
	var rec func(b *ssa.BasicBlock) bool
	rec = func(b *ssa.BasicBlock) bool {
		if seen[b] || blocked[b] {
			return false
		}
		seen[b] = true
		if b == r.Block() {
			return true
		}
		for _, s := range b.Succs {
			if f, ok := edgeFact(b, s); ok && excuse(f) {
				continue
			}
			if rec(s) {
				return true
			}
		}
		return false
	}
	return rec(fn.Blocks[0])
}

// callerFacts: for an unexported helper with static callers, the facts that
// hold at every call site (intersection), as strings are not comparable the
// facts of a single caller are returned only when there is exactly one caller.
func callerFacts(p *Prog, fn *ssa.Function) []Fact {
	if fn.Object() == nil || fn.Object().Exported() {
		return nil
	}
	var sites []ssa.Instruction
	for _, f := range p.ModFuncs {
		if isTestFile(p.Fset, f.Pos()) {
			continue
		}
		for _, in := range findCalls(f, commonNameOfFn(fn)) {
			sites = append(sites, in)
		}
	}
	if len(sites) != 1 {
		return nil
	}
	return computeFacts(sites[0].Parent()).At(sites[0].Block())
}

// c04PendingRules (C04.R12): a node first heard of becomes a pending node, and
// a pending node records the addresses it is told, so that it can be promoted.
func c04PendingRules(c *Ctx) {
	p := c.P
	a := newClusterAnchors(c)
	if a == nil {
		return
	}
	c.floor("C04.R12", 5)
	pending := p.Field(sgPkg, "syncer", "pendingNodes")
	if pending == nil {
		c.fail("C04.anchor", "syncer.pendingNodes", token.NoPos, "not found")
		return
	}
	pendingLookup := func(f Fact, nodeID ssa.Value) (bool, bool) {
		ex, ok := f.V.(*ssa.Extract)
		if !ok || ex.Index != 1 {
			return false, false
		}
		lk, ok := ex.Tuple.(*ssa.Lookup)
		if !ok {
			return false, false
		}
		if _, ok := loadedField(lk.X, pending); !ok || strip(lk.Index) != nodeID {
			return false, false
		}
		return true, f.T
	}
	inTable := func(f Fact, nodeID ssa.Value) (bool, bool) {
		ex, ok := f.V.(*ssa.Extract)
		if !ok || ex.Index != 1 {
			return false, false
		}
		cl, ok := ex.Tuple.(*ssa.Call)
		if !ok || commonName(&cl.Call) != stateCall("Node") || strip(cl.Call.Args[1]) != nodeID {
			return false, false
		}
		return true, f.T
	}
	// --- OnJoin ---
	if fn := p.Func(sgPkg, "syncer.OnJoin"); fn != nil {
		c.analysed(fnName(fn))
		nodeID := ssa.Value(fn.Params[1])
		isInsert := func(i ssa.Instruction) bool {
			mu, ok := i.(*ssa.MapUpdate)
			if !ok {
				return false
			}
			if _, ok := loadedField(mu.Map, pending); !ok || strip(mu.Key) != nodeID {
				return false
			}
			al, ok := strip(mu.Value).(*ssa.Alloc)
			if !ok {
				return false
			}
			idOK := false
			for _, fsx := range fieldStores(al) {
				if fsx.f == a.nID && strip(fsx.st.Val) == nodeID {
					idOK = true
				}
			}
			return idOK
		}
		paths, complete := enumPathsAt(fn.Blocks[0], 0, isInsert, nil, nil, 400)
		bad := ""
		if !complete {
			bad = "too many paths"
		}
		nIns := 0
		for _, pa := range paths {
			if pa.endWhy != "return" {
				continue
			}
			if len(pa.seen) > 0 {
				nIns++
				// inserted only for an unknown, remote node
				for _, f := range pa.facts {
					if skipFactAllowed(f, fn) == "local id" {
						bad = "the local node is made pending"
					}
					if is, t := inTable(f, nodeID); is && t {
						bad = "a node already in the routing table is made pending again"
					}
					if is, t := pendingLookup(f, nodeID); is && t {
						bad = "a pending node is replaced by an empty one (what was recorded about it is lost)"
					}
				}
				continue
			}
			ok := false
			for _, f := range pa.facts {
				if skipFactAllowed(f, fn) == "local id" {
					ok = true
				}
				if is, t := inTable(f, nodeID); is && t {
					ok = true
				}
				if is, t := pendingLookup(f, nodeID); is && t {
					ok = true
				}
			}
			if !ok {
				bad = "a path returns at " + p.pos(pa.end.Pos()) + " without recording the joined node as pending and without a reason (local id, already in the table, already pending); facts " + factStrings(pa.facts)
			}
		}
		c.check(bad == "" && nIns > 0, "C04.R12", fnName(fn)+"/join-makes-pending", fn.Pos(), "pendingNodes[nodeID] = &Node{ID: nodeID} exactly for unknown remote nodes", "a newly discovered node is not tracked: its addresses and endpoints are dropped as 'unknown node' and it never enters the routing table: "+bad)
	} else {
		c.fail("C04.anchor", "syncer.OnJoin", token.NoPos, "not found")
	}
	// --- OnUpsertKey: address keys ---
	if fn := p.Func(sgPkg, "syncer.OnUpsertKey"); fn != nil {
		c.analysed(fnName(fn))
		fs := computeFacts(fn)
		nodeID, keyP, valP := ssa.Value(fn.Params[1]), ssa.Value(fn.Params[2]), ssa.Value(fn.Params[3])
		keyIs := func(f Fact, k string) bool {
			return cmpFact(f, token.EQL, func(v ssa.Value) bool { return strip(v) == keyP }, func(v ssa.Value) bool { s, ok := constString(v); return ok && s == k })
		}
		for _, sp := range []struct {
			key string
			f   *types.Var
		}{{"proxy_addr", a.nProxy}, {"admin_addr", a.nAdmin}} {
			var stores []ssa.Instruction
			allInstrs(fn, func(i ssa.Instruction) {
				st, ok := i.(*ssa.Store)
				if !ok {
					return
				}
				base, ok := addrOfField(st.Addr, sp.f)
				if !ok || strip(st.Val) != valP {
					return
				}
				// the node written is pendingNodes[nodeID]
				ex, ok := strip(base).(*ssa.Extract)
				if !ok {
					return
				}
				lk, ok := ex.Tuple.(*ssa.Lookup)
				if !ok {
					return
				}
				if _, ok := loadedField(lk.X, pending); !ok || strip(lk.Index) != nodeID {
					return
				}
				if anyFact(fs.At(st.Block()), func(f Fact) bool { return keyIs(f, sp.key) }) {
					stores = append(stores, i)
				}
			})
			isStore := func(i ssa.Instruction) bool {
				for _, s := range stores {
					if s == i {
						return true
					}
				}
				return false
			}
			bad := ""
			if len(stores) == 0 {
				bad = "no `pending." + sp.f.Name() + " = value` under key == \"" + sp.key + "\""
			} else {
				paths, complete := enumPathsAt(fn.Blocks[0], 0, isStore, nil, nil, 3000)
				if !complete {
					bad = "too many paths"
				}
				for _, pa := range paths {
					if pa.endWhy != "return" || len(pa.seen) > 0 || infeasible(pa.facts) {
						continue
					}
					if !anyFact(pa.facts, func(f Fact) bool { return keyIs(f, sp.key) }) {
						continue
					}
					// key == "proxy_addr" together with HasPrefix(key, "endpoint:") cannot happen
					if anyFact(pa.facts, func(f Fact) bool {
						v := f.V
						if ex, ok := v.(*ssa.Extract); ok && ex.Index == 1 {
							v = ex.Tuple
						}
						cl, ok := v.(*ssa.Call)
						if !ok || !f.T || (commonName(&cl.Call) != "strings.HasPrefix" && commonName(&cl.Call) != "strings.CutPrefix") || strip(cl.Call.Args[0]) != keyP {
							return false
						}
						pre, ok := constString(cl.Call.Args[1])
						return ok && !strings.HasPrefix(sp.key, pre)
					}) {
						continue
					}
					ok := false
					for _, f := range pa.facts {
						if skipFactAllowed(f, fn) == "local id" {
							ok = true
						}
						if is, t := inTable(f, nodeID); is && t {
							ok = true // immutable once in the table
						}
						if is, t := pendingLookup(f, nodeID); is && !t {
							ok = true // unknown node
						}
					}
					if !ok {
						bad = "a path carrying key == \"" + sp.key + "\" returns at " + p.pos(pa.end.Pos()) + " without recording the address on the pending node and without a reason (local id, node already in the table, unknown node); facts " + factStrings(pa.facts)
					}
				}
			}
			c.check(bad == "", "C04.R12", fnName(fn)+"/pending-records-"+sp.key, fn.Pos(), "pendingNodes[nodeID]."+sp.f.Name()+" = value on every path that carries the key for a pending node", "a pending node never learns its "+sp.key+" and is never promoted into the routing table: "+bad)
		}
	} else {
		c.fail("C04.anchor", "syncer.OnUpsertKey", token.NoPos, "not found")
	}
	// the syncer is attached to the gossiper it was handed to as watcher: without Sync the local node's
	// addresses and endpoints are never published
	if ng := p.Func(sgPkg, "NewGossip"); ng != nil {
		c.analysed(fnName(ng))
		var gnew *ssa.Call
		allInstrs(ng, func(i ssa.Instruction) {
			if cl, ok := i.(*ssa.Call); ok && commonName(&cl.Call) == modPath+"/pkg/gossip.New" {
				gnew = cl
			}
		})
		isSync := func(i ssa.Instruction) bool {
			cl, ok := i.(*ssa.Call)
			if !ok || !strings.HasSuffix(commonName(&cl.Call), "server/gossip.syncer).Sync") {
				return false
			}
			a := strip(cl.Call.Args[1])
			if mi, ok := a.(*ssa.MakeInterface); ok {
				a = strip(mi.X)
			}
			return gnew != nil && a == ssa.Value(gnew)
		}
		c.check(gnew != nil && everyPathFrom(gnew, isSync, nil, true) == nil, "C04.R12", fnName(ng)+"/syncer-attached", ng.Pos(), "syncer.Sync(gossiper) follows gossip.New on every path", "the syncer is never attached to the gossiper: the node publishes neither its addresses nor its endpoints, so no other node can route to it")
	} else {
		c.fail("C04.anchor", "server/gossip.NewGossip", token.NoPos, "not found")
	}
	// a pending node's endpoint map is allocated only where it is nil
	for _, fn := range methodsOf(p, sgPkg, "syncer") {
		fsx := computeFacts(fn)
		allInstrs(fn, func(i ssa.Instruction) {
			st, ok := i.(*ssa.Store)
			if !ok {
				return
			}
			if _, ok := addrOfField(st.Addr, a.nEndpts); !ok {
				return
			}
			if _, fresh := strip(st.Val).(*ssa.MakeMap); !fresh {
				return
			}
			isNil := anyFact(fsx.At(st.Block()), func(f Fact) bool {
				return cmpFact(f, token.EQL, func(v ssa.Value) bool { _, ok := loadedField(v, a.nEndpts); return ok }, isNilConst)
			})
			c.check(isNil, "C04.R12", fnName(fn)+"/allocates-endpoints-only-when-nil", st.Pos(), "Endpoints = make(...) only under Endpoints == nil",
				"a pending node's endpoint map is replaced by an empty one although it may hold endpoints (guard missing or inverted); facts "+factStrings(fsx.At(st.Block())))
		})
	}
}
