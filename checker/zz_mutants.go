package main

// Break mutants added with the rules of the second build round (generic
// mutation sweep, second set of seeded changes). Each is applied in memory by
// the thorough tier's sensitivity audit; none is ever written to /repo.
func init() {
	add := func(id string, ms ...mutant) {
		if pd := props[id]; pd != nil {
			pd.mutants = append(pd.mutants, ms...)
		}
	}
	const (
		gstate = "pkg/gossip/state.go"
		glist  = "pkg/gossip/listener.go"
		ggo    = "pkg/gossip/gossip.go"
		gprot  = "pkg/gossip/protocol.go"
		gfd    = "pkg/gossip/failuredetector.go"
		cstate = "server/cluster/state.go"
		sync   = "server/gossip/syncer.go"
		tcpp   = "server/proxy/tcpproxy.go"
		httpp  = "server/proxy/httpproxy.go"
		wsc    = "pkg/websocket/conn.go"
		upsrv  = "server/upstream/server.go"
		upmgr  = "server/upstream/manager.go"
	)
	const (
		agtcp = "agent/tcpproxy/server.go"
		jwtv  = "pkg/auth/jwtverifier.go"
		cnode = "server/cluster/node.go"
		upup  = "server/upstream/upstream.go"
		clup  = "client/upstream.go"
		sggo  = "server/gossip/gossip.go"
	)
	// round 4
	add("C03",
		mutant{Name: "digest sorted by version before it is truncated", File: gstate, Old: "\t\t\tLeft:    state.Left,\n\t\t})\n\t}\n\treturn digest\n}", New: "\t\t\tLeft:    state.Left,\n\t\t})\n\t}\n\tsort.Slice(digest, func(i, j int) bool { return digest[i].Version < digest[j].Version })\n\treturn digest\n}", Rule: "C03.R9"},
	)
	add("C04",
		mutant{Name: "syncer never attached to the gossiper", File: sggo, Old: "\tsyncer.Sync(gossiper)\n", New: "", Rule: "C04.R12"},
	)
	add("C07",
		mutant{Name: "agent resets the service connection on close (SO_LINGER 0)", File: agtcp, Old: "\tdefer upstream.Close()\n\n\ts.forward(c, upstream)", New: "\tdefer upstream.Close()\n\tif tc, ok := upstream.(*net.TCPConn); ok {\n\t\t_ = tc.SetLinger(0)\n\t}\n\n\ts.forward(c, upstream)", Rule: "C07.R4"},
		mutant{Name: "agent accepts the stream but never splices it", File: agtcp, Old: "\ts.forward(c, upstream)\n", New: "\t_ = upstream\n", Rule: "C07.R7"},
	)
	add("C08",
		mutant{Name: "node dial through tls.Client without a server name", File: upup, Old: "\t\treturn tls.Dial(\"tcp\", u.node.ProxyAddr, u.tlsConfig)", New: "\t\tconn, err := net.Dial(\"tcp\", u.node.ProxyAddr)\n\t\tif err != nil {\n\t\t\treturn nil, err\n\t\t}\n\t\treturn tls.Client(conn, u.tlsConfig), nil", Rule: "C08.R6"},
	)
	add("C09",
		mutant{Name: "clock-skew leeway also accepts expired tokens", File: jwtv, Old: "\t\tjwt.WithValidMethods(v.methods),\n\t}", New: "\t\tjwt.WithValidMethods(v.methods),\n\t\tjwt.WithLeeway(30 * time.Second),\n\t}", Rule: "C09.R3"},
	)
	add("C11",
		mutant{Name: "datagram digests answered with the full-digest delta", File: glist, Old: "\tdelta := l.state.Delta(digest, false)\n", New: "\tdelta := l.state.Delta(digest, true)\n", Rule: "C11.R11"},
		mutant{Name: "Delta reads its flag the wrong way round", File: gstate, Old: "\tif fullDigest {\n\t\tfor id := range s.nodes {", New: "\tif !fullDigest {\n\t\tfor id := range s.nodes {", Rule: "C11.R12"},
		mutant{Name: "Delta pushes unnamed nodes unconditionally", File: gstate, Old: "\tif fullDigest {\n\t\tfor id := range s.nodes {", New: "\tif fullDigest || len(digest) > 0 {\n\t\tfor id := range s.nodes {", Rule: "C11.R12"},
		mutant{Name: "benign: flag tested by early return", Benign: true, File: gstate, Old: "\tif fullDigest {\n\t\tfor id := range s.nodes {", New: "\tif !fullDigest {\n\t\treturn delta\n\t}\n\t{\n\t\tfor id := range s.nodes {"},
	)
	add("C12",
		mutant{Name: "idle windows swept on report", File: gfd, Old: "\twindow, ok := d.windows[nodeID]\n\tif !ok {\n\t\twindow = newArrivalWindow(d.bootstrapInterval, d.sampleSize)\n\t\td.windows[nodeID] = window\n\t}\n\twindow.Add(timestamp)", New: "\tfor id, w := range d.windows {\n\t\tif id != nodeID && timestamp.Sub(w.lastTimestamp) > d.bootstrapInterval*time.Duration(d.sampleSize) {\n\t\t\tdelete(d.windows, id)\n\t\t}\n\t}\n\twindow, ok := d.windows[nodeID]\n\tif !ok {\n\t\twindow = newArrivalWindow(d.bootstrapInterval, d.sampleSize)\n\t\td.windows[nodeID] = window\n\t}\n\twindow.Add(timestamp)", Rule: "C12.R5"},
	)
	add("C03",
		mutant{Name: "datagram loop drops reads that fill the buffer", File: glist, Old: "\t\tbuf := l.readBuf[:n]\n", New: "\t\tif n >= len(l.readBuf) {\n\t\t\tcontinue\n\t\t}\n\t\tbuf := l.readBuf[:n]\n", Rule: "C03.R10"},
	)
	add("C05",
		mutant{Name: "Sync subscribes after the snapshot", File: sync, Old: "\ts.clusterState.OnLocalEndpointUpdate(s.onLocalEndpointUpdate)\n\n\tlocalNode := s.clusterState.LocalNode()\n", New: "\tlocalNode := s.clusterState.LocalNode()\n\ts.clusterState.OnLocalEndpointUpdate(s.onLocalEndpointUpdate)\n", Rule: "C05.R3"},
	)
	add("C16",
		mutant{Name: "JWKS arm of the constructor forgets the disconnect flag", File: jwtv, Old: "func NewJWTVerifier(conf *LoadedConfig) *JWTVerifier {\n", New: "func NewJWTVerifier(conf *LoadedConfig) *JWTVerifier {\n\tif conf.JWKS != nil {\n\t\treturn &JWTVerifier{keyFunc: conf.JWKS.KeyFunc, audience: conf.Audience, issuer: conf.Issuer}\n\t}\n", Rule: "C16.R8"},
	)
	add("C18",
		mutant{Name: "client switches yamux keep-alives off", File: "client/upstream.go", Old: "\t\t\tmuxConfig.Logger = nil\n", New: "\t\t\tmuxConfig.EnableKeepAlive = false\n\t\t\tmuxConfig.Logger = nil\n", Rule: "C18.R10"},
	)
	add("C19",
		mutant{Name: "AvgConns leaves idle active nodes out of the divisor", File: cstate, Old: "\t\tfor _, conns := range node.Endpoints {\n\t\t\ttotalConns += conns", New: "\t\tif len(node.Endpoints) == 0 {\n\t\t\tcontinue\n\t\t}\n\t\tfor _, conns := range node.Endpoints {\n\t\t\ttotalConns += conns", Rule: "C19.R3"},
	)
	add("C02",
		mutant{Name: "compaction version parsed as 32 bits", File: gstate, Old: "compactVersion, err := strconv.ParseUint(e.Value, 10, 64)", New: "compactVersion, err := strconv.ParseUint(e.Value, 10, 32)", Rule: "C02.R8"},
	)
	add("C14",
		mutant{Name: "zero-copy decoding of datagrams", File: gprot, Old: "func newDecoder(reader io.Reader) *decoder {\n\tvar handle codec.MsgpackHandle\n", New: "func newDecoder(reader io.Reader) *decoder {\n\tvar handle codec.MsgpackHandle\n\thandle.ZeroCopy = true\n", Rule: "C14.R2"},
	)
	add("C15",
		mutant{Name: "client-chosen endpoint id used as a metrics label", File: upmgr, Old: "\t\tm.metrics.UpstreamRequestsTotal.Inc()\n", New: "\t\tm.metrics.RemoteRequestsTotal.With(prometheus.Labels{\"node_id\": endpointID}).Inc()\n", Rule: "C15.R4"},
	)
	add("C18",
		mutant{Name: "connect loop gives up on retryable errors", File: clup, Old: "\t\tif !errors.As(err, &retryableError) {", New: "\t\tif errors.As(err, &retryableError) {", Rule: "C18.R8"},
	)
	add("C20",
		mutant{Name: "Node.Copy shares the live endpoint map", File: cnode, Old: "\treturn &Node{\n\t\tID:        n.ID,\n\t\tStatus:    n.Status,\n\t\tProxyAddr: n.ProxyAddr,\n\t\tAdminAddr: n.AdminAddr,\n\t\tEndpoints: endpoints,\n\t}", New: "\t_ = endpoints\n\tcp := *n\n\treturn &cp", Rule: "C20.L3"},
	)
	add("C01",
		mutant{Name: "TCP route recognises a remote node and returns without forwarding", File: tcpp, Old: "\t\tp.httpProxy.ServeHTTPWithUpstream(w, r, endpointID, u)\n", New: "", Rule: "C01.R7"},
	)
	add("C02",
		mutant{Name: "applied version not advanced when an entry is stored", File: gstate, Old: "\t\tstate.Entries[e.Key] = e\n\t\tstate.Version = e.Version\n", New: "\t\tstate.Entries[e.Key] = e\n", Rule: "C02.R7"},
		mutant{Name: "observer compaction keeps the entry written at the compaction version", File: gstate, Old: "\t\t\t\t\tif e.Version <= compactVersion {", New: "\t\t\t\t\tif e.Version < compactVersion {", Rule: "C02.R8"},
		mutant{Name: "observer compaction notifies but keeps the entries", File: gstate, Old: "\t\t\t\t\t\tdelete(state.Entries, e.Key)\n", New: "", Rule: "C02.R8"},
		mutant{Name: "known node replaced by an empty one on every delta", File: gstate, Old: "\tstate, ok := s.nodes[entry.ID]\n\tif !ok {\n\t\t// Node IDs are used", New: "\tstate, ok := s.nodes[entry.ID]\n\tif ok {\n\t\t// Node IDs are used", Rule: "C02.R9"},
		mutant{Name: "first stale entry ends the whole delta", File: gstate, Old: "\t\tif e.Version <= state.Version {\n\t\t\tcontinue\n\t\t}", New: "\t\tif e.Version <= state.Version {\n\t\t\tbreak\n\t\t}", Rule: "C02.R6"},
	)
	add("C03",
		mutant{Name: "only empty differences are sent", File: gstate, Old: "\t\tif len(deltaEntry.Entries) > 0 {\n\t\t\tdelta = append(delta, deltaEntry)", New: "\t\tif !(len(deltaEntry.Entries) > 0) {\n\t\t\tdelta = append(delta, deltaEntry)", Rule: "C03.R7"},
		mutant{Name: "scheduler never started", File: ggo, Old: "\tgossip.schedule()\n", New: "", Rule: "C03.R8"},
		mutant{Name: "ticker loop ends after its first run", File: ggo, Old: "\t\t\t\tf()\n\t\t\tcase <-g.shutdownCh:", New: "\t\t\t\tf()\n\t\t\t\treturn\n\t\t\tcase <-g.shutdownCh:", Rule: "C03.R8"},
	)
	add("C04",
		mutant{Name: "UpdateRemoteStatus reports success without storing", File: cstate, Old: "\toldStatus := n.Status\n\tn.Status = status\n", New: "\toldStatus := n.Status\n", Rule: "C04.R10"},
		mutant{Name: "UpdateRemoteEndpoint reports the opposite of its helper", File: cstate, Old: "\tif !s.updateRemoteEndpointLocked(id, endpointID, listeners) {", New: "\tif s.updateRemoteEndpointLocked(id, endpointID, listeners) {", Rule: "C04.R10"},
		mutant{Name: "joined nodes are not tracked as pending", File: sync, Old: "\tif _, ok := s.clusterState.Node(nodeID); ok {\n\t\ts.logger.Warn(\n\t\t\t\"node joined; already in cluster\",", New: "\tif _, ok := s.clusterState.Node(nodeID); !ok {\n\t\ts.logger.Warn(\n\t\t\t\"node joined; already in cluster\",", Rule: "C04.R12"},
		mutant{Name: "pending node never records its proxy address", File: sync, Old: "\t\tnode.ProxyAddr = value\n", New: "\t\t_ = value\n", Rule: "C04.R12"},
		mutant{Name: "lookup stops at the first node that is not active", File: cstate, Old: "\t\tif node.Status != NodeStatusActive {\n\t\t\t// Ignore unreachable and left nodes.\n\t\t\tcontinue\n\t\t}\n\t\tfor _, conns := range node.Endpoints {", New: "\t\tif node.Status != NodeStatusActive {\n\t\t\t// Ignore unreachable and left nodes.\n\t\t\tbreak\n\t\t}\n\t\tfor _, conns := range node.Endpoints {", Rule: "C04.R11"},
	)
	add("C05",
		mutant{Name: "count map re-allocated on every add", File: cstate, Old: "\tif node.Endpoints == nil {\n\t\tnode.Endpoints = make(map[string]int)\n\t}\n\n\tnode.Endpoints[endpointID] = node.Endpoints[endpointID] + 1", New: "\tif node.Endpoints != nil {\n\t\tnode.Endpoints = make(map[string]int)\n\t}\n\n\tnode.Endpoints[endpointID] = node.Endpoints[endpointID] + 1", Rule: "C05.R2c"},
		mutant{Name: "balancer replaced when the endpoint already has one", File: upmgr, Old: "\tif !ok {\n\t\tlb = &loadBalancer{}", New: "\tif ok {\n\t\tlb = &loadBalancer{}", Rule: "C05.R1d"},
		mutant{Name: "Gossip.DeleteLocal does nothing", File: ggo, Old: "\tg.state.DeleteLocal(key)\n", New: "", Rule: "C05.R3b"},
		mutant{Name: "local subscribers are never recorded", File: cstate, Old: "\ts.localEndpointSubscribers = append(s.localEndpointSubscribers, f)\n", New: "", Rule: "C05.R2c"},
	)
	add("C07",
		mutant{Name: "bytes delivered with an error are dropped", File: wsc, Old: "\t\tif n > 0 {\n\t\t\tif err != nil {", New: "\t\tif !(n > 0) {\n\t\t\tif err != nil {", Rule: "C07.R2"},
		mutant{Name: "end of a message reported as end of stream", File: wsc, Old: "\t\t\t\tif err == io.EOF {\n\t\t\t\t\terr = nil", New: "\t\t\t\tif err != io.EOF {\n\t\t\t\t\terr = nil", Rule: "C07.R2"},
		mutant{Name: "exhausted reader kept: Read spins", File: wsc, Old: "\t\t// If we get 0 EOF, read from a new reader.\n\t\tc.reader = nil\n", New: "\t\t// If we get 0 EOF, read from a new reader.\n", Rule: "C07.R2"},
		mutant{Name: "upstream leg leaks when the upgrade fails", File: tcpp, Old: "\tdefer upstreamConn.Close()\n", New: "", Rule: "C07.R6"},
		mutant{Name: "legs established but never spliced", File: tcpp, Old: "\tp.forward(upstreamConn, downstreamConn)\n", New: "\t_ = downstreamConn\n", Rule: "C07.R7"},
		mutant{Name: "Close writes a close frame concurrently with the copy loop", File: wsc, Old: "func (c *Conn) Close() error {\n\treturn c.wsConn.Close()", New: "func (c *Conn) Close() error {\n\t_ = c.wsConn.WriteMessage(websocket.CloseMessage, nil)\n\treturn c.wsConn.Close()", Rule: "C07.R5"},
		mutant{Name: "benign: exhausted reader dropped one iteration later", Benign: true, File: wsc, Old: "\t\t\tif err != nil {\n\t\t\t\tc.reader = nil\n\t\t\t\tif err == io.EOF {", New: "\t\t\tif err != nil {\n\t\t\t\tif err == io.EOF {"},
	)
	add("C08",
		mutant{Name: "error helper forgets the status code", File: httpp, Old: "\tw.WriteHeader(statusCode)\n", New: "", Rule: "C08.R3"},
		mutant{Name: "dial hook tests the error the wrong way round", File: httpp, Old: "if err != nil && errors.Is(err, upstream.ErrGone)", New: "if err == nil && errors.Is(err, upstream.ErrGone)", Rule: "C08.R5"},
	)
	add("C11",
		mutant{Name: "unreachable marked only when already unreachable", File: gstate, Old: "\t\t\tif !node.Unreachable {\n", New: "\t\t\tif node.Unreachable {\n", Rule: "C11.R7"},
		mutant{Name: "probe list contains only the local node", File: gstate, Old: "\t\tif node.ID == s.localID {\n\t\t\tcontinue\n\t\t}\n\t\tif node.Unreachable {\n\t\t\tmetadata", New: "\t\tif node.ID != s.localID {\n\t\t\tcontinue\n\t\t}\n\t\tif node.Unreachable {\n\t\t\tmetadata", Rule: "C11.R6"},
		mutant{Name: "RemoveExpired does nothing", File: gstate, Old: "\ts.RemoveExpiredAt(time.Now())\n", New: "", Rule: "C11.R10"},
		mutant{Name: "liveness is never evaluated", File: ggo, Old: "\t\tg.state.UpdateLiveness(float64(suspicionThreshold))\n", New: "", Rule: "C11.R10"},
		mutant{Name: "departure announced to the node itself", File: ggo, Old: "\t\tif node.ID == g.state.LocalNodeMetadata().ID {\n\t\t\t// Ignore ourselves.", New: "\t\tif node.ID != g.state.LocalNodeMetadata().ID {\n\t\t\t// Ignore ourselves.", Rule: "C11.R6"},
	)
	add("C12",
		mutant{Name: "a new window replaces the history on every report", File: gfd, Old: "\twindow, ok := d.windows[nodeID]\n\tif !ok {\n\t\twindow = newArrivalWindow(d.bootstrapInterval, d.sampleSize)\n\t\td.windows[nodeID] = window\n\t}\n\twindow.Add(timestamp)", New: "\twindow, ok := d.windows[nodeID]\n\tif ok {\n\t\twindow = newArrivalWindow(d.bootstrapInterval, d.sampleSize)\n\t\td.windows[nodeID] = window\n\t}\n\twindow.Add(timestamp)", Rule: "C12.R5"},
		mutant{Name: "Remove keeps the stale window", File: gfd, Old: "\tdelete(d.windows, nodeID)\n", New: "", Rule: "C12.R5"},
		mutant{Name: "Report does nothing", File: gfd, Old: "\td.ReportWithTimestamp(nodeID, time.Now())\n", New: "", Rule: "C12.R6"},
		mutant{Name: "unknown node sampled before its first arrival is recorded", File: gfd, Old: "\t\twindow = newArrivalWindow(d.bootstrapInterval, d.sampleSize)\n\t\twindow.Add(timestamp)\n", New: "\t\twindow = newArrivalWindow(d.bootstrapInterval, d.sampleSize)\n", Rule: "C12.R5"},
	)
	add("C13",
		mutant{Name: "delta decoder treats success as failure", File: gprot, Old: "\tvar header deltaHeader\n\tif err := decoder.Decode(&header); err != nil {", New: "\tvar header deltaHeader\n\tif err := decoder.Decode(&header); err == nil {", Rule: "C13.R7"},
		mutant{Name: "digest decoder accepts every type but digests", File: gprot, Old: "\tif messageType != messageTypeDigest {", New: "\tif messageType == messageTypeDigest {", Rule: "C13.R8"},
		mutant{Name: "packets of the supported version are the ones rejected", File: glist, Old: "\tif version != supportedVersion {\n\t\treturn fmt.Errorf(\"unsupported version: %d\", version)\n\t}\n\n\tswitch messageType {\n\tcase messageTypeDigest:", New: "\tif version == supportedVersion {\n\t\treturn fmt.Errorf(\"unsupported version: %d\", version)\n\t}\n\n\tswitch messageType {\n\tcase messageTypeDigest:", Rule: "C13.R8"},
	)
	add("C13",
		mutant{Name: "re-introduces D5: a delta may name a node whose id is not valid UTF-8", File: gstate, Old: "\t\tif !utf8.ValidString(entry.ID) {\n\t\t\treturn\n\t\t}\n", New: "\t\tif !utf8.ValidString(entry.ID) && false {\n\t\t\treturn\n\t\t}\n", Rule: "C13.R9"},
		mutant{Name: "re-introduces D5: a digest may name a node whose id is not valid UTF-8", File: gstate, Old: "\t\tif !utf8.ValidString(entry.ID) {\n\t\t\tcontinue\n\t\t}\n", New: "", Rule: "C13.R9"},
		mutant{Name: "received key used as a metrics label", File: gstate, Old: "\t\t\"node_id\":  nodeID,\n\t\t\"internal\": strconv.FormatBool(newEntry.Internal),", New: "\t\t\"node_id\":  nodeID + newEntry.Key,\n\t\t\"internal\": strconv.FormatBool(newEntry.Internal),", Rule: "C13.R9"},
	)
	add("C16",
		mutant{Name: "sessions are never recorded", File: upsrv, Old: "\ts.sessions[sess] = struct{}{}\n", New: "", Rule: "C16.R5"},
		mutant{Name: "gone upstreams are never deregistered by the dial hook", File: httpp, Old: "if err != nil && errors.Is(err, upstream.ErrGone)", New: "if err == nil && errors.Is(err, upstream.ErrGone)", Rule: "C16.R8"},
	)
	add("C18",
		mutant{Name: "an aborted handshake is a permanent dial failure", File: wsc, Old: "\tif resp == nil {\n\t\treturn nil, NewRetryableError(err)\n\t}", New: "\tif resp == nil {\n\t\tvar netErr net.Error\n\t\tif errors.As(err, &netErr) {\n\t\t\treturn nil, NewRetryableError(err)\n\t\t}\n\t\treturn nil, err\n\t}", Rule: "C18.R7"},
	)
	add("C17",
		mutant{Name: "leave is dropped unless the node has already left", File: gstate, Old: "\tif state.Left {\n\t\t// Already left.", New: "\tif !state.Left {\n\t\t// Already left.", Rule: "C17.R2"},
		mutant{Name: "compaction is never scheduled", File: ggo, Old: "\t\tg.state.CompactLocal(compactThreshold)\n", New: "", Rule: "C17.R6"},
		mutant{Name: "Gossip.UpsertLocal does nothing", File: ggo, Old: "\tg.state.UpsertLocal(key, value)\n", New: "", Rule: "C17.R6"},
	)
	add("C20",
		mutant{Name: "packets handled in a goroutine that shares the read buffer", File: glist, Old: "\t\tbuf := l.readBuf[:n]\n\t\tif err = l.handlePacket(buf); err != nil {", New: "\t\tbuf := l.readBuf[:n]\n\t\tgo func() { _ = l.handlePacket(buf) }()\n\t\tif err = nil; err != nil {", Rule: "C20.L10"},
		mutant{Name: "benign: packets handled in a goroutine on a private copy", Benign: true, File: glist, Old: "\t\tbuf := l.readBuf[:n]\n\t\tif err = l.handlePacket(buf); err != nil {", New: "\t\tbuf := append([]byte(nil), l.readBuf[:n]...)\n\t\tif err = l.handlePacket(buf); err != nil {"},
		mutant{Name: "Select returns with the manager mutex held", File: upmgr, Old: "\tm.mu.Lock()\n\tdefer m.mu.Unlock()\n\n\tlb, ok := m.localUpstreams[endpointID]\n\tif ok {", New: "\tm.mu.Lock()\n\n\tlb, ok := m.localUpstreams[endpointID]\n\tif !allowRemote && !ok {\n\t\treturn nil, false\n\t}\n\tdefer m.mu.Unlock()\n\tif ok {", Rule: "C20.L6"},
		mutant{Name: "missing balancer dereferenced on disconnect", File: upmgr, Old: "\tif !ok {\n\t\treturn\n\t}\n\tif !slices.Contains", New: "\tif ok {\n\t\treturn\n\t}\n\tif !slices.Contains", Rule: "C20.L9"},
		mutant{Name: "Close writes a close frame concurrently with the copy loop", File: wsc, Old: "func (c *Conn) Close() error {\n\treturn c.wsConn.Close()", New: "func (c *Conn) Close() error {\n\t_ = c.wsConn.WriteMessage(websocket.CloseMessage, nil)\n\treturn c.wsConn.Close()", Rule: "C20.L8"},
	)
}
