#!/bin/bash
# seedcheck.sh <out-dir of one seeded change> <property id> : confirm a seeded change in a
# scratch worktree (demo passes without / fails with the patch, suite passes with it), then run the
# property's quick check against /repo with the patch applied and undo it straight afterwards.
set -u
SRC="$1"; PROP="$2"
W=$(mktemp -d /tmp/seedv.XXXXXX)
export GOFLAGS=-mod=mod GOPROXY=off
git -C /repo worktree add -q --detach "$W/wt" HEAD || exit 2
cd "$W/wt"
res() { echo "RESULT $PROP $(basename $SRC) $*"; }
copy_demo() { while read -r f dst; do [ -n "$f" ] && mkdir -p "$(dirname "$dst")" && cp "$SRC/$f" "$dst"; done < "$SRC/demo_path.txt"; }
rm_demo() { while read -r f dst; do [ -n "$f" ] && rm -f "$dst"; done < "$SRC/demo_path.txt"; }
CMD=$(cat "$SRC/demo_cmd.txt")
copy_demo
if timeout 300 bash -c "$CMD" > "$W/demo_clean.log" 2>&1; then A=pass; else A=FAIL; fi
if ! git apply "$SRC/patch.diff" 2> "$W/apply.log"; then res "patch does not apply: $(head -1 $W/apply.log)"; cd /; git -C /repo worktree remove --force "$W/wt"; rm -rf "$W"; exit 1; fi
if go build ./... > "$W/build.log" 2>&1; then B=ok; else B=BROKEN; fi
if timeout 300 bash -c "$CMD" > "$W/demo_patched.log" 2>&1; then C=PASS; else C=fail; fi
rm_demo
if go test -vet=off -count=1 ./... > "$W/suite.log" 2>&1; then D=pass; else D=FAIL; fi
cd /
git -C /repo worktree remove --force "$W/wt"
# now the check itself, on /repo
# (serialised: several confirmations may run side by side, but only one at a time may touch /repo)
exec 9> /tmp/seedcheck.repo.lock; flock 9
git -C /repo apply "$SRC/patch.diff"
/verif/run.sh "$PROP" quick > "$W/check.log" 2>&1; E=$?
git -C /repo checkout -- . ; git -C /repo clean -fdq
flock -u 9
res "demo_clean=$A build=$B demo_patched=$C suite=$D check_exit=$E"
grep -E "^(VIOLATED|UNDECIDED)" "$W/check.log" | cut -c1-260 | head -5
[ "$D" = FAIL ] && grep -E "^(FAIL|---)" "$W/suite.log" | head -5
rm -rf "$W"
