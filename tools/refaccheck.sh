#!/bin/bash
# refaccheck.sh <diff>... : apply a behaviour-preserving refactoring to a scratch worktree and run every property's rules on it.
export PATH=/opt/veriftools/go1.26.8/bin:$PATH GOTOOLCHAIN=local GOFLAGS=-mod=mod GOPROXY=off GOSUMDB=off GOWORK=off
WT=${WT:-/tmp/devwt}
CREATED=0
if [ ! -d "$WT" ]; then git -C /repo worktree add -q --detach "$WT" HEAD && CREATED=1; fi
for d in "$@"; do
  git -C $WT checkout -q -- . ; git -C $WT clean -fdq
  if ! git -C $WT apply "$d" 2>/dev/null; then echo "REFAC $d: does not apply"; continue; fi
  out=$(${BIN:-/verif/bin/pikocheck} -p all -tier probe -repo $WT -verif /verif | grep '^PROBEALL' | cut -c10-)
  echo "REFAC $d: $(echo "$out" | python3 -c "
import json,sys
d=json.load(sys.stdin)
if d.get('load_failed'): print('LOAD FAILED')
elif not d['by']: print('silent')
else:
    for k,v in d['by'].items():
        print('ALARM',k,len(v)); [print('    ',x[:230]) for x in v[:6]]
")"
done
git -C $WT checkout -q -- . ; git -C $WT clean -fdq
if [ "$CREATED" = 1 ]; then git -C /repo worktree remove --force "$WT"; fi
