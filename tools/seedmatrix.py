#!/usr/bin/env python3
# Prints the markdown detection matrix for the seeded changes under /verif/seeded (argument: a substring filter, e.g. "r2").
import json, os, re, sys
flt = sys.argv[1] if len(sys.argv) > 1 else ""
root = '/verif/seeded'
for d in sorted(os.listdir(root)):
    mp = os.path.join(root, d, 'meta.json')
    if not os.path.exists(mp) or (flt and flt not in d) or (not flt and '-r' in d):
        continue
    m = json.load(open(mp))
    rules = []
    for o in m.get('reported_obligations', []):
        mm = re.match(r'(?:VIOLATED|UNDECIDED) ([A-Z]\d\d\.[A-Za-z0-9]+)/', o)
        if mm and mm.group(1) not in rules:
            rules.append(mm.group(1))
    needs = re.sub(r'\s+', ' ', m.get('needs_to_manifest') or '').replace('|', '/')
    if len(needs) > 230:
        needs = needs[:227] + '...'
    print(f"| {m['id']} | {needs} | {', '.join(rules) if m.get('detected') else 'NOT DETECTED'} |")
