#!/usr/bin/env python3
# Confirms every seeded change under $SEED_ROOT (default /tmp/seed/out) and records it under /verif/seeded/<id>/.
# SEED_TAG=r2 names the second round's changes Cxx-r2m1, Cxx-r2m2; their 'needs' text is taken from the README section.
import json, os, re, shutil, subprocess, sys
NEEDS = {
 "C01-m1":"an endpoint's upstream moves to another node (or two ids share a pool key) while the entry node holds an idle pooled inter-node connection",
 "C01-m2":"more than 64 pending entries for one node relative to a peer (burst of connects, or compaction of a node with >64 live endpoints)",
 "C02-m1":"a delayed or duplicated delta delivered after the observer applied the owner's compaction",
 "C02-m2":"a delta larger than the packet size with a large entry at the cut point followed by a smaller one",
 "C03-m1":"outstanding difference larger than one packet and a large entry followed by smaller ones",
 "C03-m2":"earlier message loss: a node expired a live peer and no third node re-introduces it (e.g. two-node cluster)",
 "C04-m1":"delayed packet + withdrawal + compaction + late delivery",
 "C04-m2":"endpoint changes made while the owner is flagged unreachable/left at the observer",
 "C05-m1":"a proxy go-away removal running between an upstream's local add and its cluster add (two goroutines, same endpoint)",
 "C05-m2":"late/duplicate RemoveConn while a sibling upstream of the same endpoint stays connected",
 "C06-m1":"a forwarded request reaching a node whose last local upstream has gone away, with a stale view naming a third node",
 "C06-m2":"TCP route, no local upstream at the receiving node, stale or mutually inconsistent views",
 "C07-m1":"a single Write larger than 64 KiB by SDK code (forward/agent never exceed 32 KiB)",
 "C07-m2":"a cross-node tunnelled connection that lives longer than proxy.timeout",
 "C08-m1":"unusual query strings (semicolons, bare %), client-sent Forwarded/X-Forwarded-* headers, missing User-Agent",
 "C08-m2":"an upstream that stalls while reading a large request body, or a stalled connect to another node",
 "C09-m1":"a port configured with only an RSA/ECDSA key and an HS* token signed with the empty secret",
 "C09-m2":"disable_disconnect_on_expiry plus a use-then-replay-after-expiry sequence",
 "C10-m1":"a restricted token plus the client-controllable x-piko-forward header",
 "C10-m2":"a token first accepted under its own tenant, then replayed under another/no/unknown tenant",
 "C11-m1":"the node keeps running for more than nodeExpiry after Leave() (slow leave, long grace period)",
 "C11-m2":"node discovered from a digest, marked unreachable while pending, then its state relayed by a third peer",
 "C12-m1":"a peer heard steadily with every gap below bootstrapInterval/100",
 "C12-m2":"a steady peer whose true interval exceeds the bootstrap interval by more than the threshold factor, after the window wrapped",
 "C13-m1":"a multi-node delta over the packet size with a big entry followed by a small node",
 "C13-m2":"one hostile UDP delta datagram with a negative per-node entry count",
 "C14-m1":"two concurrent ApplyDelta calls (UDP packet and TCP stream) whose notifications are dispatched after unlocking",
 "C14-m2":"a key with an empty value deleted, seen deleted by the observer, then re-created with an empty value",
 "C15-m1":"cursor on the last slot of an endpoint with >= 2 upstreams, then removal of any one of them",
 "C15-m2":"forwarded request + chosen local upstream returns ErrGone + no other local upstream + a remote node advertising the endpoint",
 "C16-m1":"shared endpoint, go-away, a request routed in that window, then close",
 "C16-m2":"multi-tenant configuration with an expiring JWT on a tenant connection",
 "C17-m1":"a key re-created (upsert after delete) before the next compaction",
 "C17-m2":"a live write after the last delete, then compaction, then a sync by any observer",
 "C18-m1":"graceful departure in a cluster of >= 6 nodes (or a failed leave notification), observed at peers not notified directly",
 "C18-m2":"an in-flight request consuming the grace period during drain plus a peer that does not acknowledge the leave",
 "C19-m1":"a remote node holding endpoints goes unreachable/left and then an endpoint delete for it is applied",
 "C19-m2":"a node that knows no peers with more open sessions than registered listeners (draining upstreams)",
 "C20-m1":"two upstream handlers of the same endpoint interleaving between reading the count and publishing it",
 "C20-m2":"an upstream connect/disconnect concurrent with a gossip delta about a pending node (lock-order inversion)",
}
only = sys.argv[1:]
out_root=os.environ.get('SEED_ROOT','/tmp/seed/out')
tag=os.environ.get('SEED_TAG','')
def needs_from_readme(src):
    try: t=open(os.path.join(src,'README.md')).read()
    except OSError: return 'see README.md'
    m=re.search(r'^##[^\n]*(?:needed|needs)[^\n]*\n(.*?)(?=^## |\Z)',t,re.S|re.M|re.I)
    return re.sub(r'\s+',' ',m.group(1)).strip()[:600] if m else 'see README.md'
results=[]
for prop in sorted(os.listdir(out_root)):
    for m in ('m1','m2'):
        src=os.path.join(out_root,prop,m)
        sid=f"{prop}-{tag}{m}"
        if only and sid not in only: continue
        if not os.path.exists(os.path.join(src,'patch.diff')) or not os.path.exists(os.path.join(src,'demo_path.txt')): continue
        missing=[l.split()[0] for l in open(os.path.join(src,'demo_path.txt')) if l.strip() and not os.path.exists(os.path.join(src,l.split()[0]))]
        if missing:
            print(sid,'demo missing',missing); continue
        r=subprocess.run(['/verif/tools/seedcheck.sh',src,prop],capture_output=True,text=True)
        line=[l for l in r.stdout.splitlines() if l.startswith('RESULT')]
        viol=[l for l in r.stdout.splitlines() if l.startswith(('VIOLATED','UNDECIDED'))]
        if not line:
            print(sid,'no result',r.stdout[-300:]); continue
        kv=dict(x.split('=') for x in line[0].split()[3:])
        confirmed = kv.get('demo_clean')=='pass' and kv.get('build')=='ok' and kv.get('demo_patched')=='fail' and kv.get('suite')=='pass'
        print(sid,kv,'confirmed' if confirmed else 'NOT CONFIRMED')
        if not confirmed: continue
        dst=os.path.join('/verif/seeded',sid)
        shutil.rmtree(dst,ignore_errors=True); os.makedirs(dst)
        for f in os.listdir(src):
            if f.endswith('.log'): continue
            shutil.copy(os.path.join(src,f),os.path.join(dst,f))
        meta={
          "id":sid,"property":prop,
          "breaks":open(os.path.join(out_root,prop,'PROPERTY.txt')).read().splitlines()[0],
          "needs_to_manifest":NEEDS.get(sid) if not tag else needs_from_readme(src),
          "what_was_run":{
            "scratch_worktree":"git -C /repo worktree add --detach <tmp> HEAD; demo copied per demo_path.txt; demo_cmd.txt run before and after `git apply patch.diff`; `go build ./...`; `go test -vet=off -count=1 ./...` with the patch and without the demo; worktree removed",
            "demo_on_unchanged_tree":kv.get('demo_clean'),"build_with_patch":kv.get('build'),
            "demo_with_patch":kv.get('demo_patched'),"existing_suite_with_patch":kv.get('suite'),
            "check":"git -C /repo apply patch.diff; /verif/run.sh %s quick; git -C /repo checkout -- ."%prop,
            "check_exit":int(kv.get('check_exit','-1')),
          },
          "detected": kv.get('check_exit')=='1',
          "reported_obligations":[re.sub(r'\s+',' ',v)[:300] for v in viol][:6],
          "origin":"written by an independent sub-agent that saw only the property text and its own scratch worktree",
        }
        json.dump(meta,open(os.path.join(dst,'meta.json'),'w'),indent=1)
        results.append(meta)
json.dump([{k:m[k] for k in ('id','property','detected')} for m in results],open('/tmp/seedsweep%s.json'%tag,'w'),indent=1)
print('detected',sum(m['detected'] for m in results),'of',len(results))
