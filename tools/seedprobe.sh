#!/bin/bash
# seedprobe.sh [binary] : quick regression over every archived seeded change - apply the patch to a scratch
# worktree ($WT, default /tmp/fpwt), run the property's rules (with its dependency closure) and report whether it
# is still detected. The full confirmation (demo, suite, check on /repo) is tools/keepseeds.py.
export PATH=/opt/veriftools/go1.26.8/bin:$PATH GOTOOLCHAIN=local GOFLAGS=-mod=mod GOPROXY=off GOSUMDB=off GOWORK=off
BIN=${1:-/verif/bin/pikocheck}
WT=${WT:-/tmp/fpwt}
CREATED=0
if [ ! -d "$WT" ]; then git -C /repo worktree add -q --detach "$WT" HEAD && CREATED=1; fi
miss=0; n=0
for d in /verif/seeded/C*; do
  id=$(basename $d); prop=${id%%-*}
  [ -f $d/patch.diff ] || continue
  git -C $WT checkout -q -- . ; git -C $WT clean -fdq
  git -C $WT apply $d/patch.diff || { echo "SEED $id apply-failed"; continue; }
  out=$($BIN -p $prop -tier probe -repo $WT -verif /verif | grep '^PROBE ' | cut -c7-)
  r=$(echo "$out" | python3 -c "import json,sys; d=json.load(sys.stdin); v=d['violated'] or []; print(len(v), ' '.join(sorted(set(o['rule'] for o in v))[:6]))")
  n=$((n+1)); [ "${r%% *}" = 0 ] && miss=$((miss+1))
  echo "SEED $id $r"
done
git -C $WT checkout -q -- . ; git -C $WT clean -fdq
echo "seedprobe: $n seeded changes, $miss not detected"
if [ "$CREATED" = 1 ]; then git -C /repo worktree remove --force "$WT"; fi
