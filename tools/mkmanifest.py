#!/usr/bin/env python3
# Regenerates /verif/MANIFEST.json from the properties the checker implements.
import json, subprocess, sys
props=[json.loads(l) for l in open('/verif/properties.jsonl')]
built=subprocess.run(['/verif/bin/pikocheck','-list'],capture_output=True,text=True).stdout.split()
NA={}  # property id -> reason (filled for properties deliberately not claimed)
try:
    NA=json.load(open('/verif/tools/not_applicable.json'))
except Exception: pass
TECH={
 'C01':'static analysis: value identity of the endpoint key along the routing chain, table agreement of URL paths/headers, who-may-construct, transport configuration',
 'C02':'static analysis: call-graph reachability (local writers vs network handlers), guard dominance on every state write, version-store forms, delta construction/sort, loop completeness, observer-compaction provenance followed through helper call sites',
 'C03':'static analysis: must-pass-through of the exchange skeleton (apply digest, delta, send), digest completeness, peer selection, reply coverage of Delta, scheduler wiring (call-graph + ticker-loop shape)',
 'C04':'static analysis: guard dominance on lookup returns, table agreement of the key schema, path classes of watcher methods, promotion guards, success-means-written effect summaries of the routing-table mutators, pending-node path classes',
 'C05':'static analysis: effect summaries (path classes) + guard dominance + locksets + call-graph ownership over SSA',
 'C06':'static analysis: argument shape at Select call sites, marker dominance before the hop, guard dominance on raw dials, local-first selection',
 'C07':'static analysis: sibling agreement of the copy-pair idiom, reader-retention typestate and per-path return discipline in the websocket adapter, who-may-call for the WebSocket library (single writer/reader), release of the dialled leg on all paths, forbidden configuration calls/values',
 'C08':'static analysis: who-may-store in Director, live-header write set over handler chains, status table by guard dominance, timeout phi provenance',
 'C09':'static analysis: must-precede of auth middleware over route registration, abort discipline path classes, verifier option/data-dependence checks, algorithm/key table agreement',
 'C10':'static analysis: checked-equals-routed value identity with helper summaries, exact-membership return discipline, tenant selection guards',
 'C11':'static analysis: guard dominance on membership field stores, flag/expiry pairing, transition guards, notification pairing, routing status mapping, facade/driver wiring of the periodic sweeps',
 'C12':'static analysis: heartbeat must-pass-through, window lifecycle (create-on-miss, store, prime, drop), window bookkeeping typestate (eviction/sum/index), data-dependence shape of phi',
 'C13':'static analysis: size-bound dataflow on emitted buffers (through sender helpers), encode-loop typestate, reachable-panic and bounds-guard scan from network entry points, checked-lookup dereference, error-arm contradiction rule, header validation, taint-style rule for panicking metrics label APIs',
 'C14':'static analysis: mutation/notification pairing by bounded path enumeration over SSA, synchronous-call check',
 'C15':'static analysis: cursor invariant (who-may-store + renormalisation typestate), effect summaries for empty balancers, selection provenance',
 'C16':'static analysis: acquire/release pairing with defer, accept-loop exit guards, context provenance (phi operands), expiry propagation',
 'C17':'static analysis: clean/bumped version automaton over the CFG, no-op guard facts, compaction retention edges, stored-entry shape',
 'C18':'static analysis: shutdown order must-precede, single grace context, leave marker ordering, reconnect classification by local state, retryable classification of transport-level dial failures',
 'C19':'static analysis: guard dominance before shedding, data dependence of the shed count, ticker gating, average over active nodes',
 'C20':'static analysis: lock-order graph over VTA call graph, guarded-by locksets, escape of guarded pointers, blocking calls under locks, lock/unlock pairing on all paths, library concurrency contract (who-may-call), loop-refilled buffer escaping to a goroutine, nil dereference of failed checked lookups',
}
m={
 "version":1,
 "setup_cmd":"./run.sh --build",
 "hooks":{"guard":"verif","enable":"none: static analysis needs no instrumentation; no hook commits exist","baseline_off_cmd":"cd /repo && go test -vet=off -count=1 ./...","source_commits":[],"add_only":True},
 "engines":[{"name":"pikocheck","path":"checker/","serves_properties":sorted(built),"kind_free_text":"repository-specific static analyser over go/packages + go/ssa + VTA call graph (x/tools v0.50.0, go1.26.8): guard-dominance facts, value identity/access paths, bounded path enumeration, effect summaries, locksets, call-graph queries, table agreement; thorough tier adds an in-memory overlay-mutant sensitivity audit"}],
 "checks":[],
 "notes":"All checks are static: each run loads /repo's working tree, type-checks it, builds SSA and decides rule instances (obligations) of DESIGN.md section 4. Undecided obligations, unresolved anchors, load failures and instance counts below the recorded floors are reported as violations. /repo carries five 'fix:' commits (see known_findings.json). Each check also evaluates the rule sets of the properties its statement rests on (dependency closure, DESIGN.md section 11.1).",
 "not_applicable":[]
}
for p in props:
    i=p['id']
    if i in built and i not in NA:
        m['checks'].append({
          "property_id":i,
          "quick_cmd":"./run.sh %s quick"%i,
          "thorough_cmd":"./run.sh %s thorough"%i,
          "evidence_file":"/verif/evidence/%s.json"%i,
          "replay_cmd_template":"./run.sh --explain {path}",
          "engine":"pikocheck",
          "level_claimed":{"category":"other","text":"Static decision of the structural clauses listed for this property in DESIGN.md section 4 (each a necessary condition of the behaviour; the evidence file's coverage.explanation states exactly what is and is not decided). Every obligation is a rule instance on a named construct of the current tree; a pass means all were discharged.","design_ref":"DESIGN.md section 4, "+i},
          "level_note":"Trusted: go/types, go/ssa, CHA-seeded VTA call graph, opaque third-party libraries (facts about them stated in the rules); see DESIGN.md section 10. Does not decide the behavioural property beyond the named clauses.",
          "technique":TECH.get(i,'static analysis')
        })
    else:
        m['not_applicable'].append({"property_id":i,"reason":NA.get(i,"rules designed in DESIGN.md section 4 but not built in this revision; not claimed until the check exists")})
json.dump(m,open('/verif/MANIFEST.json','w'),indent=1)
print("claimed:",[c['property_id'] for c in m['checks']])
