#!/bin/bash
# Single entry point: ./run.sh <property> quick|thorough   |   ./run.sh --explain <replay file>
# Rebuilds the checker when its sources are newer than the binary, then analyses
# /repo's current working tree (nothing is cached between runs).
set -u
cd "$(dirname "$0")"
VERIF="$(pwd)"
export PATH=/opt/veriftools/go1.26.8/bin:$PATH
export GOTOOLCHAIN=local GOFLAGS=-mod=mod GOPROXY=off GOSUMDB=off GOWORK=off
unset GOEXPERIMENT
BIN="$VERIF/bin/pikocheck"
need_build=0
if [ ! -x "$BIN" ]; then need_build=1; else
  for f in "$VERIF"/checker/*.go "$VERIF"/checker/go.mod; do
    if [ "$f" -nt "$BIN" ]; then need_build=1; break; fi
  done
fi
if [ "$need_build" = 1 ]; then
  mkdir -p "$VERIF/bin"
  (cd "$VERIF/checker" && go build -o "$BIN" .) || { echo "checker build failed"; exit 2; }
fi
if [ "${1:-}" = "--build" ]; then exit 0; fi
if [ "${1:-}" = "--explain" ]; then exec "$BIN" -explain "$2"; fi
PROP="${1:?property id}"
TIER="${2:-${VERIF_TIER:-quick}}"
exec "$BIN" -p "$PROP" -tier "$TIER" -repo "${PIKO_REPO:-/repo}" -verif "$VERIF"
